#!/bin/sh
# usage: tools/seedtest.sh <dir with patch.diff> <Cxx> [more Cxx...]  : apply a seeded change to /repo, run the checks, undo it
d=$1; shift
cd /repo && git apply "$d/patch.diff" || exit 3
cd /verif
rm -rf /tmp/evidence_keep && cp -r evidence /tmp/evidence_keep
for p in "$@"; do
  ./check $p > /tmp/seedtest_$p.log 2>&1; rc=$?
  echo "== $p rc=$rc"; grep -E "VIOLATION|BROKEN|KNOWN|INFRA" /tmp/seedtest_$p.log | cut -c1-300 | head -8
done
cd /verif && rm -rf evidence && mv /tmp/evidence_keep evidence
cd /repo && git checkout -- . && git status --short | head -3
