#!/venv/bin/python
"""Regenerates MANIFEST.json from the table below (one place to edit).  Run after adding a check."""
import json, os

VERIF = os.path.dirname(os.path.dirname(os.path.abspath(__file__)))

BASE_NOTE = ('Trusted: Lean 4.33 kernel; axioms limited to propext / Classical.choice / Quot.sound (audited every run, no sorry / '
             'native_decide / own axioms); the ast translator tools/gen/translate.py (regenerates lean/BSEGen from the working tree every run); '
             'the correspondence harness + compiled Lean driver (sampled differential execution of model and implementation). ')

# pid -> (technique, level text, level note, design ref)
CHECKS = {
    'C20': ('Lean 4 theorems over tables regenerated from lut.py/METADATA.json (decide +kernel over the complete finite tables; induction for '
            'expand∘compact and contraction counts) + differential execution of the Lean model against lut.py/misc.py',
            'Proof: expand(compact S) = sorted set S for every list S at the level of ranges (induction); symbol/name/Z inverse laws, official symbols, '
            'both angular-momentum conventions (l<25), electron_shells_start accounting (0..118), file-name round trip for every index name — all by kernel '
            'evaluation over the complete tables regenerated from the source; contraction_string counts by induction over shells. The text layer is '
            'proved too: expand_compact_text - for every non-empty list S of atomic numbers 1..118, compact_elements produces a string and expand_elements (squeezing of repeated '
            'separators, removal of white space, comma stripping, its four malformed-pattern tests incl. the chained-range regex, the split at the commas, the expansion of every A-B) '
            'turns it into exactly the sorted set - over the symbol table regenerated from lut.py (known_Z by kernel evaluation; Lemmas/ElementsText.lean: separators are never adjacent, '
            'between two dashes there is always a comma). The string functions are tied by correspondence on all intervals of 1..118, unions of intervals and a grammar of malformed strings.',
            BASE_NOTE + 'The regular expressions of expand_elements are modelled by list functions (tied by correspondence, ASCII only). The general file-name law '
            'has a stated limit (theorem name_file_roundtrip_limit).', '6/C20'),
}

CHECKS['C02'] = (
    'Lean 4 theorems (funcSet preservation of prune_shell, dedup, uncontract_general, uncontract_spdf for every max_am, make_general padding; the whole operations prune_basis / uncontract_general / make_general including their pruning pass under semantic well-formedness; '
    'sort_shell / sort_shells as permutations; soundness of the sameFuncs checker) + differential execution of the Lean model of every operation against manip.py/sort.py per element + '
    'the verified checker run on the implementation\'s input/output',
    'Proof (on the model): each re-contraction step keeps the set of contracted functions (momentum, exponent->coefficient map over exact rationals) '
    'for every valuation, every shell list and every max_am; the padding literal and the inner call sites are regenerated from manip.py and api.py; '
    'the checker the driver evaluates on the real input/output pairs is proved sound. The tie to the code is exact shell-list equality model = '
    'implementation per element for all operations, the get_basis flag subsets (interpreted from the regenerated option-block list) and two-step '
    'sequences. The whole operations (core step, pruning pass, duplicate-shell removal) and sort_shell(s) are proved for every shell list whose columns are not the zero function (SemWF). '
    'Shape promises proved for every input: uncontractGeneral_shape (no general contraction left in a single-momentum shell, whole operation), uncontractSpdf_shape (no fused member above max_am, every shell list, every max_am), '
    'makeGeneral_shape (one shell per momentum, ascending, whole operation), makeGeneral_keeps_fused, sortShell_exponents_decreasing, sortShells_momentum_increasing, sortShell_idempotent (keys moving with their contractions). '
    'Partial: optimize_general is in C07; the float <r^2> keys are abstract (any key list); idempotence of the list-level sort_shells is checked on the explored inputs.',
    BASE_NOTE + 'Faithful hypothesis (float equality = decimal equality on the input numbers; measured per run). sort_basis float keys (<r^2>) are '
    'taken from the implementation and abstracted to ranks.', '6/C02')

CHECKS['C07'] = (
    'Lean 4 theorems (uncontract_segmented = one unit function per primitive; remove_free column filter keeps exactly the >=2-primitive functions; '
    'the optimize_general zeroing step preserves Submodule.span over Q and cannot add non-zeros) + differential execution of the Lean model against '
    'manip.py and the get_basis pipeline + exact-rational span check of the implementation output',
    'Proof (on the model): uncontract_segmented_spec / shape, removeFree_spec (single-momentum shells), span_zeroRow and zeroRow_support for one '
    'zeroing step of optimize_general (Mathlib Submodule.span over Q), literals and call order regenerated from manip.py/api.py. Tie: exact shell-list '
    'equality model = implementation per element, directly and through 12 flag combinations. span_zeroAll: the whole sweep over all free primitives keeps the span (induction over the (row, column) pairs; rows pairwise different as the code requires). optimizeShell_span: the list-level optimizeShell of the model (the function the driver runs against manip.optimize_general) keeps the span of the column vectors, for every shell it accepts — famOf_zeroedOf (its matrix is the abstract sweep), rowColPairs_single (every collected pair names a one-entry column), span_filter_nonzero (dropping emptied contractions). optimizeShell_nnz_le: never more non-zero coefficients than the general-contracted shell it starts from (entries are only replaced by the zero literal, contractions only dropped). Span equality and the non-zero count of the real output are decided by exact Gaussian elimination in the harness. removeFree_fused: what remove_free_primitives keeps of a fused sp/spd shell is exactly its members whose column contracts two or more primitives, each under its own momentum, one column per momentum (the statement of fix ed2ae683, F21). Results are scribbled over in place between calls.',
    BASE_NOTE + 'Faithful hypothesis; Fraction arithmetic of CPython for the span oracle.', '6/C07')
CHECKS['C08'] = (
    'Lean 4 theorems (prune_shell output has pairwise distinct exponent values and no dead primitive, prune_basis output has no duplicate shell, '
    'every option block of get_basis requests the final prune — over the block list regenerated from api.py) + the Lean model of the validator rules '
    'run on every get_basis result next to validate_data',
    'Proof (on the model): the closing prune_basis establishes distinct exponents / no unused primitive / no duplicate shell for any input, and '
    'get_basis always reaches it when a contraction option is set (decide over the regenerated block list). The remaining rules (type tags, duplicate '
    'columns, function_types) are checked on every explored result by the Lean validator model (correspondence-checked against validate_data) and by '
    'the library validator: 2^6 option combinations x augmentation on store samples (22 entries in quick, 300 in thorough) and generated dictionaries. '
    'Whole-rule theorems: pruneShell_output_valid (every validator rule holds for what prune_shell returns, given a semantically well-formed, tagged, positive input; '
    '"no duplicate contraction" is the one hypothesis), pruneShell(s)_identity_on_valid (pruning valid data changes nothing), uncontractGeneral_valid and uncontractSegmented_valid (validateElement = none for '
    'everything uncontract_general / uncontract_segmented + prune returns on a valid element). Closure: final_prune_establishes_validity (prune_basis turns every prepared shell list - non-zero rectangular columns, right tag, positive exponents - into a valid element), makeGeneral_skip_valid, makeGeneral_full_valid, uncontractSpdf_prune_valid (valid in, valid out, with "no duplicate contraction" as the one hypothesis: it fails exactly when a contracted function occurs twice, the known finding F10b; since fix 78fc7083 for fused shells of any composition - the earlier hypothesis that every fused shell keeps a member <= max_am marked the point where the real code raised IndexError, F22). Generated dictionaries, incl. ones with a planted zero for one member of a fused shell, are also filed in a data directory each and retrieved by the real get_basis under all 64 flag combinations in an order of their own (F21 was found there). Partial: optimize_general and the augmentations are not in the closure; compositions of several options are covered by the sweep only.',
    BASE_NOTE + 'jsonschema package for the generic schema part.', '6/C08')

CHECKS['C01'] = (
    'Lean 4 theorems about the compose model (merge appends shells and reference groups in component order, a second ECP is refused, metadata '
    'update semantics, function_types membership) + differential execution: model composeTable over the closure of JSON files vs get_basis, ordered and byte-exact',
    'Proof (on the model): mergeElementData_spec (shells and reference groups are exactly the concatenation over the components, in order), '
    'mergeElementData_two_ecps (refusal), get?_update_* (which file a metadata field comes from), mem_sortDedupStr (function_types). Tie: the model '
    'composes the same JSON files and must equal the returned dictionary key for key in insertion order (exhaustive over the store in the thorough tier) '
    'and agree on refusals for synthetic directories with one planted inconsistency. An independent recomposition in the harness states the property directly. '
    'Refinement theorems: composeElemental_refines / composeElemental_shells (each element of the result is the merge, in component order, of exactly the entries the chain element file -> components designates; the per-file table of the code is invisible) and '
    'composeTable_refines (elements from the named composed element files, version from the file name, function_types recomputed, metadata merged, schema stamp). Partial: the front end above composeTable (get_basis name/version resolution) is covered by C05.',
    BASE_NOTE + 'CPython json decoding; os.path string handling modelled on ASCII "/"-paths.', '6/C01')
CHECKS['C05'] = (
    'Lean 4 theorems about the get_basis front-end model (selection = restriction, notation invariance, empty = all, missing element = KeyError, '
    'version defaulting/int-str, case-insensitive name transform) + differential execution and direct predicates on get_basis/get_references',
    'Proof (on the model): select_is_restriction, select_notation_invariant (any two selections with the same expansion set, error cases included), '
    'select_missing_keyerror, select_empty_is_all, select_select (restricting a restriction), version_* , transform_case_insensitive; apply_selection_spec / apply_none_or_empty / apply_missing_keyerror state the same for the whole front end (elements restricted, function_types recomputed for the subset, display name set, every other field untouched; KeyError instead of a partial basis); with C20 for the expansion of every notation. Tie: the model front end applied to the output of compose_table_basis vs get_basis (all top-level fields, element order, types), the model '
    'selection/version functions vs the implementation on the same inputs; the property itself is evaluated on the real results for every capitalisation, '
    'alias, 11+ notations of each selection, ranges crossing undefined elements and malformed strings.',
    BASE_NOTE + 'ASCII names.', '6/C05')

CHECKS['C19'] = (
    'Lean 4 theorems about the comparison model (zero tolerance = exact signed value equality, list equality = unique partners for an equivalence, '
    'diff = filter, sequential subtraction = subtraction of the union, tolerance counter-example) + differential execution against curate.compare/diff',
    'Proof (on the model): entryOk_zero / vecEq_zero / matEq_zero / compareSorted_zero (equal exactly when momentum and the table of exponent and signed '
    'coefficient values agree, any notation), equalBy_unique_partner, subtractBy_spec, subtractBy_append; tolerance_subset_is_not_pairing proves that '
    'the tolerance clause fails for the mutual-subset algorithm (known finding F8a, replayed on the real code); equalBy_is_matching proves the clause under the hypothesis that the counter-example violates: when no shell is within tolerance of two shells of the other list and no list repeats a shell, "equal" yields a one-to-one pairing (the images of the partner function are a permutation of the other list). Tie: model verdict = implementation verdict '
    'on every generated pair (sort keys passed as ranks); the exact-equality oracle of the harness states the property directly for 20 perturbation kinds.',
    BASE_NOTE + 'KeyInjective hypothesis on the float sort key (ties skipped and counted); ECP terms compared in stored order.', '6/C19')

CHECKS['C18'] = (
    'Lean 4 theorems validateShell = none <-> ValidShell, validatePots = none <-> ValidPots, validateElement = none <-> (valid, pairwise different shells and valid potentials with an electron count) + differential execution of the Lean validator model against '
    'validator.validate_data on valid dictionaries and ~50 classes of single-rule mutations',
    'Proof (on the model): validateShell_iff / validateShells_iff — the executable model of _validate_electron_shells accepts exactly the shells that '
    'satisfy every documented rule (non-empty, tag iff l>1, distinct positive exponents, row lengths, no zero contraction, no duplicate contraction, no '
    'unused primitive, one contraction per fused member), with reject_* corollaries. Tie: model verdict vs library verdict per element on valid data '
    '(generated in three forms + store) and on every semantic mutation. validatePots_iff / validateElement_iff do the same for the ECP rules (single momentum, one potential per momentum, lengths, strictness exception for the single-term top potential) and the element level (uniqueItems, ecp_electrons). Partial: the generic JSON-schema engine is exercised by schema mutations only.',
    BASE_NOTE + 'jsonschema package.', '6/C18')
CHECKS['C06'] = (
    'Lean 4 theorems: _make_key = Python binding on every call shape of every memoised signature (decide +kernel over the signatures regenerated from '
    'the source); the memoiser state machine returns the pure value along every schedule (induction) + differential execution against memo.py and a '
    'reference process with memoisation off',
    'Proof (on the model): makeKey_valid_all_shapes (complete enumeration, kernel-evaluated), key_iff_same_binding, memo_refines_pure (any number of threads, '
    'any interleaving of lookup/compute/store micro-steps and cache toggles); memo_isolated_from_caller_mutation: results as objects the caller may overwrite at any time (BSEModel/MemoHeap.lean), the shape of BSEMemoize.__call__ (what a miss files, what a hit returns, the two by-passes) regenerated from memo.py, call_shape_is_good; live_store_leaks shows the model tells a memoiser that files the object itself. Tie: model key = unpickled real key = inspect.signature.bind for every shape '
    '(exhaustive); random sequences with toggles, scrambling of returned objects and 1..16 threads against a forked reference process. Partial: that pickle.loads(pickle.dumps(x)) '
    'is a faithful deep copy, and real thread scheduling, are runtime behaviour the model cannot exhibit; they are covered by the runs only.',
    BASE_NOTE + 'GIL atomicity of dict operations; pickle.', '6/C06')

CHECKS['C12'] = (
    'Lean 4 theorems on an exact-rational model (new exponents x(x/y)^i strictly outside the range on the requested side, even-tempered, n or none per '
    'momentum, gate on two free outer primitives; truhlar targets form a chain, removal only removes) + differential execution against manip.py',
    'Proof (on the model): diffuse_strictly_outside, steep_strictly_outside, even_tempered, newExponents_spec, target_chain, mem_target, '
    'removePrimitive_only_removes; unit literal, month table and the inner make_general call regenerated from manip.py. Tie: the model plan (exact rationals) '
    'vs the printed exponents of geometric_augmentation (within one unit of the 7th digit) and exact shell-list equality for truhlar_calendarize per element; '
    'the rule itself is evaluated on the real results from the function sets (independent of the model). Partial: float evaluation and {:.6e} printing.',
    BASE_NOTE + 'float rounding of the new exponents is outside the model.', '6/C12')

CHECKS['C13'] = (
    'Lean 4 theorems on the AutoAux/AutoABS logic (momentum cap, element thresholds and published ratios regenerated from manip.py, geometric ladder '
    'properties, coupling pairs, minimum over pairs) + differential execution of the exact-rational model against the printed exponents + '
    'string-identity of the output over equivalent representations',
    'Proof (on the model): lmaxAux_cap, autoaux_thresholds / autoabs_thresholds (decide over Z<=120 on the regenerated tables), ratios_published, '
    'ladder_head / ladder_ratio / ladder_below / ladder_reaches, mem_couples, minOver_is_min. Tie: model ladders and AutoABS groups vs the implementation '
    'output at 7 significant digits; representation independence, coverage and shell shape are evaluated on the real outputs for four equivalent '
    're-contractions of every sampled orbital basis and for generated elements placed on the Z thresholds. Partial: everything floating-point (<r> of a '
    'contraction, exp/log, repeated multiplication, float ratio tests at an exact 3/2 boundary) is outside the model.',
    BASE_NOTE + 'contiguous orbital momenta; ints.py integrals trusted.', '6/C13')

CHECKS['C14'] = (
    'Lean 4 theorems over the writer map regenerated from writers/write.py (no comment marker => no header; headed = pre ++ block ++ sep ++ body with the '
    'psi4 / gaussian94lib cases; the block is the concatenation of marker-prefixed lines; markers contain no line boundary) + differential execution of '
    'the assembly model against write_formatted_basis_str',
    'Proof (on the model): no_comment_no_header, headed_is_bare_plus_block, commentBlock_is_prefixed_lines, markers_have_no_break, assembly_as_modelled '
    '(the special-cased formats and the prefixing expression are read from the source). Tie: model text = real text byte for byte for every format x basis x '
    'description variant (own splitlines model incl. all Unicode line boundaries). On the real texts: added lines are marker-initial and before the data, '
    'name/role/version/library version present, reading headed = reading bare for the readable formats, get_basis(header=True/False) agrees. '
    'header_lines_are_marked: splitting the block into lines (str.splitlines, all Unicode line boundaries) gives exactly the header\'s own lines, each behind the marker — no header line can reach a reader unmarked '
    '(splitlines_commentBlock, by induction over the splitlines model). readBack_headed: prune_lines(text.splitlines(), skipchars) - what every reader starts with - gives the same lines for the headed and the bare text, for every format whose comment marker starts with a character its reader prunes (readback_formats: ten formats incl. gaussian94, nwchem, turbomole; prune characters regenerated from the reader modules), every payload and every header ending with a line feed; the prune_lines model is compared with helpers.prune_lines on headed texts and nasty strings. Partial: textwrap is a parameter; that the header ends with a line feed is checked on every explored text, not proved.',
    BASE_NOTE + 'textwrap, str.splitlines of CPython.', '6/C14')

CHECKS['C04'] = (
    'Lean 4 theorems (write_matrix: the blank-separated tokens of every printed row are exactly its cells, any padding; exponent-marker conversion touches '
    'only e/E; the function-type gate and every writer pipeline over tables regenerated from writers/*.py) + differential execution of the write_matrix and '
    'gate models + exact-decimal coverage check of the real text of every format',
    'Proof (on the model): rowLine_tokens / writeMatrix_row_tokens (no cell dropped, glued or changed), convExp_only_marker, gate_rejects, gateless_formats, '
    'restricted_gates, pipelines_preserve (each of the 29 extracted normalisation pipelines uses only operations proved set-/span-preserving in C02/C07), '
    'optimize_only_veloxchem. Tie: write_matrix model = printing.write_matrix on sampled shell/ECP matrices, gate model = real gate on all 29x64 cases. '
    'Three printing loops are modelled at token level: NWChem (nwchem_writer_covers_shells: for every primitive a row with its exponent and every coefficient; '
    'nwchem_writer_covers_ecp: the nelec line and every ECP term), Gaussian94 (g94_writer_covers_shells, g94_writer_covers_ecp) and the Turbomole electron section (turbomole_writer_covers_shells), their token lines compared with the real writers line for line (C03 harness). The other printing loops are not '
    'modelled one by one: their output is checked token by token against the exact decimal values of the basis on every explored (basis, format) — partial, stated as such.',
    BASE_NOTE + 'the tokeniser/coverage oracle of the harness; rounding allowed for acesii and crystal at the printed width.', '6/C04')

CHECKS['C03'] = (
    'Lean 4 theorems (a printed table row is read back token for token with only the exponent marker changed; writer and reader letter conventions of '
    'the must-succeed formats agree, over call sites regenerated from the writer/reader modules; letters and integers inverse for l<25; soundness of the '
    'sameFuncs checker; nwchem_electron_roundtrip: the token-level reader model applied to the token-level writer model returns every element and shell unchanged) '
    '+ the verified checker and an exact-decimal oracle on read(write(b)) for the 14 write+read formats + writer/reader models against writers/nwchem.py / readers/nwchem.py line for line',
    'Proof (on the model): read_printed_row (tokens of replace_d(convert_exp(row)) = cells up to e/E/D), tokens_map, marker_roundtrip, '
    'letter_conventions_agree, g94_uniform, letters_inverse, write_read_formats, readback_checker_sound. Tie/validation: every explored (basis, format, '
    'header, subset) must read back with equal elements / function sets / ECP terms or raise; gaussian94, nwchem, turbomole must succeed, also through '
    '.bz2 + extension autodetection and convert_* against direct export. One whole section is modelled and proved: the NWChem electron basis at token level (head lines / number rows, the reader\'s own partition test): '
    'nwchem_electron_roundtrip = read(write(els)) = els for every list of elements with distinct Z in 1..118 and rectangular shells with l < 25, over the library\'s '
    'own symbol and letter tables (nwchem_symbols_roundtrip, nwchem_am_roundtrip); the two models are compared with the real writer (token lines equal) and the real '
    '_parse_electron_lines on written and on 13 kinds of malformed streams (verdict and data). The NWChem ECP section is modelled the same way: nwchem_ecp_readback (every element, electron count and potential comes back; the first, ul, potential gets (highest other momentum)+1), '
    'nwchem_ecp_faithful_iff (faithful exactly when the highest momentum is one above the next), nwchem_ecp_gap_limit / nwchem_ecp_single_limit (the format\'s limit proved on the model by kernel evaluation and '
    'replayed on the library: known finding F14). Gaussian94 (the other must-succeed format): g94_electron_roundtrip = _parse_electron_lines(model) of the written element block returns the shells unchanged, for every element 1..118 and rectangular shells with l < 26 (hij letters), '
    'fewer than 400 primitives (g94_am_roundtrip, g94_count_roundtrip, g94_scale_ok), with the same correspondence on written and 16 kinds of malformed blocks. The Gaussian94 ECP block too: g94_ecp_readback (the reader\'s partition_lines(before=1) modelled literally: the block is read back iff there are exactly L+1 potentials, momenta assigned by position), g94_ecp_faithful '
    '(the positions are the potentials\' own momenta iff these are L, 0, .., L-1), g94_ecp_gap_limit (F14-g94 proved on the model). Turbomole (third format whose read-back must succeed): turbomole_electron_roundtrip, with the reader\'s two nested partitions (element lines with before=1, shell lines) modelled literally. '
    'The Turbomole $ecp section too: turbomole_ecp_roundtrip (read(write(potentials)) = potentials for every element 1..118, pairwise different momenta l <= 6, any gaps; found_max state, base-letter check and the refusal of a repeated element modelled), tm_ecp_letter / tm_ecp_letter_limit (the writer prints hij letters, the reader reads hik letters: equal up to l = 6, j unknown and k read as 7 beyond - no ECP of the store goes beyond l = 5), compared with the real writer and _parse_ecp_lines on written and 21 kinds of malformed sections. '
    'Partial: rescaled exponents (Gaussian scaling factor other than 1) and the section parsers of the 11 other formats are not modelled; they are covered by the verified checker on explored inputs only.',
    BASE_NOTE + 'contiguous momenta up to l = 11 in generated inputs (positional formats cannot express a gap; letter classes of some readers end at l = 11).', '6/C03')

CHECKS['C11'] = (
    'Lean 4 theorems about the index-builder and filter models (latest = maximum, sorting keeps the entries, family/role/elements/substring filters are '
    'exactly the stated conditions and are ANDed) + differential execution of createMetadata and filterEntries against curate.metadata / api.filter_basis_sets',
    'Proof (on the model): index_versions_are_table_files (the builder lists exactly the table files of a basis, each with its path and the elements of its composition — by induction over the fold of the model), maxStr_is_max, mem_sortDict, filter_family_role, filter_elements, filter_substr, filter_and. Tie: model index = index written by '
    'create_metadata_file (ordered JSON) on generated directories incl. aliases and planted defects; model filter = real filter on the shipped index. On the '
    'real data: shipped METADATA.json = its regeneration (all entries except the basis sets emptied in this sandbox), every entry against get_basis / the table '
    'files present / aliases / auxiliaries / lookup_basis_by_role, enumerations. Aliases: alias_keys, alias_own_names, alias_records_agree, alias_common_fields (one record per listed name, each with its own display name and the other names, all other fields - description, latest version, family, role, function types, auxiliaries, version table - shared). createMetadata_spec: the index as one statement - if the builder returns, the index holds exactly the records the metadata files contribute (one per listed name), nothing else, no name twice, in sorted order (induction over the two nested folds of the builder model); C01 covers the composition it relies on. families_exact / allNames_exact: get_families is exactly the set of families of the index, each once, increasing; get_all_basis_names is a permutation of the display names, non-decreasing (tied to the API on the store and on every generated directory).',
    BASE_NOTE + 'string order of versions.', '6/C11')

CHECKS['C09'] = (
    'Lean 4 theorems about the grouping model (every (element, info) pair is held by exactly the groups it should, groups have pairwise different '
    'information, one group per element; notes: exactly the mentioned keys) + differential execution against references.compact_references / notes + '
    'containment checks of every rendered format, exhaustive over the reference database',
    'Proof (on the model): compactGroups_holds, compactGroups_distinct, compactGroups_unique, processNotes_spec, processNotes_mentions. Tie: model groups = '
    'real groups for every sampled (basis, version, selection) and for generated directories; mentioned-key sets of notes. On the real outputs: partition, '
    'group information = component data in order, every key and element group mentioned, no key of unselected elements, library citation block, JSON '
    'parses back, and every stored field value of every entry of REFERENCES.json present in its bib / ris / endnote rendering (exhaustive). '
    'The three single-entry renderers are modelled (bib, ris, endnote): bib_/ris_/endnote_renders_every_field — the key and every stored value (each author, editor, title, …, any further field) is a substring of the rendering, '
    'for every entry with list-valued authors/editors; model text = converter text byte for byte on the whole database (both field orders) and on mutated entries; isSub_iff (the notes scan is the substring relation). '
    'Partial: the txt renderer (textwrap) and the table assembly of convert_references are validated, not modelled.',
    BASE_NOTE + 'textwrap.', '6/C09')

CHECKS['C17'] = (
    'Lean 4 theorems about the add_from_components transition on a path->content directory (nothing that existed is ever changed, for any request and '
    'any outcome, by induction over arbitrary sequences; a refused call writes nothing; existing element/table files and taken names are refused) + '
    'differential execution of the transition against curate.add_basis on random operation sequences',
    'Proof (on the model): add_monotone, add_sequence_monotone, add_refused_noop, add_refuses_existing, add_refuses_taken_name, add_needs_components, '
    'commit_writes_planned / add_writes_planned (after a successful call the planned element, table and — if new — metadata files are there with the planned content). '
    'Tie: directory after the model step = directory after the real step (file set and JSON content, index included) for every add_from_components step of '
    'the sequences. On the real directories after every step: earlier files byte-identical, index = its regeneration, retrieval and default version in a '
    'forked fresh process, reference forms, invalid input leaves the directory byte-for-byte unchanged. add_basis_from_dict is modelled too (description / data source / reference lists attached for all four forms of refs, validation verdict as a parameter, existence check, component file written, then add_from_components): addDict_monotone, addDict_invalid_noop, addDict_bad_refs_noop, addDict_refuses_existing_component, addDict_component_stored, attachRefs_keeps_data (only the reference lists change), setRefs_get; its traces are compared with the real directories like those of add_from_components. Partial: add_basis (the format readers in front of it) is validated by the sequences, not modelled.',
    BASE_NOTE + 'file system as a map; today\'s date passed in.', '6/C17')

CHECKS['C15'] = (
    'Lean 4 theorems about the bundle listing model over the writer map regenerated from the source (members = README, per expressible (basis, version) one '
    'basis and one reference file with the API texts, notes under the basis\' own name, family notes; gated-out basis sets absent) + differential execution '
    'against create_bundle for zip and tar.bz2',
    'Proof (on the model): bundleMembers_iff (exactly: README, members of expressible basis sets, notes of families that have notes), gated_out_absent, entryMembers_spec, version_files_present, family_notes_always_present (independent of the gate), notes_named_after_own_basis (the property the repaired defect F4 violated). Tie: model member '
    'list (names, order, content hashes) = members read from the real archive; every member byte for byte = get_basis / get_references / notes of the same '
    'sampled directory; no duplicates, nothing else. file_names_map_back: the name of a basis / reference file determines (basis in file-name form, version) and the name of a notes file determines the basis, for names with any characters, under the hypothesis that versions contain no dot (observed on every directory bundled; counted in the evidence). Partial: archive encoding (zipfile/tarfile/bz2) is glue; that member names of different kinds (basis file / reference file / notes / README) never coincide is checked on the real archives (no duplicates), not proved.',
    BASE_NOTE + 'zipfile, tarfile.', '6/C15')

CHECKS['C16'] = (
    'Lean 4 theorems (decide) over the argparse tables, handler map, handler attribute reads, API keyword wiring and normalisers regenerated from the CLI '
    'sources + in-process runs of the bse entry point compared with direct API calls',
    'Proof (over the regenerated tables): cli_handlers_total, cli_dests_defined, cli_forwards_all_get_basis (all 15 parameters of get_basis, once each), '
    'cli_get_basis_sources, cli_forwards_all_get_refs, cli_defaults_agree (an absent option passes the API default), cli_normalisers; cli_returns_the_api_value (the handlers of get-basis/-refs/-notes/-family/-family-notes/-data-dir are `return api.f(...)`), cli_calls_forward (for every other data-returning sub-command the library call and, by parameter name of the callee, the option each parameter receives), cli_data_dir_forwarded (no api/bundle call with option values omits the data directory). Validation: 300+ '
    'generated command lines per run covering every data-returning sub-command (stdout and -o, non-canonical spellings, invalid names/formats/roles/families), '
    'output = API value + newline, the data-dir sub-commands also against a generated directory passed with -d (other names, notes, families, auxiliaries than the store). Partial: argparse and file I/O are trusted; the formatting done inside get-info / get-versions / list-* is validated, not modelled.',
    BASE_NOTE + 'argparse.', '6/C16')

CHECKS['C10'] = (
    'Lean 4 theorems: (1) a heap-level ownership model (containers as heap nodes, relational semantics of deepcopy / derive / alias / sub / store / '
    'return with branches and loops; an abstract may-point-to / may-reach check proved sound for every execution: accepted_is_safe) applied by '
    'decide +kernel to the effect skeleton of every in-scope function body, regenerated from the AST on every run with callees inlined '
    '(all_skeletons_accepted); (2) the use_copy discipline over regenerated pipelines, guards and call sites; + dynamic twin (deep snapshot and '
    'identity-disjointness) on the real functions, cross-checked against the static verdicts',
    'Proof (on the model / over regenerated facts): accepted_is_safe (an accepted body never writes to a container of the caller and never returns a value '
    'from which one can be reached, along every execution: any branches, any number of loop iterations, any choice of members), all_skeletons_accepted '
    '(the 62 bodies of manip, sort, the writer of every format, curate.compare, curate.diff, validate_data, convert_references as extracted from the '
    'current source, all but sort_basis_dict), excluded_is_refused; first_copy_protects, writers_protect_caller, use_copy_functions_guarded, '
    'inplace_call_sites, inner_calls_in_place. Validation: every public function in scope on store and generated dictionaries - argument deeply equal to '
    'its snapshot afterwards and no dict/list of the result is an object of the argument; a function the probes convict while its skeleton is accepted is '
    'reported as an extraction gap. Partial: the AST-to-skeleton extraction is trusted (callees outside the analysed modules are assumed to read only; '
    'immutable values are not tracked); sort_basis_dict is beyond the two-bit abstraction and covered by the probes only; the retrieval API '
    '(get_basis / get_references / filter_basis_sets arguments) is covered by the probes only.',
    BASE_NOTE + 'tools/gen/gen_heap.py (AST to effect skeleton); CPython id()/deepcopy; only dict and list objects are tracked.', '6/C10 and 11.7')

NOT_YET = {}


def main():
    props = [json.loads(l) for l in open(os.path.join(VERIF, 'properties.jsonl'))]
    checks = []
    na = []
    for p in props:
        pid = p['id']
        if pid in CHECKS:
            tech, text, note, ref = CHECKS[pid]
            checks.append(dict(
                property_id=pid, quick_cmd='./check %s --tier quick' % pid, thorough_cmd='./check %s --tier thorough' % pid,
                evidence_file='evidence/%s.json' % pid, replay_cmd_template='./check %s --replay {path}' % pid, engine='lean-bsev',
                level_claimed=dict(category='proof', text=text, design_ref='DESIGN.md section ' + ref),
                level_note=note, technique=tech))
        else:
            na.append(dict(property_id=pid, reason=NOT_YET.get(pid, 'check not built yet at this commit (the technique applies; see DESIGN.md section 6/%s for the plan)' % pid)))
    man = dict(
        version=1,
        setup_cmd='./check --setup',
        hooks=dict(guard='BSE_VERIF_HOOKS', enable='no hooks are needed: every check imports the library from the working tree as it is',
                   baseline_off_cmd='cd /repo && /venv/bin/python -m pytest -ra -q -p no:cacheprovider --timeout=900 --continue-on-collection-errors',
                   source_commits=[], add_only=True),
        engines=[dict(name='lean-bsev', path='lean/', serves_properties=sorted(CHECKS),
                      kind_free_text='Lean 4 project: hand model BSEModel + BSEGen regenerated from the source by tools/gen/translate.py + BSEProofs/Props '
                                     '(property theorems) + compiled line-protocol driver bsedrv; Python harnesses in tools/harness run the real library '
                                     'in-process and compare with the driver')],
        checks=checks,
        not_applicable=na,
        notes='Single entry point ./check (tools/check.py). VERIF_SEED seeds every random choice; BSE_VERIF_REPO may point the checks at another '
              'working tree. Exit 2 = infrastructure trouble (never a VIOLATION). known_findings.json lists recorded and fixed findings.')
    with open(os.path.join(VERIF, 'MANIFEST.json'), 'w') as fh:
        json.dump(man, fh, indent=1)
    print('MANIFEST.json: %d checks, %d not_applicable' % (len(checks), len(na)))


if __name__ == '__main__':
    main()
