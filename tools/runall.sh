#!/bin/sh
# runs every claimed check once (quick tier unless VERIF_TIER is set) and prints one line each; refreshes evidence/
cd "$(dirname "$0")/.." || exit 2
for p in $(python3 -c "import json;print(' '.join(c['property_id'] for c in json.load(open('MANIFEST.json'))['checks']))"); do
  ./check $p > /tmp/runall_$p.log 2>&1; rc=$?
  echo "$p rc=$rc $(tail -1 /tmp/runall_$p.log)"
done
