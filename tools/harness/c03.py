"""C03 — reading back what the library wrote never silently changes the basis."""
import re, tempfile, shutil
from common import *
from harness.shells import *

LEVEL = 'proof'
RULE = ('store basis/versions (a sample: 34 in quick, 300 in thorough, the corpus first) and generated dictionaries (l >= 7, ECP-only, fused) x the 14 write+read formats x header on/off '
        'x element subsets: read(write(b)) must carry the same elements / contracted functions / ECP terms and electron counts, or raise; for gaussian94, nwchem '
        '(and turbomole with electron shells) it must succeed, also through .bz2 files with extension autodetection and through convert_formatted_basis_str/file '
        'against direct export. Non-trivial = distinct (text hash).')
ASSUMPTIONS = ['Faithful numbers', 'the basis name given to name-carrying formats is the library\'s own (get_basis name)']
TRUSTED = ['CPython re / regex packages, bz2']

MUST = ('gaussian94', 'nwchem', 'turbomole')


def ecp_canon(el):
    if 'ecp_potentials' not in el:
        return None
    return (el['ecp_electrons'], tuple(sorted((tuple(p['angular_momentum']), tuple(p['r_exponents']), tuple(frac_d(x) for x in p['gaussian_exponents']),
                                               tuple(tuple(frac_d(x) for x in c) for c in p['coefficients'])) for p in el['ecp_potentials'])))


def documented_ul(el, fmt):
    """what the documented limitation of the nwchem / demon2k readers (known findings F14) makes of an element: the text does not carry the momentum of
    the local potential ('ul' = the one of highest momentum); nwchem sets it to (highest other momentum) + 1 and keeps the others, demon2k numbers the
    blocks by position.  None when the format has no such limitation or the reader raises instead (no other potential)."""
    pots = sorted(el['ecp_potentials'], key=lambda p: p['angular_momentum'][0])
    if fmt == 'nwchem':
        if len(pots) < 2:
            return None
        new = [dict(p) for p in pots]
        new[-1]['angular_momentum'] = [pots[-2]['angular_momentum'][0] + 1]
    elif fmt == 'demon2k':
        new = [dict(p, angular_momentum=[i]) for i, p in enumerate(pots)]
    else:
        return None
    return dict(el, ecp_potentials=new)


def compare(b, r, fmt=None):
    """returns list of (rule, what, z)"""
    bad = []
    if set(r['elements']) != set(b['elements']):
        lost = sorted(set(b['elements']) - set(r['elements']), key=int)
        extra = sorted(set(r['elements']) - set(b['elements']))
        ecp_only = bool(lost) and not extra and all('electron_shells' not in b['elements'][z] for z in lost)
        bad.append(('elements_changed', 'elements lost %s / invented %s' % (lost[:5], extra[:5]), 'lost-ecp-only' if ecp_only else None))
        return bad
    for z in b['elements']:
        e0, e1 = b['elements'][z], r['elements'][z]
        f0 = el_funcset(e0) if 'electron_shells' in e0 else set()
        f1 = el_funcset(e1) if 'electron_shells' in e1 else set()
        if f0 != f1:
            ls = sorted(set(l for l, _ in f0 ^ f1))
            bad.append(('functions_changed', 'Z=%s: contracted functions differ (momenta %s; %d lost, %d new)' % (z, ls, len(f0 - f1), len(f1 - f0)), z))
        if ecp_canon(e0) != ecp_canon(e1):
            # `ecp_changed` = altered exactly as the known findings F14 describe; anything else is another alteration
            doc = documented_ul(e0, fmt) if 'ecp_potentials' in e0 else None
            rule = 'ecp_changed_otherwise' if fmt in ('nwchem', 'demon2k') and not (doc is not None and ecp_canon(doc) == ecp_canon(e1)) else 'ecp_changed'
            bad.append((rule, 'Z=%s: ECP potentials / electron count differ' % z, z))
    return bad


def work(item):
    bse = import_bse()
    from basis_set_exchange import writers, readers, convert, api
    import random
    label, src, seed = item
    rng = random.Random(seed)
    out = dict(label=label, cases=[], pairs=[], error=None, nw=[])
    try:
        b = src if isinstance(src, dict) else bse.get_basis(src[0], version=src[1])
    except Exception as e:
        out['error'] = type(e).__name__
        return out
    try:
        out['nw'] = nwchem_cases(b, rng) + nwchem_ecp_cases(b, rng) + g94_cases(b, rng) + g94_ecp_cases(b, rng) + tm_cases(b, rng) + tm_ecp_cases(b, rng)
    except Exception as e:
        out['nw'] = [('harness-error', None, '%s: %s' % (type(e).__name__, e))]
    fmts = sorted(set(writers.get_writer_formats()) & set(readers.get_reader_formats()))
    has_shells = any('electron_shells' in el for el in b['elements'].values())
    libmol_name_ok = bool(re.match(r'^\d*[a-zA-Z][a-zA-Z0-9\-\+\*\(\)\[\]]*$', b['name']))
    has_ecp = any('ecp_potentials' in el for el in b['elements'].values())
    zero_ecp_term = any(frac_d(x) == 0 for el in b['elements'].values() for p in el.get('ecp_potentials', []) for c in p['coefficients'] for x in c)
    maxl = max([l for el in b['elements'].values() for sh in el.get('electron_shells', []) for l in sh['angular_momentum']], default=0)
    ecp_ls = [sorted(p['angular_momentum'][0] for p in el['ecp_potentials']) for el in b['elements'].values() if 'ecp_potentials' in el]
    # the local potential is the one of the highest momentum; formats that do not record its momentum assume it is (highest other) + 1
    ecp_not_contiguous = any(ls != list(range(len(ls))) for ls in ecp_ls)
    # a fused shell in which a primitive has a zero coefficient for one member (and not for all): split into single-momentum shells it
    # leaves a zero-coefficient primitive behind
    fused_member_zero = any(frac_d(c[i]) == 0 for el in b['elements'].values() for sh in el.get('electron_shells', []) if len(sh['angular_momentum']) > 1
                            for c in sh['coefficients'] for i in range(len(sh['exponents'])))
    facts = dict(libmol_name_ok=libmol_name_ok, has_ecp=has_ecp, zero_ecp_term=zero_ecp_term, maxl_ge_7=maxl >= 7, ecp_not_contiguous=ecp_not_contiguous,
                 fused_member_zero=fused_member_zero)
    hdr = None
    try:
        hdr = api._header_string(b)
    except Exception:
        pass
    sub = None
    zs = list(b['elements'])
    if len(zs) > 2 and rng.random() < 0.5:
        sub = sorted(rng.sample(zs, rng.randrange(1, 3)), key=int)
    from basis_set_exchange import compose
    bb = b
    if sub:
        bb = dict(b)
        bb['elements'] = {z: b['elements'][z] for z in sub}
        bb['function_types'] = compose._whole_basis_types(bb)
    tmp = tempfile.mkdtemp(prefix='bsev_c03_')
    try:
        for fmt in fmts:
            for with_header in ((False, True) if hdr and rng.random() < 0.4 else (False,)):
                rec = dict(fmt=fmt, header=with_header, bad=[], facts=facts, subset=sub)
                try:
                    t = writers.write_formatted_basis_str(bb, fmt, hdr if with_header else None)
                except Exception as e:
                    rec['write_raised'] = type(e).__name__
                    out['cases'].append(rec)
                    continue
                rec['hash'] = hashlib.sha1(t.encode()).hexdigest()
                try:
                    r = readers.read_formatted_basis_str(t, fmt)
                except Exception as e:
                    rec['read_raised'] = '%s: %s' % (type(e).__name__, str(e)[:80])
                    must = fmt in ('gaussian94', 'nwchem') or (fmt == 'turbomole' and any('electron_shells' in el for el in bb['elements'].values()))
                    if must:
                        rec['bad'].append(('must_read', 'reading the library\'s own %s text raises %s' % (fmt, rec['read_raised']), None))
                    out['cases'].append(rec)
                    continue
                try:
                    rec['bad'] = compare(bb, r, fmt)
                except Exception as e:
                    rec['bad'] = [('compare_crashed', '%s: %s' % (type(e).__name__, str(e)[:80]), None)]
                # verified checker on one element
                for z in list(bb['elements'])[:2]:
                    if z in r['elements'] and 'electron_shells' in bb['elements'][z] and 'electron_shells' in r['elements'][z]:
                        try:
                            out['pairs'].append((label, fmt, z, shells_of(bb['elements'][z]), [dict(norm_shell(s), region='') for s in r['elements'][z]['electron_shells']],
                                                 el_funcset(bb['elements'][z]) == el_funcset(r['elements'][z])))
                        except Exception:
                            pass
                # files: plain and .bz2 with autodetection, and conversion, for the must-succeed formats
                if fmt in MUST and not with_header and not rec['bad']:
                    ext = writers.write._writer_map[fmt]['extension']
                    for suffix in (ext, ext + '.bz2'):
                        p = os.path.join(tmp, 'f_%s%s' % (fmt, suffix))
                        try:
                            writers.write_formatted_basis_file(bb, p)
                            rf = readers.read_formatted_basis_file(p)
                            if compare(bb, rf):
                                rec['bad'].append(('file_roundtrip', 'file %s read back with other data' % suffix, None))
                            # the autodetected writer must be the format's own
                            if suffix == ext and open(p).read() != t:
                                rec['bad'].append(('file_roundtrip', 'write_formatted_basis_file(%s) autodetected another dialect than %s' % (ext, fmt), None))
                        except Exception as e:
                            rec['bad'].append(('file_roundtrip', 'file round trip %s raises %s: %s' % (suffix, type(e).__name__, str(e)[:60]), None))
                    for tgt in MUST:
                        if tgt == fmt:
                            continue
                        if tgt == 'turbomole' and not any('electron_shells' in el for el in bb['elements'].values()):
                            continue
                        try:
                            conv = convert.convert_formatted_basis_str(t, fmt, tgt)
                            direct = readers.read_formatted_basis_str(writers.write_formatted_basis_str(bb, tgt), tgt)
                            viaconv = readers.read_formatted_basis_str(conv, tgt)
                            if compare(direct, viaconv):
                                rec['bad'].append(('convert_same_as_export', 'convert %s -> %s carries other data than exporting to %s directly' % (fmt, tgt, tgt), None))
                            pin = os.path.join(tmp, 'in' + ext)
                            pout = os.path.join(tmp, 'out' + writers.write._writer_map[tgt]['extension'])
                            open(pin, 'w').write(t)
                            convert.convert_formatted_basis_file(pin, pout)
                            if compare(direct, readers.read_formatted_basis_file(pout)):
                                rec['bad'].append(('convert_same_as_export', 'convert_formatted_basis_file %s -> %s carries other data than a direct export' % (fmt, tgt), None))
                        except Exception as e:
                            rec['bad'].append(('convert_same_as_export', 'conversion %s -> %s raises %s: %s' % (fmt, tgt, type(e).__name__, str(e)[:60]),
                                               'conv-unused-primitive' if 'Primitive is unused' in str(e) else None))
                out['cases'].append(rec)
    finally:
        shutil.rmtree(tmp, ignore_errors=True)
    return out



# ---------------------------------------------------------------------------------------------------------
# NWChem electron section at the token level: the Lean writer / reader models (Props/C03 nwchem_electron_roundtrip)
# against writers/nwchem.py and readers/nwchem.py on the same lines
# ---------------------------------------------------------------------------------------------------------
def nw_tok(line, replace_d):
    from basis_set_exchange.readers import helpers
    if line[0].isalpha():
        return {'h': line.split()}
    return {'r': (helpers.replace_d(line) if replace_d else line).split()}


def nw_real_read(sec):
    from basis_set_exchange.readers import nwchem as rnw
    bs = {}
    try:
        rnw._parse_electron_lines(list(sec), bs)
    except Exception as e:
        return ('err', type(e).__name__)
    return ('ok', [[int(z), [dict(ftype=sh['function_type'], am=sh['angular_momentum'], exps=sh['exponents'], coefs=sh['coefficients'])
                             for sh in el['electron_shells']]] for z, el in bs.items()])


def nw_mutations(sec, rng):
    """malformed / unusual streams derived from a written section"""
    out = []
    n = len(sec)
    for kind in ('drop_line', 'dup_head', 'swap', 'garbage_token', 'no_end', 'row_first', 'head3', 'lower', 'short_row', 'head_only_block', 'bad_sym', 'bad_am', 'split_elements'):
        m = list(sec)
        try:
            heads = [i for i, l in enumerate(m) if l[0].isalpha() and i > 0 and l.lower() != 'end']
            rows = [i for i, l in enumerate(m) if not l[0].isalpha()]
            if kind == 'drop_line':
                del m[rng.randrange(n)]
            elif kind == 'dup_head':
                i = rng.choice(heads); m.insert(i, m[i])
            elif kind == 'swap':
                i, j = rng.randrange(n), rng.randrange(n); m[i], m[j] = m[j], m[i]
            elif kind == 'garbage_token':
                i = rng.choice(rows); t = m[i].split(); t[rng.randrange(len(t))] = rng.choice(['abc', '1.0.0', '12', '1e5', '.', '-.5D-3', '+1.', 'nan']); m[i] = ' '.join(t)
            elif kind == 'no_end':
                m = [l for l in m if l.lower() != 'end']
            elif kind == 'row_first':
                m.insert(1, m[rng.choice(rows)])
            elif kind == 'head3':
                i = rng.choice(heads); m[i] = m[i] + ' X'
            elif kind == 'lower':
                m = [l.lower() for l in m]
            elif kind == 'short_row':
                i = rng.choice(rows); t = m[i].split(); m[i] = ' '.join(t[:-1]) if len(t) > 1 else m[i]
            elif kind == 'head_only_block':
                i = rng.choice(heads); m.insert(i, 'H    S')
            elif kind == 'bad_sym':
                i = rng.choice(heads); t = m[i].split(); t[0] = rng.choice(['Xx', 'H1', 'Qq', 'end']); m[i] = '    '.join(t)
            elif kind == 'bad_am':
                i = rng.choice(heads); t = m[i].split(); t[-1] = rng.choice(['Q', 'SPX', 'j', 'sp', 'S1', 'ul']); m[i] = '    '.join(t)
            elif kind == 'split_elements':
                # the same element's shells in two separate places
                i = rng.choice(heads); blk = [m[i]]
                k = i + 1
                while k < len(m) and not m[k][0].isalpha():
                    blk.append(m[k]); k += 1
                m = m[:-1] + blk + m[-1:]
        except (IndexError, ValueError):
            continue
        m = [l for l in m if l.strip()]
        if m:
            out.append((kind, m))
    return out


def nwchem_cases(b, rng):
    """[(what, request, expected)]"""
    from basis_set_exchange import writers, manip, sort
    from basis_set_exchange.readers import helpers
    if not any('electron_shells' in el for el in b['elements'].values()):
        return []
    try:
        text = writers.write_formatted_basis_str(b, 'nwchem')
    except Exception:
        return []
    lines = helpers.prune_lines(text.splitlines(), '#')
    ends = [i for i, l in enumerate(lines) if l.lower() == 'end']
    if not ends or not lines[0].lower().startswith('basis'):
        return []
    sec = lines[:ends[0] + 1]
    cases = []
    # writer: the model takes the shells as the writer sees them after its own uncontract_spdf(1) / sort_basis
    pb = sort.sort_basis(manip.uncontract_spdf(b, 1, True), False)
    harm = 'CARTESIAN' if 'gto_cartesian' in pb['function_types'] else 'SPHERICAL'
    els = [dict(z=int(z), shells=[dict(am=sh['angular_momentum'], exps=[x.strip() for x in sh['exponents']], coefs=[[x.strip() for x in c] for c in sh['coefficients']])
                                  for sh in el['electron_shells']]) for z, el in pb['elements'].items() if 'electron_shells' in el]
    cases.append(('write', dict(op='nwchem_write', harm=harm, els=els), [nw_tok(l, False) for l in sec]))
    # reader on what was written, and on derived malformed streams
    cases.append(('read', dict(op='nwchem_read', lines=[nw_tok(l, True) for l in sec]), nw_real_read(sec)))
    for kind, m in nw_mutations(sec, rng):
        cases.append(('read:' + kind, dict(op='nwchem_read', lines=[nw_tok(l, True) for l in m]), nw_real_read(m)))
    return cases


def nw_real_read_ecp(sec):
    from basis_set_exchange.readers import nwchem as rnw
    bs = {}
    try:
        rnw._parse_ecp_lines(list(sec), bs)
    except Exception as e:
        return ('err', type(e).__name__)
    return ('ok', [[int(z), str(el.get('ecp_electrons', '')),
                    [dict(am=p['angular_momentum'], rexp=[int(x) for x in p['r_exponents']], gexp=p['gaussian_exponents'], coef=p['coefficients'][0]) for p in el.get('ecp_potentials', [])]]
                   for z, el in bs.items()])


def nw_ecp_mutations(sec, rng):
    out = []
    n = len(sec)
    for kind in ('drop_line', 'swap', 'no_nelec', 'two_nelec', 'nelec_last', 'ul_to_letter', 'letter_to_ul', 'four_tokens', 'float_rexp', 'lower', 'no_end', 'bad_sym', 'pot_without_rows'):
        m = list(sec)
        try:
            heads = [i for i, l in enumerate(m) if l[0].isalpha() and i > 0 and l.lower() != 'end']
            nel = [i for i in heads if 'nelec' in m[i].lower()]
            pots = [i for i in heads if i not in nel]
            rows = [i for i, l in enumerate(m) if not l[0].isalpha()]
            if kind == 'drop_line':
                del m[rng.randrange(n)]
            elif kind == 'swap':
                i, j = rng.randrange(n), rng.randrange(n); m[i], m[j] = m[j], m[i]
            elif kind == 'no_nelec':
                del m[rng.choice(nel)]
            elif kind == 'two_nelec':
                i = rng.choice(nel); m.insert(i, m[i])
            elif kind == 'nelec_last':
                i = rng.choice(nel); l = m.pop(i); m.insert(len(m) - 1, l)
            elif kind == 'ul_to_letter':
                i = [k for k in pots if m[k].split()[-1].lower() == 'ul'][0]; m[i] = m[i].split()[0] + ' ' + rng.choice(['S', 'G', 'Q'])
            elif kind == 'letter_to_ul':
                i = rng.choice([k for k in pots if m[k].split()[-1].lower() != 'ul']); m[i] = m[i].split()[0] + ' ul'
            elif kind == 'four_tokens':
                i = rng.choice(rows); m[i] = m[i] + ' 1.0'
            elif kind == 'float_rexp':
                i = rng.choice(rows); t = m[i].split(); t[0] = rng.choice(['1.0', 'x', '+2', '-1']); m[i] = ' '.join(t)
            elif kind == 'lower':
                m = [l.lower() for l in m]
            elif kind == 'no_end':
                m = [l for l in m if l.lower() != 'end']
            elif kind == 'bad_sym':
                i = rng.choice(heads); t = m[i].split(); t[0] = rng.choice(['Xx', 'H1', 'Qq']); m[i] = ' '.join(t)
            elif kind == 'pot_without_rows':
                i = rng.choice(pots); m.insert(i, m[i])
        except (IndexError, ValueError):
            continue
        m = [l for l in m if l.strip()]
        if m:
            out.append((kind, m))
    return out


def nwchem_ecp_cases(b, rng):
    from basis_set_exchange import writers, manip, sort
    from basis_set_exchange.readers import helpers
    if not any('ecp_potentials' in el for el in b['elements'].values()):
        return []
    if any(len(p['coefficients']) != 1 for el in b['elements'].values() for p in el.get('ecp_potentials', [])):
        return []       # NWChem holds one coefficient column per potential; the model covers that case
    try:
        text = writers.write_formatted_basis_str(b, 'nwchem')
    except Exception:
        return []
    lines = helpers.prune_lines(text.splitlines(), '#')
    start = [i for i, l in enumerate(lines) if l.lower() == 'ecp']
    if not start:
        return []
    rest = lines[start[0]:]
    ends = [i for i, l in enumerate(rest) if l.lower() == 'end']
    if not ends:
        return []
    sec = rest[:ends[0] + 1]
    cases = []
    els = [dict(z=int(z), nelec=str(el['ecp_electrons']),
                pots=[dict(am=p['angular_momentum'][0], terms=[[str(r), g.strip(), c.strip()] for r, g, c in zip(p['r_exponents'], p['gaussian_exponents'], p['coefficients'][0])])
                      for p in el['ecp_potentials']]) for z, el in b['elements'].items() if 'ecp_potentials' in el]
    cases.append(('ecp-write', dict(op='nwchem_ecp_write', els=els), [nw_tok(l, False) for l in sec]))
    cases.append(('ecp-read', dict(op='nwchem_ecp_read', lines=[nw_tok(l, True) for l in sec]), nw_real_read_ecp(sec)))
    for kind, m in nw_ecp_mutations(sec, rng):
        cases.append(('ecp-read:' + kind, dict(op='nwchem_ecp_read', lines=[nw_tok(l, True) for l in m]), nw_real_read_ecp(m)))
    return cases


# ---------------------------------------------------------------------------------------------------------
# Gaussian94 electron blocks at the token level (Props/C03 g94_electron_roundtrip): Lean writer / reader models against
# writers/g94.py and readers/g94.py:_parse_electron_lines on the same lines
# ---------------------------------------------------------------------------------------------------------
def g94_tok(line, replace_d):
    from basis_set_exchange.readers import helpers
    if line == '****':
        return {'s': True}
    if line[0].isalpha():
        return {'h': line.split()}
    return {'r': (helpers.replace_d(line) if replace_d else line).split()}


def g94_real_read(block):
    from basis_set_exchange.readers import g94 as rg
    bs = {}
    try:
        rg._parse_electron_lines(list(block), bs)
    except Exception as e:
        return ('err', type(e).__name__)
    (z, el), = bs.items()
    return ('ok', [int(z), [dict(ftype=sh['function_type'], am=sh['angular_momentum'], exps=sh['exponents'], coefs=sh['coefficients']) for sh in el['electron_shells']]])


def g94_mutations(block, rng):
    out = []
    n = len(block)
    for kind in ('drop_line', 'swap', 'no_stars', 'stars_inside', 'nprim_wrong', 'scale_two', 'scale_zero_one', 'two_scales', 'bad_am', 'explicit_L', 'garbage_token',
                 'short_row', 'lower', 'extra_column', 'bad_sym', 'head_two_tokens'):
        m = list(block)
        try:
            heads = [i for i, l in enumerate(m) if l[0].isalpha() and i > 0]
            rows = [i for i, l in enumerate(m) if not l[0].isalpha() and l != '****']
            if kind == 'drop_line':
                del m[rng.randrange(n)]
            elif kind == 'swap':
                i, j = rng.randrange(n), rng.randrange(n); m[i], m[j] = m[j], m[i]
            elif kind == 'no_stars':
                m = [l for l in m if l != '****']
            elif kind == 'stars_inside':
                m.insert(rng.choice(rows), '****')
            elif kind == 'nprim_wrong':
                i = rng.choice(heads); t = m[i].split(); t[1] = str(int(t[1]) + rng.choice([-1, 1, 3])); m[i] = '   '.join(t)
            elif kind == 'scale_two':
                i = rng.choice(heads); t = m[i].split(); t[2] = rng.choice(['2.00', '-1.00', '1.0D+00', '0.5']); m[i] = '   '.join(t)
            elif kind == 'scale_zero_one':
                i = rng.choice(heads); m[i] = m[i] + '   0.00'
            elif kind == 'two_scales':
                i = rng.choice(heads); m[i] = m[i] + '   1.00'
            elif kind == 'bad_am':
                i = rng.choice(heads); t = m[i].split(); t[0] = rng.choice(['Q', 'SPX', 'K', 'sp', 'S1', 'J']); m[i] = '   '.join(t)
            elif kind == 'explicit_L':
                i = rng.choice(heads); t = m[i].split(); t[0] = rng.choice(['L=7', 'L=2', 'L=x', 'L=']); m[i] = '   '.join(t)
            elif kind == 'garbage_token':
                i = rng.choice(rows); t = m[i].split(); t[rng.randrange(len(t))] = rng.choice(['abc', '1.0.0', '12', '1e5', '.', '-.5D-3', '+1.']); m[i] = ' '.join(t)
            elif kind == 'short_row':
                i = rng.choice(rows); t = m[i].split(); m[i] = ' '.join(t[:-1]) if len(t) > 1 else m[i]
            elif kind == 'lower':
                m = [l.lower() for l in m]
            elif kind == 'extra_column':
                i0 = rng.choice(heads); k = i0 + 1
                while k < len(m) and not m[k][0].isalpha() and m[k] != '****':
                    m[k] = m[k] + '   1.0'; k += 1
            elif kind == 'bad_sym':
                t = m[0].split(); t[0] = rng.choice(['Xx', 'H1', 'Qq', '1.0']); m[0] = '     '.join(t)
            elif kind == 'head_two_tokens':
                i = rng.choice(heads); m[i] = ' '.join(m[i].split()[:2])
        except (IndexError, ValueError):
            continue
        m = [l for l in m if l.strip()]
        if m:
            out.append((kind, m))
    return out


def g94_cases(b, rng):
    from basis_set_exchange import writers, manip, sort
    from basis_set_exchange.readers import helpers, g94 as rg
    if not any('electron_shells' in el for el in b['elements'].values()):
        return []
    try:
        text = writers.write_formatted_basis_str(b, 'gaussian94')
    except Exception:
        return []
    lines = helpers.prune_lines(text.splitlines(), '!')
    try:
        sections = helpers.partition_lines(lines, rg.element_re.match, min_size=3)
    except Exception:
        return []
    blocks = [es for es in sections if not (len(es) > 3 and helpers.is_integer(es[3]))]
    pb = sort.sort_basis(manip.uncontract_spdf(manip.uncontract_general(b, True), 1, False), False)
    els = [(z, el) for z, el in pb['elements'].items() if 'electron_shells' in el]
    if len(blocks) != len(els):
        return [('g94-harness-error', None, 'blocks %d vs elements %d' % (len(blocks), len(els)))]
    cases = []
    pick = rng.sample(range(len(blocks)), min(1, len(blocks)))
    conv = lambda x: x.strip().replace('e', 'D').replace('E', 'D')
    for k in pick:
        block, (z, el) = blocks[k], els[k]
        shells = [dict(am=sh['angular_momentum'], exps=[conv(x) for x in sh['exponents']], coefs=[[conv(x) for x in c] for c in sh['coefficients']]) for sh in el['electron_shells']]
        cases.append(('g94-write', dict(op='g94_write', z=int(z), shells=shells), [g94_tok(l, False) for l in block]))
        cases.append(('g94-read', dict(op='g94_read', lines=[g94_tok(l, True) for l in block]), g94_real_read(block)))
        for kind, m in g94_mutations(block, rng):
            cases.append(('g94-read:' + kind, dict(op='g94_read', lines=[g94_tok(l, True) for l in m]), g94_real_read(m)))
    return cases


def g94e_tok(line):
    from basis_set_exchange.readers import helpers
    if helpers.is_integer(line):
        return {'c': line.strip()}
    # raw tokens: the reader replaces D by E only inside the tables (a symbol line such as 'ND 0' must stay as it is);
    # the returned numbers are compared after the same replacement
    return {'o': line.split()}


def g94_real_read_ecp(block):
    from basis_set_exchange.readers import g94 as rg
    bs = {}
    try:
        rg._parse_ecp_lines(list(block), bs)
    except Exception as e:
        return ('err', type(e).__name__)
    (z, el), = bs.items()
    return ('ok', [int(z), str(el['ecp_electrons']),
                   [dict(am=p['angular_momentum'], rexp=[int(x) for x in p['r_exponents']], gexp=p['gaussian_exponents'], coef=p['coefficients'][0]) for p in el['ecp_potentials']]])


def g94_ecp_mutations(block, rng):
    out = []
    n = len(block)
    from basis_set_exchange.readers import helpers
    for kind in ('drop_line', 'swap', 'count_wrong', 'count_zero', 'count_first', 'two_counts', 'no_counts', 'lmax_wrong', 'four_tokens', 'float_rexp', 'drop_potential',
                 'extra_title', 'bad_sym', 'second_line_short', 'lower'):
        m = list(block)
        try:
            counts = [i for i, l in enumerate(m) if i >= 2 and helpers.is_integer(l)]
            rows = [i for i, l in enumerate(m) if i >= 2 and not helpers.is_integer(l) and not l[0].isalpha()]
            if kind == 'drop_line':
                del m[rng.randrange(n)]
            elif kind == 'swap':
                i, j = rng.randrange(n), rng.randrange(n); m[i], m[j] = m[j], m[i]
            elif kind == 'count_wrong':
                i = rng.choice(counts); m[i] = str(int(m[i]) + rng.choice([-1, 1, 2]))
            elif kind == 'count_zero':
                i = rng.choice(counts); m[i] = rng.choice(['0', '-1', '+1'])
            elif kind == 'count_first':
                m.insert(2, m[rng.choice(counts)])
            elif kind == 'two_counts':
                i = rng.choice(counts); m.insert(i, m[i])
            elif kind == 'no_counts':
                m = [l for k, l in enumerate(m) if k not in counts]
            elif kind == 'lmax_wrong':
                t = m[1].split(); t[1] = str(int(t[1]) + rng.choice([-1, 1])); m[1] = '     '.join(t)
            elif kind == 'four_tokens':
                i = rng.choice(rows); m[i] = m[i] + ' 1.0'
            elif kind == 'float_rexp':
                i = rng.choice(rows); t = m[i].split(); t[0] = rng.choice(['1.0', 'x', '+2']); m[i] = ' '.join(t)
            elif kind == 'drop_potential':
                i = counts[-1]; m = m[:i - 1]
            elif kind == 'extra_title':
                i = rng.choice(counts); m.insert(i - 1, 'extra title')
            elif kind == 'bad_sym':
                t = m[0].split(); t[0] = rng.choice(['Xx', 'Q1', '29']); m[0] = '     '.join(t)
            elif kind == 'second_line_short':
                m[1] = ' '.join(m[1].split()[:2])
            elif kind == 'lower':
                m = [l.lower() for l in m]
        except (IndexError, ValueError):
            continue
        m = [l for l in m if l.strip()]
        if m:
            out.append((kind, m))
    return out


def g94_ecp_cases(b, rng):
    from basis_set_exchange import writers
    from basis_set_exchange.readers import helpers, g94 as rg
    ecp_els = [(z, el) for z, el in b['elements'].items() if 'ecp_potentials' in el]
    if not ecp_els or any(len(p['coefficients']) != 1 for _, el in ecp_els for p in el['ecp_potentials']):
        return []
    try:
        text = writers.write_formatted_basis_str(b, 'gaussian94')
    except Exception:
        return []
    lines = helpers.prune_lines(text.splitlines(), '!')
    try:
        sections = helpers.partition_lines(lines, rg.element_re.match, min_size=3)
    except Exception:
        return []
    blocks = [es for es in sections if len(es) > 3 and helpers.is_integer(es[3])]
    if len(blocks) != len(ecp_els):
        return [('g94-harness-error', None, 'ecp blocks %d vs elements %d' % (len(blocks), len(ecp_els)))]
    conv = lambda x: x.strip().replace('e', 'D').replace('E', 'D')
    cases = []
    for k in rng.sample(range(len(blocks)), min(1, len(blocks))):
        block, (z, el) = blocks[k], ecp_els[k]
        pots = [dict(am=p['angular_momentum'][0], terms=[[str(r), conv(g), conv(c)] for r, g, c in zip(p['r_exponents'], p['gaussian_exponents'], p['coefficients'][0])])
                for p in el['ecp_potentials']]
        cases.append(('g94ecp-write', dict(op='g94_ecp_write', z=int(z), nelec=str(el['ecp_electrons']), pots=pots),
                      [({'c': l.strip()} if helpers.is_integer(l) else {'o': l.split()}) for l in block]))
        cases.append(('g94ecp-read', dict(op='g94_ecp_read', lines=[g94e_tok(l) for l in block]), g94_real_read_ecp(block)))
        for kind, m in g94_ecp_mutations(block, rng):
            cases.append(('g94ecp-read:' + kind, dict(op='g94_ecp_read', lines=[g94e_tok(l) for l in m]), g94_real_read_ecp(m)))
    return cases


# ---------------------------------------------------------------------------------------------------------
# Turbomole electron section at the token level (Props/C03 turbomole_electron_roundtrip)
# ---------------------------------------------------------------------------------------------------------
def tm_tok(line):
    from basis_set_exchange.readers import turbomole as rt
    if line == '*':
        return dict(k='star')
    if line.startswith('*'):
        return dict(k='starish')
    m = rt.element_re.match(line)
    if m:
        return dict(k='elem', sym=m.group(1), rest=m.group(2))
    m = rt.shell_re.match(line)
    if m:
        return dict(k='shell', n=m.group(1), am=m.group(2))
    return dict(k='row', t=line.split())


def tm_real_read(sec):
    from basis_set_exchange.readers import turbomole as rt
    bs = {}
    try:
        rt._parse_electron_lines(list(sec), bs)
    except Exception as e:
        return ('err', type(e).__name__)
    return ('ok', [[int(z), [dict(ftype=sh['function_type'], am=sh['angular_momentum'], exps=sh['exponents'], coefs=sh['coefficients'])
                             for sh in el['electron_shells']]] for z, el in bs.items()])


def tm_mutations(sec, rng):
    out = []
    n = len(sec)
    from basis_set_exchange.readers import turbomole as rt
    for kind in ('drop_line', 'swap', 'no_last_star', 'extra_star', 'starish', 'nprim_wrong', 'two_letter_am', 'bad_am', 'ordinals', 'bad_ordinal', 'garbage_token',
                 'three_floats', 'dup_element', 'bad_sym', 'elem_no_name', 'shell_without_rows', 'upper'):
        m = list(sec)
        try:
            elems = [i for i, l in enumerate(m) if rt.element_re.match(l) and not l.startswith('$')]
            shells = [i for i, l in enumerate(m) if rt.shell_re.match(l)]
            rows = [i for i, l in enumerate(m) if i not in elems and i not in shells and not l.startswith(('*', '$'))]
            if kind == 'drop_line':
                del m[rng.randrange(1, n)]
            elif kind == 'swap':
                i, j = rng.randrange(1, n), rng.randrange(1, n); m[i], m[j] = m[j], m[i]
            elif kind == 'no_last_star':
                m.pop()
            elif kind == 'extra_star':
                m.insert(rng.choice(rows), '*')
            elif kind == 'starish':
                m.insert(rng.choice(rows), '** note')
            elif kind == 'nprim_wrong':
                i = rng.choice(shells); t = m[i].split(); t[0] = str(int(t[0]) + rng.choice([-1, 1])); m[i] = '   '.join(t)
            elif kind == 'two_letter_am':
                i = rng.choice(shells); m[i] = m[i] + 'p'
            elif kind == 'bad_am':
                i = rng.choice(shells); t = m[i].split(); t[1] = rng.choice(['q', 'j', 'x', 'S']); m[i] = '   '.join(t)
            elif kind == 'ordinals':
                for k, i in enumerate(rows):
                    m[i] = '%d %s' % (k + 1, m[i])
            elif kind == 'bad_ordinal':
                i = rng.choice(rows); m[i] = rng.choice(['1.0 ', 'x ', '-1 ']) + m[i]
            elif kind == 'garbage_token':
                i = rng.choice(rows); t = m[i].split(); t[rng.randrange(len(t))] = rng.choice(['abc', '1.0.0', '12', '1e5', '.', '-.5D-3']); m[i] = ' '.join(t)
            elif kind == 'three_floats':
                i = rng.choice(rows); m[i] = m[i] + ' 1.0'
            elif kind == 'dup_element':
                i = elems[0]
                c = next(k for k in range(i + 2, len(m)) if m[k] == '*')
                m = m + m[i:c + 1]
            elif kind == 'bad_sym':
                i = rng.choice(elems); t = m[i].split(None, 1); t[0] = rng.choice(['xx', 'qq', 'zzz']); m[i] = ' '.join(t)
            elif kind == 'elem_no_name':
                i = rng.choice(elems); m[i] = m[i].split()[0]
            elif kind == 'shell_without_rows':
                i = rng.choice(shells); m.insert(i, m[i])
            elif kind == 'upper':
                m = [l.upper() if not l.startswith('$') else l for l in m]
        except (IndexError, ValueError):
            continue
        m = [l for l in m if l.strip()]
        if m:
            out.append((kind, m))
    return out


def tm_cases(b, rng):
    from basis_set_exchange import writers, manip, sort
    from basis_set_exchange.readers import helpers
    if not any('electron_shells' in el for el in b['elements'].values()):
        return []
    try:
        text = writers.write_formatted_basis_str(b, 'turbomole')
    except Exception:
        return []
    lines = helpers.prune_lines(text.splitlines(), '#')
    # the electron section: from the first `$` line up to the next `$` line
    idx = [i for i, l in enumerate(lines) if l.startswith('$')]
    if len(idx) < 2 or lines[idx[0]].lower() == '$ecp':
        return []
    sec = lines[idx[0]:idx[1]]
    pruned = helpers.prune_lines(sec, '$')
    pb = sort.sort_basis(manip.uncontract_spdf(manip.uncontract_general(b, True), 0, False), False)
    conv = lambda x: x.strip().replace('e', 'D').replace('E', 'D')
    els = [dict(z=int(z), shells=[dict(am=sh['angular_momentum'], exps=[conv(x) for x in sh['exponents']], coefs=[[conv(x) for x in c] for c in sh['coefficients']])
                                  for sh in el['electron_shells']]) for z, el in pb['elements'].items() if 'electron_shells' in el]
    cases = [('tm-write', dict(op='tm_write', name=b['name'], els=els), [tm_tok(l) for l in pruned]),
             ('tm-read', dict(op='tm_read', lines=[tm_tok(l) for l in pruned]), tm_real_read(sec))]
    for kind, m in tm_mutations(sec, rng):
        mp = helpers.prune_lines(m, '$')
        cases.append(('tm-read:' + kind, dict(op='tm_read', lines=[tm_tok(l) for l in mp]), tm_real_read(m)))
    return cases

def tmp_tok(line):
    """a line of the pruned $ecp section, classified by the reader's own tests"""
    from basis_set_exchange.readers import turbomole as rt
    if line == '*':
        return dict(k='star')
    if line.startswith('*'):
        return dict(k='starish')
    m = rt.element_re.match(line)
    if m:
        return dict(k='elem', sym=m.group(1), rest=m.group(2))
    m = rt.ecp_info_re.match(line)
    if m:
        return dict(k='info', ncore=m.group(1), lmax=m.group(2))
    m = rt.ecp_pot_am_re.match(line)
    if m:
        return dict(k='title', am=m.group(1), base=(m.group(2)[1:] if m.group(2) else None))
    if line[:1].isalpha():
        return dict(k='alpha')
    return dict(k='row', t=line.split())


def tmp_real_read(sec):
    from basis_set_exchange.readers import turbomole as rt
    bs = {}
    try:
        rt._parse_ecp_lines(list(sec), bs)
    except Exception as e:
        return ('err', type(e).__name__)
    return ('ok', [[int(z), el['ecp_electrons'], [dict(am=p['angular_momentum'], rexp=p['r_exponents'], gexp=p['gaussian_exponents'], coef=p['coefficients'][0])
                                                   for p in el['ecp_potentials']]] for z, el in bs.items()])


def tmp_mutations(sec, rng):
    from basis_set_exchange.readers import turbomole as rt
    out = []
    n = len(sec)
    for kind in ('drop_line', 'swap', 'no_last_star', 'extra_star', 'starish', 'lmax_wrong', 'ncore_text', 'two_tops', 'base_wrong', 'bad_letter', 'upper_title',
                 'two_tokens', 'four_tokens', 'float_r', 'garbage_token', 'dup_element', 'bad_sym', 'title_without_rows', 'info_missing', 'info_upper', 'alpha_line'):
        m = list(sec)
        try:
            elems = [i for i, l in enumerate(m) if rt.element_re.match(l) and not l.startswith('$')]
            infos = [i for i, l in enumerate(m) if rt.ecp_info_re.match(l)]
            titles = [i for i, l in enumerate(m) if rt.ecp_pot_am_re.match(l)]
            rows = [i for i, l in enumerate(m) if i not in elems + infos + titles and not l.startswith(('*', '$'))]
            if kind == 'drop_line':
                del m[rng.randrange(1, n)]
            elif kind == 'swap':
                i, j = rng.randrange(1, n), rng.randrange(1, n); m[i], m[j] = m[j], m[i]
            elif kind == 'no_last_star':
                k = max(i for i, l in enumerate(m) if l == '*'); del m[k]
            elif kind == 'extra_star':
                m.insert(rng.choice(rows), '*')
            elif kind == 'starish':
                m.insert(rng.choice(rows), '** note')
            elif kind == 'lmax_wrong':
                i = rng.choice(infos); mm = rt.ecp_info_re.match(m[i]); m[i] = 'ncore = %s   lmax = %d' % (mm.group(1), int(mm.group(2)) + rng.choice([-1, 1, 2]))
            elif kind == 'ncore_text':
                i = rng.choice(infos); m[i] = m[i].replace('ncore', rng.choice(['ncor', 'n core', 'NCORE']))
            elif kind == 'two_tops':
                i = rng.choice([t for t in titles if '-' in m[t]]); m[i] = m[i].split('-')[1]
            elif kind == 'base_wrong':
                i = rng.choice([t for t in titles if '-' in m[t]]); m[i] = m[i].split('-')[0] + '-' + rng.choice(['s', 'p', 'i', 'q'])
            elif kind == 'bad_letter':
                i = rng.choice(titles); m[i] = rng.choice(['q', 'j', 'x']) + m[i][1:]
            elif kind == 'upper_title':
                i = rng.choice(titles); m[i] = m[i].upper()
            elif kind == 'two_tokens':
                i = rng.choice(rows); m[i] = ' '.join(m[i].split()[:2])
            elif kind == 'four_tokens':
                i = rng.choice(rows); m[i] = m[i] + ' 1.0'
            elif kind == 'float_r':
                i = rng.choice(rows); t = m[i].split(); t[1] = rng.choice(['2.0', '-1', 'x', '+2']); m[i] = ' '.join(t)
            elif kind == 'garbage_token':
                i = rng.choice(rows); t = m[i].split(); t[rng.choice([0, 2])] = rng.choice(['abc', '1.0.0', '12', '1e5', '.', '-.5D-3']); m[i] = ' '.join(t)
            elif kind == 'dup_element':
                i = elems[0]
                c = next(k for k in range(i + 2, len(m)) if m[k] == '*')
                m = m[:-1] + m[i:c + 1] + m[-1:] if m[-1].startswith('$') else m + m[i:c + 1]
            elif kind == 'bad_sym':
                i = rng.choice(elems); t = m[i].split(None, 1); t[0] = rng.choice(['xx', 'qq', 'zzz']); m[i] = ' '.join(t)
            elif kind == 'title_without_rows':
                i = rng.choice(titles); m.insert(i, m[i])
            elif kind == 'info_missing':
                del m[rng.choice(infos)]
            elif kind == 'info_upper':
                i = rng.choice(infos); m[i] = m[i].upper()
            elif kind == 'alpha_line':
                m.insert(rng.choice(rows), rng.choice(['note here', 'ss-f', 's-', 'sf']))
        except (IndexError, ValueError, StopIteration):
            continue
        m = [l for l in m if l.strip()]
        if m:
            out.append((kind, m))
    return out


def tm_ecp_cases(b, rng):
    """the Turbomole $ecp section: token lines of the writer model = real writer; reader model = _parse_ecp_lines on written and malformed sections"""
    from basis_set_exchange import writers
    from basis_set_exchange.readers import helpers
    ecp_els = [(z, el) for z, el in b['elements'].items() if 'ecp_potentials' in el]
    if not ecp_els or any(len(p['coefficients']) != 1 for _, el in ecp_els for p in el['ecp_potentials']):
        return []
    try:
        text = writers.write_formatted_basis_str(b, 'turbomole')
    except Exception:
        return []
    lines = helpers.prune_lines(text.splitlines(), '#')
    idx = [i for i, l in enumerate(lines) if l.lower() == '$ecp']
    if len(idx) != 1:
        return [('g94-harness-error', None, 'turbomole: %d $ecp sections for %d ECP elements' % (len(idx), len(ecp_els)))]
    sec = lines[idx[0]:]
    sec = sec[:next((i for i, l in enumerate(sec) if i > 0 and l.startswith('$')), len(sec))]
    pruned = helpers.prune_lines(sec, '$')
    conv = lambda x: x.strip().replace('e', 'D').replace('E', 'D')
    els = [dict(z=int(z), nelec=str(el['ecp_electrons']),
                pots=[dict(am=p['angular_momentum'][0], terms=[[str(r), conv(g), conv(c)] for r, g, c in zip(p['r_exponents'], p['gaussian_exponents'], p['coefficients'][0])])
                      for p in el['ecp_potentials']]) for z, el in ecp_els]
    cases = [('tmecp-write', dict(op='tm_ecp_write', name=b['name'] + '-ecp', els=els), [tmp_tok(l) for l in pruned]),
             ('tmecp-read', dict(op='tm_ecp_read', lines=[tmp_tok(l) for l in pruned]), tmp_real_read(sec))]
    for kind, m in tmp_mutations(sec, rng):
        mp = helpers.prune_lines(m, '$')
        cases.append(('tmecp-read:' + kind, dict(op='tm_ecp_read', lines=[tmp_tok(l) for l in mp]), tmp_real_read(m)))
    return cases


def run(ctx):
    bse = import_bse()
    R = Result('C03')
    items = [('%s/%s' % p, p, '%s-%d' % (p[0], ctx.seed)) for p in sample_pairs(ctx, ctx.n(34, 300))]
    for i in range(ctx.n(70, 1000)):
        g = genbasis.gen_basis(ctx.rng, kinds=ctx.rng.choice([None, ['highl', 'plain'], ['ecponly', 'ecp', 'plain'], ['pople', 'general'], ['ecpgap', 'ecpsingle', 'ecp', 'plain']]))
        if i % 10 == 7:
            # the two elements whose symbols have three letters (Uue, Ubn), at the end so that the elements stay in increasing order
            n_ = len(g['elements'])
            g['elements'] = {('120' if k == n_ - 1 and n_ > 1 else '119' if k == max(n_ - 2, 0) else z): el for k, (z, el) in enumerate(g['elements'].items())}
        items.append(('gen%d' % i, g, 'g%d-%d' % (i, ctx.seed)))
    pairs = []
    nw = []
    for i in range(0, len(items), 600):
        for out in pmap(work, items[i:i + 600]):
            if out['error']:
                R.count('skip:' + out['error'])
                continue
            for rec in out['cases']:
                R.ev()
                if 'write_raised' in rec:
                    R.count('%s:write-refused' % rec['fmt'])
                    continue
                if 'read_raised' in rec:
                    R.count('%s:read-raises' % rec['fmt'])
                else:
                    R.count('%s:%s' % (rec['fmt'], 'ok' if not rec['bad'] else 'DIFFERENT'))
                R.nt(rec['hash'])
                w = dict(basis=out['label'], fmt=rec['fmt'], header=rec['header'], elements=rec['subset'])
                for rule, what, z in rec['bad']:
                    R.violation(rule, 'readers.' + rec['fmt'], what, w, fmt=rec['fmt'], lost_ecp_only=(z == 'lost-ecp-only'), conv_unused_primitive=(z == 'conv-unused-primitive'), **rec['facts'])
            pairs += out['pairs']
            nw += [(out['label'],) + tuple(c) for c in out['nw']]
            R.sample(dict(basis=out['label'], cases=len(out['cases'])))
    if ctx.model_ok and pairs:
        pairs = pairs[:4000]
        ans = drive([dict(op='same_funcs', a=a, b=b) for (_, _, _, a, b, _) in pairs])
        for a, (label, fmt, z, _, _, py) in zip(ans, pairs):
            if 'drv_error' in a:
                if 'unparsable' in a['drv_error']:
                    continue      # D exponent markers etc. in the read-back: the Lean reader takes decimal literals only
                raise DriverError(a['drv_error'])
            if a['same'] != py:
                R.disagree('same_funcs', dict(basis=label, fmt=fmt, element=z), a['same'], py, note='verified checker vs harness oracle on (source, read-back)')
        R.extra['pairs_judged_by_verified_checker'] = len(pairs)
    # the NWChem token-level models against the real writer and reader
    for label, what, rq, exp in [x for x in nw if x[2] is None]:
        # the text the real writer produced does not have the structure the token-level model prescribes (one block per element, …):
        # the writer model and the writer no longer agree on this input
        R.disagree('writer_structure', dict(basis=label), 'one block per element', str(exp)[:200], note='the written text cannot be cut into the blocks the writer model produces (%s)' % what)
    nw = [x for x in nw if x[2] is not None]
    if ctx.model_ok and nw:
        ans = drive([rq for (_, _, rq, _) in nw])
        nread = nok = 0
        for a, (label, what, rq, exp) in zip(ans, nw):
            if 'drv_error' in a:
                raise DriverError(a['drv_error'])
            R.ev()
            if what in ('write', 'ecp-write', 'g94-write', 'g94ecp-write', 'tm-write', 'tmecp-write'):
                R.count('nwchem-model:' + what)
                if a['lines'] != exp:
                    k = next((i for i, (x, y) in enumerate(zip(a['lines'], exp)) if x != y), min(len(a['lines']), len(exp)))
                    R.disagree('nwchem_write', dict(basis=label), str(a['lines'][k:k + 2])[:200], str(exp[k:k + 2])[:200], note='token lines of the electron section differ at line %d' % k)
            else:
                nread += 1
                R.count('nwchem-model:%s:%s' % (what, exp[0]))
                got = ('ok', a['ok']) if 'ok' in a else ('err', a['raise'])
                if got == ('err', 'UNMODELLED'):
                    R.count('g94-model:scaled-exponents-not-modelled')
                    continue
                if what.startswith('ecp') and got[0] == 'ok':
                    got = ('ok', [[z, n, [dict(p, rexp=[int(x) for x in p['rexp']]) for p in ps]] for z, n, ps in got[1]])
                if what.startswith('tmecp') and got[0] == 'ok':
                    rd = lambda x: x.replace('D', 'E').replace('d', 'e')
                    got = ('ok', [[z, n, [dict(am=p['am'], rexp=[int(x) for x in p['rexp']], gexp=[rd(x) for x in p['gexp']], coef=[rd(x) for x in p['coef']]) for p in ps]]
                                  for z, n, ps in got[1]])
                if what.startswith('tm-') and got[0] == 'ok':
                    rd = lambda x: x.replace('D', 'E').replace('d', 'e')
                    got = ('ok', [[z, [dict(ftype=sh['ftype'], am=sh['am'], exps=[rd(x) for x in sh['exps']], coefs=[[rd(x) for x in c] for c in sh['coefs']]) for sh in shs]] for z, shs in got[1]])
                if what.startswith('g94ecp') and got[0] == 'ok':
                    z, n, ps = got[1]
                    rd = lambda x: x.replace('D', 'E').replace('d', 'e')
                    got = ('ok', [z, n, [dict(am=p['am'], rexp=[int(x) for x in p['rexp']], gexp=[rd(x) for x in p['gexp']], coef=[rd(x) for x in p['coef']]) for p in ps]])
                if got[0] != exp[0] or (got[0] == 'ok' and got[1] != exp[1]):
                    R.disagree('nwchem_read', dict(basis=label, stream=what), str(got)[:200], str(exp)[:200], note='reader model vs readers/nwchem.py on the same lines')
                elif got[0] == 'ok':
                    nok += 1
        R.extra['nwchem_streams_read_by_model_and_reader'] = nread
        R.extra['nwchem_streams_accepted_by_both'] = nok
    return R


def replay(ctx, payload):
    bse = import_bse()
    from basis_set_exchange import writers, readers
    w = payload['witness']
    if w['basis'].startswith('gen'):
        print('generated basis: re-run with the same VERIF_SEED')
        return False
    name, ver = w['basis'].rsplit('/', 1)
    b = bse.get_basis(name, version=ver, elements=w.get('elements'))
    t = writers.write_formatted_basis_str(b, w['fmt'])
    try:
        r = readers.read_formatted_basis_str(t, w['fmt'])
    except Exception as e:
        print('raises', e)
        return True
    bad = compare(b, r, w['fmt'])
    print(bad[:3])
    return not bad
