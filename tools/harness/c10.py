"""C10 — library functions never modify the caller's data (dynamic twin of the ownership statements):
deep snapshot before / after, and identity-disjointness of all mutable sub-objects between argument and result."""
import io, contextlib, re, json, os
from common import *
from harness.shells import *

LEVEL = 'proof'
RULE = ('every public function of manip, sort, writers (all formats), curate.compare / diff, validator, refconverters.convert_references, and the list/str '
        'arguments of get_basis / get_references / filter_basis_sets, called with use_copy left at its default (and explicitly True) on store basis sets and on '
        'generated dictionaries; after each call: argument deeply equal to its snapshot, no dict/list of the result is an object of the argument. '
        'One case = (function, input). Non-trivial = distinct (function, input hash).')
ASSUMPTIONS = ['strings, numbers and None are immutable and may be shared', 'only dict and list objects are tracked (the library builds nothing else)']
TRUSTED = ['CPython id(), copy.deepcopy']


def mutable_ids(x, acc=None):
    acc = set() if acc is None else acc
    if isinstance(x, dict):
        if id(x) in acc:
            return acc
        acc.add(id(x))
        for v in x.values():
            mutable_ids(v, acc)
    elif isinstance(x, (list, tuple)):
        if isinstance(x, list):
            if id(x) in acc:
                return acc
            acc.add(id(x))
        for v in x:
            mutable_ids(v, acc)
    return acc


def probe(fn, args, kwargs=None, tracked=None):
    """returns list of problems"""
    kwargs = kwargs or {}
    tracked = args if tracked is None else tracked
    before = copy.deepcopy(tracked)
    ids = mutable_ids(tracked)
    try:
        with contextlib.redirect_stdout(io.StringIO()):
            r = fn(*args, **kwargs)
    except Exception as e:
        r = None
        raised = type(e).__name__
    else:
        raised = None
    bad = []
    if tracked != before:
        bad.append('argument_modified')
    if r is not None and not isinstance(r, (str, bool, int, float)):
        if mutable_ids(r) & ids:
            bad.append('result_shares_argument')
    return bad, raised


def work(item):
    bse = import_bse()
    from basis_set_exchange import manip, sort, writers, validator, refconverters, curate
    from basis_set_exchange.curate import compare as cmp
    import random
    label, src, seed = item
    rng = random.Random(seed)
    out = dict(label=label, cases=[], error=None)
    try:
        b = src if isinstance(src, dict) else bse.get_basis(src[0], version=src[1])
    except Exception as e:
        out['error'] = type(e).__name__
        return out

    def case(name, fn, args, kwargs=None, tracked=None):
        bad, raised = probe(fn, args, kwargs, tracked)
        out['cases'].append(dict(fn=name, bad=bad, raised=raised))
    fresh = lambda: copy.deepcopy(b)
    for name in ('prune_basis', 'uncontract_spdf', 'uncontract_general', 'uncontract_segmented', 'make_general', 'remove_free_primitives', 'optimize_general'):
        for kw in ({}, {'use_copy': True}):
            case('manip.' + name, getattr(manip, name), [fresh()], kw)
    case('manip.make_general(skip)', manip.make_general, [fresh(), True])
    case('manip.uncontract_spdf(1)', manip.uncontract_spdf, [fresh(), 1])
    for n, steep in ((1, False), (2, True)):
        case('manip.geometric_augmentation', manip.geometric_augmentation, [fresh(), n], dict(steep=steep))
        case('manip.geometric_augmentation(component)', manip.geometric_augmentation, [fresh(), n], dict(steep=steep, as_component=True))
    case('manip.truhlar_calendarize', manip.truhlar_calendarize, [fresh(), 'jun'])
    case('manip.autoaux_basis', manip.autoaux_basis, [fresh()])
    case('manip.autoabs_basis', manip.autoabs_basis, [fresh()])
    case('sort.sort_basis', sort.sort_basis, [fresh()])
    case('sort.sort_basis_dict', sort.sort_basis_dict, [fresh()])
    case('manip.uncontract_spdf(2)', manip.uncontract_spdf, [fresh(), 2])
    case('manip.remove_free_primitives', manip.remove_free_primitives, [fresh()])
    for mon in ('jul', 'may', 'apr'):
        case('manip.truhlar_calendarize(%s)' % mon, manip.truhlar_calendarize, [fresh(), mon])
    case('sort.sort_basis(True)', sort.sort_basis, [fresh(), True])
    els = list(b['elements'].values())
    el = rng.choice(els)
    if 'electron_shells' in el:
        shells = copy.deepcopy(el['electron_shells'])
        case('sort.sort_shells', sort.sort_shells, [shells])
        case('sort.sort_shells(one)', sort.sort_shells, [copy.deepcopy(shells[:1])])
        case('sort.sort_shells(none)', sort.sort_shells, [[]])
        case('sort.sort_shell', sort.sort_shell, [copy.deepcopy(shells[0])])
        case('manip.prune_shell', manip.prune_shell, [copy.deepcopy(shells[0])])
        case('manip.prune_shell(True)', manip.prune_shell, [copy.deepcopy(shells[0]), True])
        case('compare.electron_shells_are_equal', cmp.electron_shells_are_equal, [copy.deepcopy(shells), copy.deepcopy(shells)])
        case('compare.compare_electron_shells', cmp.compare_electron_shells, [copy.deepcopy(shells[0]), copy.deepcopy(shells[-1])])
        case('diff.subtract_electron_shells', curate.diff.subtract_electron_shells, [copy.deepcopy(shells), copy.deepcopy(shells[:1])])
        case('diff.subtract_electron_shells(none)', curate.diff.subtract_electron_shells, [copy.deepcopy(shells), []])
        case('compare.electron_shells_are_subset', cmp.electron_shells_are_subset, [copy.deepcopy(shells[:1]), copy.deepcopy(shells)])
    if 'ecp_potentials' in el:
        pots = copy.deepcopy(el['ecp_potentials'])
        case('sort.sort_potentials', sort.sort_potentials, [pots])
        # short lists too: a function may take an early way out before it copies
        case('sort.sort_potentials(one)', sort.sort_potentials, [copy.deepcopy(pots[:1])])
        case('sort.sort_potentials(none)', sort.sort_potentials, [[]])
        case('compare.ecp_pots_are_equal', cmp.ecp_pots_are_equal, [copy.deepcopy(pots), copy.deepcopy(pots)])
        case('compare.ecp_pots_are_subset', cmp.ecp_pots_are_subset, [copy.deepcopy(pots[:1]), copy.deepcopy(pots)])
        case('compare.compare_ecp_pots', cmp.compare_ecp_pots, [copy.deepcopy(pots[0]), copy.deepcopy(pots[-1])])
    # merge_element_data: dest and sources
    if len(els) >= 2:
        d0 = copy.deepcopy(els[0])
        s0 = [copy.deepcopy(e) for e in els[1:3] if not ('ecp_potentials' in e and 'ecp_potentials' in els[0])]
        case('manip.merge_element_data', manip.merge_element_data, [d0, s0])
        case('manip.merge_element_data(None)', manip.merge_element_data, [None, s0], tracked=[s0])
    case('compare.compare_basis', cmp.compare_basis, [fresh(), fresh()])
    case('compare.compare_elements', cmp.compare_elements, [copy.deepcopy(el), copy.deepcopy(el)])
    other = fresh()
    for e in other['elements'].values():
        if 'electron_shells' in e and len(e['electron_shells']) > 1:
            e['electron_shells'] = e['electron_shells'][:1]
    case('diff.diff_basis_dict', curate.diff_basis_dict, [[fresh()], [other, fresh()]])
    case('validator.validate_data', validator.validate_data, ['complete', fresh()])
    for fmt in writers.get_writer_formats():
        case('writers.' + fmt, writers.write_formatted_basis_str, [fresh(), fmt])
    # ... and on a dictionary without the optional top-level fields (what the readers return, what the minimal schema asks for): a writer
    # that fills in a default must do so in its own copy; raising is fine, the argument is compared all the same
    optional = [k for k in b if k not in ('elements', 'function_types', 'molssi_bse_schema')]
    for fmt in writers.get_writer_formats():
        keep = set(rng.sample(optional, rng.randrange(0, 3))) if optional else set()
        bare = {k: v for k, v in fresh().items() if k not in optional or k in keep}
        case('writers.' + fmt, writers.write_formatted_basis_str, [bare, fmt])
    # references
    if not isinstance(src, dict):
        try:
            refs = bse.get_references(src[0], version=src[1])
            for rf in ('txt', 'bib', 'ris', 'endnote', 'json'):
                case('refconverters.' + rf, refconverters.convert_references, [copy.deepcopy(refs), rf])
            # the same data after a trip through JSON (lists where the API hands out tuples)
            case('refconverters.bib(json form)', refconverters.convert_references, [json.loads(json.dumps(refs)), 'bib'])
            # the reference sorters, on the entries this basis cites
            rd = bse.get_reference_data()
            keys = sorted(set(k for g in refs for ri in g['reference_info'] for k, _ in ri['reference_data']))[:6]
            sub = {'molssi_bse_schema': copy.deepcopy(rd['molssi_bse_schema'])}
            for k in keys:
                sub[k] = copy.deepcopy(rd[k])
                case('sort.sort_single_reference', sort.sort_single_reference, [copy.deepcopy(rd[k])])
            case('sort.sort_references_dict', sort.sort_references_dict, [sub])
        except Exception:
            pass
        zs = list(b['elements'])
        sel = [int(z) for z in rng.sample(zs, min(2, len(zs)))]
        case('api.get_basis(elements)', bse.get_basis, [src[0]], dict(version=src[1], elements=sel), tracked=[sel])
        case('api.get_references(elements)', bse.get_references, [src[0]], dict(version=src[1], elements=sel), tracked=[sel])
        case('api.filter_basis_sets(elements)', bse.filter_basis_sets, [], dict(elements=sel), tracked=[sel])
        # the value returned by the retrieval API is private: editing it must not change a later retrieval
        r1 = bse.get_basis(src[0], version=src[1])
        snap = copy.deepcopy(r1)
        for e in r1['elements'].values():
            e.clear()
        r1['elements'].clear()
        r2 = bse.get_basis(src[0], version=src[1])
        out['cases'].append(dict(fn='api.get_basis(result private)', bad=([] if r2 == snap else ['result_shares_argument']), raised=None))
    return out


def static_report():
    """the ownership check of every regenerated skeleton, evaluated by Lean: (number of skeletons, [(function, why refused)])"""
    import subprocess, tempfile
    src = ('import BSEGen.OwnSkel\nopen BSE.Heap BSE.Gen.OwnSkel\n'
           '#eval IO.println s!"COUNT {all.length}"\n'
           '#eval (all.filterMap (fun k => match firstRefusal k.body (Abs.init k.params) with | .error e => some (k.name, e) | .ok _ => '
           'if k.accepted then none else some (k.name, "refused"))).forM (fun p => IO.println s!"REFUSED {p.1} :: {p.2}") *> pure ()\n')
    fd, path = tempfile.mkstemp(suffix='.lean', dir=os.path.join(LEAN, '.audit') if os.path.isdir(os.path.join(LEAN, '.audit')) else None)
    os.write(fd, src.encode())
    os.close(fd)
    try:
        p = subprocess.run(['lake', 'env', 'lean', path], cwd=LEAN, stdout=subprocess.PIPE, stderr=subprocess.STDOUT, timeout=900)
        out = p.stdout.decode(errors='replace')
    finally:
        os.unlink(path)
    m = re.search(r'COUNT (\d+)', out)
    if not m:
        return None, [], out[-600:]
    return int(m.group(1)), re.findall(r'REFUSED (\S+) :: (.*)', out), ''


# static skeleton name -> the labels the dynamic twin uses for the same function
def dyn_name(skel):
    mod, fn = skel.rsplit('.', 1)
    mod = mod.split('.')[-1]
    if mod == 'convert' and fn == 'convert_references':
        return 'refconverters.'
    if skel.startswith('writers.') and fn.startswith('write_'):
        return 'writers.'
    return {'compare': 'compare.', 'diff': 'diff.'}.get(mod, mod + '.') + fn


def run(ctx):
    bse = import_bse()
    R = Result('C10')
    nsk, refused, err = static_report()
    if nsk is None:
        R.disagree('own_skeletons', None, None, None, 'the skeleton report could not be evaluated: ' + err)
    else:
        R.extra['static_skeletons'] = nsk
        R.extra['static_refused'] = ['%s: %s' % r for r in refused]
        R.count('static:skeletons', nsk)
    # sort_basis_dict is refused by construction (Props/C10.lean, beyondTheAbstraction): it is the probes that cover it
    refused = [r for r in refused if r[0] != 'sort.sort_basis_dict']
    refused_dyn = set(dyn_name(n) for n, _ in refused)
    flagged_dyn = set()
    items = [('%s/%s' % p, p, '%s-%d' % (p[0], ctx.seed)) for p in sample_pairs(ctx, ctx.n(12, 10 ** 6))]
    aug = [p for p in store_pairs() if p[0].startswith('aug-cc-pv')][:3]
    items += [('%s/%s' % p, p, 'a-%s' % p[0]) for p in aug]
    for i in range(ctx.n(25, 600)):
        items.append(('gen%d' % i, genbasis.gen_basis(ctx.rng), 'g%d' % i))
    for out in pmap(work, items):
        if out['error']:
            R.count('skip:' + out['error'])
            continue
        for c in out['cases']:
            R.ev()
            R.nt((out['label'], c['fn']))
            R.count('fn:' + c['fn'].split('(')[0])
            if c['raised']:
                R.count('raised:' + c['raised'])
            for b in c['bad']:
                flagged_dyn.add(c['fn'].split('(')[0])
                R.violation(b, c['fn'].split('(')[0], '%s: %s' % (c['fn'], 'the argument differs from its snapshot after the call' if b == 'argument_modified'
                                                                   else 'a dict/list of the result is an object of the argument'),
                            dict(function=c['fn'], basis=out['label']), function=c['fn'].split('(')[0])
        R.sample(dict(basis=out['label'], functions=len(out['cases'])))
    # the two sides must tell the same story: a function the ownership check refuses and no probe convicts is reported by check.py as
    # an unproved obligation; a function a probe convicts although its skeleton was accepted is a gap of the extraction
    for fn in sorted(flagged_dyn):
        if nsk is not None and not any(fn.startswith(r) or r.startswith(fn) for r in refused_dyn) and not fn.startswith('api.'):
            R.disagree('own_skeletons', fn, 'accepted', 'convicted', 'the probes convict %s but its skeleton passes the ownership check (extraction gap)' % fn)
    return R


def replay(ctx, payload):
    print('witness:', jdump(payload.get('witness'))[:400])
    return False
