"""C19 — comparison and difference tools agree with exact equality of the data."""
import itertools
from common import *
from harness.shells import *

LEVEL = 'proof'
RULE = ('pairs (element, perturbed element) over store samples and generated dictionaries: reorderings of shells / primitives / contractions and '
        're-notations (must compare equal), sign flips, single-value perturbations above and below the tolerance, dropped / duplicated shells, '
        'changed momenta, changed ECP terms and electron counts (must differ); diff_basis_dict with one and several right operands. '
        'Non-trivial = distinct (element content, perturbation).')
ASSUMPTIONS = ['Faithful numbers', 'KeyInjective: the <r^2> sort key separates the distinct contractions of a shell (ties are counted and skipped)',
               'ECP terms are compared in stored order (the statement speaks of "the same ECP terms"; permuting terms is not exercised)']
TRUSTED = ['ints.py float integrals (sort keys only)']


def canon_shell(sh):
    ex = [frac(x) for x in sh['exponents']]
    cols = [tuple(sorted(zip(ex, [frac(c) for c in col]))) for col in sh['coefficients']]
    if len(sh['angular_momentum']) > 1:
        return (tuple(sh['angular_momentum']), tuple(cols))
    return (tuple(sh['angular_momentum']), tuple(sorted(cols)))


def canon_pot(p):
    return (tuple(p['angular_momentum']), tuple(p['r_exponents']), tuple(frac(x) for x in p['gaussian_exponents']),
            tuple(tuple(frac(x) for x in c) for c in p['coefficients']))


def exact_equal(e1, e2):
    for k in ('electron_shells', 'ecp_potentials', 'ecp_electrons'):
        if (k in e1) != (k in e2):
            return False
    if 'electron_shells' in e1:
        a, b = sorted(map(canon_shell, e1['electron_shells'])), sorted(map(canon_shell, e2['electron_shells']))
        if a != b:
            return False
    if 'ecp_potentials' in e1:
        if sorted(map(canon_pot, e1['ecp_potentials'])) != sorted(map(canon_pot, e2['ecp_potentials'])):
            return False
        if e1['ecp_electrons'] != e2['ecp_electrons']:
            return False
    return True


def scale(s, num, den):
    """exact decimal string of frac(s) * num/den (den a power of ten)"""
    v = frac(s) * Fraction(num, den)
    from decimal import Decimal, getcontext
    getcontext().prec = 60
    d = Decimal(v.numerator) / Decimal(v.denominator)
    out = format(d, 'f')
    assert Fraction(Decimal(out)) == v
    return out


def perturbations(rng, el):
    """yields (kind, expected_equal or None, new element, tol, extra)"""
    out = []
    if 'electron_shells' in el:
        shells = el['electron_shells']
        # equal-preserving
        e = copy.deepcopy(el)
        rng.shuffle(e['electron_shells'])
        out.append(('shuffle_shells', e, 0.0))
        e = copy.deepcopy(el)
        for sh in e['electron_shells']:
            n = len(sh['exponents'])
            perm = list(range(n))
            rng.shuffle(perm)
            sh['exponents'] = [sh['exponents'][i] for i in perm]
            sh['coefficients'] = [[c[i] for i in perm] for c in sh['coefficients']]
            if len(sh['angular_momentum']) == 1:
                rng.shuffle(sh['coefficients'])
        out.append(('permute_primitives_and_contractions', e, 0.0))
        e = copy.deepcopy(el)
        for sh in e['electron_shells']:
            sh['exponents'] = [genbasis.respell(rng, x) for x in sh['exponents']]
            sh['coefficients'] = [[genbasis.respell(rng, x) for x in c] for c in sh['coefficients']]
        out.append(('renotate', e, 0.0))
        # differing
        cand = [(i, j, k) for i, sh in enumerate(shells) for j, c in enumerate(sh['coefficients']) for k, x in enumerate(c) if frac(x) != 0]
        if cand:
            i, j, k = rng.choice(cand)
            e = copy.deepcopy(el)
            x = e['electron_shells'][i]['coefficients'][j][k]
            e['electron_shells'][i]['coefficients'][j][k] = x[1:] if x.lstrip().startswith('-') else '-' + x.strip()
            out.append(('sign_flip', e, 0.0))
            for target in ('coef', 'exp'):
                e = copy.deepcopy(el)
                if target == 'coef':
                    e['electron_shells'][i]['coefficients'][j][k] = scale(x, 1000001, 1000000)
                else:
                    xe = e['electron_shells'][i]['exponents'][k]
                    e['electron_shells'][i]['exponents'][k] = scale(xe, 1000001, 1000000)
                # reldiff of v and v(1+1e-6) is exactly 1e-6
                out.append(('perturb_%s_tol0' % target, e, 0.0))
                out.append(('perturb_%s_tol_above' % target, e, 2e-6))
                out.append(('perturb_%s_tol_below' % target, e, 5e-7))
        shaped = []
        # a general contraction with one contraction fewer / one more, a shell with one primitive fewer: tables of another shape
        gen = [i for i, sh in enumerate(shells) if len(sh['angular_momentum']) == 1 and len(sh['coefficients']) > 1]
        if gen:
            i = rng.choice(gen)
            nc = len(shells[i]['coefficients'])
            for name, k in (('drop_first_contraction', 0), ('drop_last_contraction', nc - 1), ('drop_contraction', rng.randrange(nc))):
                e = copy.deepcopy(el)
                e['electron_shells'][i]['coefficients'].pop(k)
                shaped.append((name, e, 0.0))
                # ... and whichever contraction comes last in the library's canonical order (sort_shell)
            from basis_set_exchange import sort as bse_sort
            e = copy.deepcopy(el)
            e['electron_shells'][i] = bse_sort.sort_shell(e['electron_shells'][i])
            e['electron_shells'][i]['coefficients'].pop()
            shaped.append(('drop_contraction_last_in_canonical_order', e, 0.0))
            e = copy.deepcopy(el)
            e['electron_shells'][i] = bse_sort.sort_shell(e['electron_shells'][i])
            e['electron_shells'][i]['coefficients'].pop(0)
            shaped.append(('drop_contraction_first_in_canonical_order', e, 0.0))
        big = [i for i, sh in enumerate(shells) if len(sh['exponents']) > 1]
        if big:
            i = rng.choice(big)
            k = rng.choice([0, len(shells[i]['exponents']) - 1, rng.randrange(len(shells[i]['exponents']))])
            e = copy.deepcopy(el)
            e['electron_shells'][i]['exponents'].pop(k)
            for c in e['electron_shells'][i]['coefficients']:
                c.pop(k)
            shaped.append(('drop_primitive', e, 0.0))
        # (only where what is left is still a well-formed shell list: every primitive used, no empty contraction)
        out += [x for x in shaped if all(wf_shell(sh) for sh in x[1]['electron_shells'])]
        if len(shells) > 1:
            e = copy.deepcopy(el)
            e['electron_shells'].pop(rng.randrange(len(shells)))
            out.append(('drop_shell', e, 0.0))
        e = copy.deepcopy(el)
        e['electron_shells'].append(copy.deepcopy(rng.choice(shells)))
        out.append(('duplicate_shell', e, 0.0))
        e = copy.deepcopy(el)
        sh = rng.choice([s for s in e['electron_shells']])
        if len(sh['angular_momentum']) == 1:
            sh['angular_momentum'] = [sh['angular_momentum'][0] + 1]
            out.append(('change_am', e, 0.0))
    if 'ecp_potentials' in el:
        e = copy.deepcopy(el)
        p = rng.choice(e['ecp_potentials'])
        k = rng.randrange(len(p['coefficients'][0]))
        p['coefficients'][0][k] = scale(p['coefficients'][0][k], 11, 10) if frac(p['coefficients'][0][k]) != 0 else '1.5'
        out.append(('ecp_coefficient', e, 0.0))
        e = copy.deepcopy(el)
        p = rng.choice(e['ecp_potentials'])
        k = rng.randrange(len(p['gaussian_exponents']))
        p['gaussian_exponents'][k] = scale(p['gaussian_exponents'][k], 11, 10)
        out.append(('ecp_exponent', e, 0.0))
        e = copy.deepcopy(el)
        p = rng.choice(e['ecp_potentials'])
        k = rng.randrange(len(p['r_exponents']))
        p['r_exponents'][k] += 1
        out.append(('ecp_r_exponent', e, 0.0))
        e = copy.deepcopy(el)
        e['ecp_electrons'] += 2
        out.append(('ecp_electrons', e, 0.0))
        multi = [p for p in el['ecp_potentials'] if len(p['r_exponents']) > 1]
        if multi:
            e = copy.deepcopy(el)
            p = rng.choice([p for p in e['ecp_potentials'] if len(p['r_exponents']) > 1])
            k = rng.choice([0, len(p['r_exponents']) - 1])
            p['r_exponents'].pop(k)
            p['gaussian_exponents'].pop(k)
            for c in p['coefficients']:
                c.pop(k)
            out.append(('ecp_drop_term', e, 0.0))
        if len(e['ecp_potentials']) > 1:
            e = copy.deepcopy(el)
            e['ecp_potentials'].pop()
            out.append(('drop_potential', e, 0.0))
        e = copy.deepcopy(el)
        for p in e['ecp_potentials']:
            p['gaussian_exponents'] = [genbasis.respell(rng, x) for x in p['gaussian_exponents']]
            p['coefficients'] = [[genbasis.respell(rng, x) for x in c] for c in p['coefficients']]
        rng.shuffle(e['ecp_potentials'])
        out.append(('ecp_renotate_shuffle_potentials', e, 0.0))
    # a whole section present on one side only
    if 'ecp_potentials' in el:
        e = copy.deepcopy(el)
        del e['ecp_potentials']
        e.pop('ecp_electrons', None)
        out.append(('drop_ecp_section', e, 0.0))
        e = copy.deepcopy(el)
        e.pop('ecp_electrons', None)
        out.append(('drop_ecp_electrons_key', e, 0.0))
        if 'electron_shells' in el:
            e = copy.deepcopy(el)
            del e['electron_shells']
            out.append(('drop_shell_section', e, 0.0))
    elif 'electron_shells' in el:
        e = copy.deepcopy(el)
        e['ecp_potentials'] = [dict(ecp_type='scalar_ecp', angular_momentum=[0], r_exponents=[2], gaussian_exponents=['1.0'], coefficients=[['1.0']])]
        e['ecp_electrons'] = 2
        out.append(('add_ecp_section', e, 0.0))
    return out


def expected(kind, el, e2, tol):
    if kind.endswith('tol_above'):
        return True
    if kind.endswith('tol_below'):
        return False
    return exact_equal(el, e2)


NEAR = [False]


def keyed(shells, bsort):
    out = []
    ties = False
    for sh in shells:
        rsq = bsort._spatial_extent(sh)
        if len(set(rsq)) != len(rsq) and len(sh['angular_momentum']) == 1:
            ties = True
        # two contractions of (nearly) the same spatial extent - proportional ones, say: the order sort_shell gives them is decided by
        # float noise, and compare pairs the contractions of two shells by that order
        srt = sorted(rsq)
        if len(sh['angular_momentum']) == 1 and any(abs(a - b) <= 1e-4 * max(abs(a), abs(b)) for a, b in zip(srt, srt[1:])):
            NEAR[0] = True
        order = sorted(set(rsq))
        pos = {v: i for i, v in enumerate(order)}
        out.append(dict(shell=norm_shell(sh), rsq=[[pos[x], 1] for x in rsq]))
    return out, ties


def tol_rat(t):
    f = Fraction(str(t))
    return [f.numerator, f.denominator]


def work(item):
    bse = import_bse()
    from basis_set_exchange import curate, sort as bsort
    from basis_set_exchange.curate import compare as cmp
    import random
    label, src, seed = item
    rng = random.Random(seed)
    out = dict(label=label, bad=[], n=0, nt=[], reqs=[], ties=0, error=None, kinds={})
    try:
        b = src if isinstance(src, dict) else bse.get_basis(src[0], version=src[1])
    except Exception as e:
        out['error'] = type(e).__name__
        return out
    if not wf_basis(b):
        out['error'] = 'not-WF'
        return out
    zs = list(b['elements'])
    for z in (zs if len(zs) <= 3 else rng.sample(zs, 3)):
        el = b['elements'][z]
        for kind, e2, tol in perturbations(rng, el):
            out['n'] += 1
            out['kinds'][kind] = out['kinds'].get(kind, 0) + 1
            want = expected(kind, el, e2, tol)
            w = dict(basis=label, element=z, perturbation=kind, rel_tol=tol)
            b1 = dict(elements={z: el})
            b2 = dict(elements={z: e2})
            try:
                got_el = cmp.compare_elements(el, e2, rel_tol=tol)
                import io, contextlib
                with contextlib.redirect_stdout(io.StringIO()):
                    got_b = cmp.compare_basis(b1, b2, rel_tol=tol)
                got_rev = cmp.compare_elements(e2, el, rel_tol=tol)
            except Exception as ex:
                out['bad'].append(('compare_raises', 'comparison raises %s' % type(ex).__name__, w, {}))
                continue
            ties = False
            if 'electron_shells' in el and 'electron_shells' in e2:
                NEAR[0] = False
                ka, t1 = keyed(el['electron_shells'], bsort)
                kb, t2 = keyed(e2['electron_shells'], bsort)
                ties = t1 or t2
                got_sh = cmp.electron_shells_are_equal(el['electron_shells'], e2['electron_shells'], rel_tol=tol)
                out['reqs'].append((dict(op='compare_lists', a=ka, b=kb, tol=tol_rat(tol), meta=False), ('equal', got_sh), w))
            if ties:
                out['ties'] += 1
                continue
            if got_el != want or got_b != want or got_rev != want:
                rule = 'false_equal' if want is False else 'false_different'
                out['bad'].append((rule, 'compare says %s / compare_basis %s / reversed %s, exact comparison says %s' % (got_el, got_b, got_rev, want), w,
                                   dict(perturbation=kind, near_tie=bool(NEAR[0]))))
            out['nt'].append(jdump([label, z, kind]))
        # diff: left minus [part1, part2] must be the shells in neither; left minus itself empty
        if 'electron_shells' in el and len(el['electron_shells']) >= 2:
            shells = el['electron_shells']
            k = rng.randrange(1, len(shells))
            idx = list(range(len(shells)))
            rng.shuffle(idx)
            r1 = [copy.deepcopy(shells[i]) for i in idx[:k]]
            r2 = [copy.deepcopy(shells[i]) for i in idx[k:k + max(1, (len(shells) - k) // 2)]]
            for sh in r1:
                sh['exponents'] = [genbasis.respell(rng, x) for x in sh['exponents']]
            left = dict(elements={z: dict(electron_shells=copy.deepcopy(shells))}, name='L')
            rights = [dict(elements={z: dict(electron_shells=r1)}), dict(elements={z: dict(electron_shells=r2)}),
                      dict(elements={'200': dict(electron_shells=copy.deepcopy(shells))})]
            out['n'] += 1
            try:
                d = curate.diff_basis_dict([left], rights)
                got = [canon_shell(s) for s in d[0]['elements'].get(z, {}).get('electron_shells', [])]
                gone = set(canon_shell(s) for s in r1 + r2)
                want = [canon_shell(s) for s in shells if canon_shell(s) not in gone]
                if got != want:
                    out['bad'].append(('diff_spec', 'diff_basis_dict does not return exactly the left shells that no right operand contains',
                                       dict(basis=label, element=z, nleft=len(shells), nright=[len(r1), len(r2)], got=len(got), want=len(want)), {}))
                if left['elements'][z]['electron_shells'] != shells:
                    out['bad'].append(('diff_spec', 'diff_basis_dict changed its left operand', dict(basis=label, element=z), {}))
            except Exception as ex:
                out['bad'].append(('diff_spec', 'diff_basis_dict raises %s' % type(ex).__name__, dict(basis=label, element=z), {}))
    return out


def run(ctx):
    bse = import_bse()
    from basis_set_exchange import curate
    from basis_set_exchange.curate import compare as cmp
    R = Result('C19')
    items = [('%s/%s' % p, p, '%s-%d' % (p[0], ctx.seed)) for p in sample_pairs(ctx, ctx.n(60, 10 ** 6))]
    for i in range(ctx.n(200, 3000)):
        items.append(('gen%d' % i, genbasis.gen_basis(ctx.rng), 'g%d-%d' % (i, ctx.seed)))
    reqs, want = [], []
    for i in range(0, len(items), 120):
        for out in pmap(work, items[i:i + 120]):
            if out['error']:
                R.count('skip:' + out['error'])
                continue
            R.ev(out['n'])
            R.count('sort-key-ties-skipped', out['ties'])
            for k, n in out['kinds'].items():
                R.count('kind:' + k, n)
            for k in out['nt']:
                R.nt(k)
            for rule, what, w, f in out['bad']:
                R.violation(rule, 'curate.compare', what, w, **f)
            for rq, wa, w in out['reqs'][:40]:
                reqs.append(rq)
                want.append((wa, w))
    # the two recorded probes
    sh = lambda e: dict(function_type='gto', region='', angular_momentum=[0], exponents=[e], coefficients=[['1.0']])
    l1 = [sh('1.00'), sh('1.02'), sh('2.01')]
    l2 = [sh('1.01'), sh('2.00'), sh('2.02')]
    R.ev()
    if cmp.electron_shells_are_equal(l1, l2, rel_tol=0.011):
        R.violation('tol_pairing', 'curate.compare.electron_shells_are_equal', 'answers True although the shells cannot be paired one-to-one within the tolerance',
                    dict(exponents1=['1.00', '1.02', '2.01'], exponents2=['1.01', '2.00', '2.02'], rel_tol=0.011), case='nontransitive-triple')
    R.ev()
    try:
        ecp = bse.get_basis('def2-ecp', elements=[37])
        orb = bse.get_basis('def2-svp', elements=[37])
        curate.diff_basis_dict([ecp], [orb])
    except KeyError:
        R.violation('diff_ecp_only', 'curate.diff.diff_basis_dict', 'raises KeyError(electron_shells) when the left operand has an ECP-only element',
                    dict(left='def2-ecp/Rb', right='def2-svp/Rb'), case='ecp-only-left')
    except Exception as e:
        R.count('probe-skip:' + type(e).__name__)
    R.sample(dict(perturbation='sign_flip', expected='differ'))
    R.sample(dict(perturbation='renotate', expected='equal'))
    if ctx.model_ok and reqs:
        ans = drive(reqs)
        for a, rq, ((field, got), w) in zip(ans, reqs, want):
            if 'drv_error' in a:
                raise DriverError(a['drv_error'])
            if a[field] != got:
                R.disagree('compare_lists', w, a[field], got, note='electron_shells_are_equal')
        R.extra['traces_validated_against_model'] = len(reqs)
    return R


def replay(ctx, payload):
    print('witness:', jdump(payload.get('witness'))[:1500])
    print('re-run ./check C19 with the same VERIF_SEED to regenerate the pair')
    return False
