"""C01 — get_basis (no options) returns exactly the curated data it is composed from.
Model: BSE.Compose.composeTable over the closure of JSON files (ordered objects); the result must
equal the implementation's dictionary key for key, in order, every string byte-identical."""
import json, os, tempfile, shutil, random
from common import *
import gendir

LEVEL = 'proof'
RULE = ('every (name, version) of a seed-chosen sample of the index (all in thorough; every alias is its own index entry) + synthetic data '
        'directories (random component/element/table graphs, shared components, ECP+orbital mixes, multi-version, shuffled element order) with and '
        'without one planted inconsistency, passed through data_dir. Non-trivial = distinct composed dictionary (content hash) or distinct refusal.')
ASSUMPTIONS = ['data directory not modified during the run', 'file paths are ASCII, "/"-separated']
TRUSTED = ['CPython json (decoding of the data files)']


def enc(x):
    if isinstance(x, dict):
        return {'$o': [[k, enc(v)] for k, v in x.items()]}
    if isinstance(x, list):
        return [enc(v) for v in x]
    return x


def dec(x):
    if isinstance(x, dict):
        if '$o' in x:
            return {k: dec(v) for k, v in x['$o']}
        raise ValueError('unordered object from the driver')
    if isinstance(x, list):
        return [dec(v) for v in x]
    return x


def odump(x):
    return json.dumps(x, ensure_ascii=False)


def closure(data_dir, table_rel):
    """all files the chain touches (those that exist)"""
    files = {}

    def rd(rel):
        p = os.path.join(data_dir, rel)
        if rel in files or not os.path.isfile(p):
            return files.get(rel)
        try:
            with open(p, encoding='utf-8') as fh:
                files[rel] = json.load(fh)
        except ValueError:
            return None      # not JSON (the data files emptied in this sandbox): left out, composition must refuse
        return files[rel]
    t = rd(table_rel)
    d, f = os.path.split(table_rel)
    rd(os.path.join(d, f.split('.')[0] + '.metadata.json'))
    if isinstance(t, dict):
        for ef in set(v for v in t.get('elements', {}).values() if isinstance(v, str)):
            e = rd(ef)
            if isinstance(e, dict):
                for el in e.get('elements', {}).values():
                    for c in (el.get('components', []) if isinstance(el, dict) else []):
                        rd(c)
    return files


def recompose(files, table_rel, display_name):
    """independent statement of the property: follow table -> element file -> components"""
    t = files[table_rel]
    out = {}
    for z, ef in t['elements'].items():
        comps = files[ef]['elements'][z]['components']
        el = {}
        for c in comps:
            cd = files[c]
            # a component file is used as a whole: every element entry in it must be schema-valid (have its reference keys)
            for other in cd['elements'].values():
                other['references']
            ce = cd['elements'][z]
            if 'electron_shells' in ce:
                el.setdefault('electron_shells', []).extend(ce['electron_shells'])
            if 'ecp_potentials' in ce:
                if 'ecp_potentials' in el:
                    raise RuntimeError('two ECPs')
                el['ecp_potentials'] = ce['ecp_potentials']
                el['ecp_electrons'] = ce['ecp_electrons']
            el.setdefault('references', []).append({'reference_description': cd['description'], 'reference_keys': ce['references']})
        out[z] = el
    d, f = os.path.split(table_rel)
    meta = files[os.path.join(d, f.split('.')[0] + '.metadata.json')]
    types = sorted({sh['function_type'] for el in out.values() for sh in el.get('electron_shells', [])} |
                   {p['ecp_type'] for el in out.values() for p in el.get('ecp_potentials', [])})
    exp = dict(t)
    exp['elements'] = out
    exp['version'] = f.split('.')[-3]
    exp['function_types'] = types
    exp.update(meta)
    exp['molssi_bse_schema'] = {"schema_type": "complete", "schema_version": "0.1"}
    exp['name'] = display_name
    return exp


def prior_history(bse, siblings, kw):
    for sk, sv in siblings:
        try:
            h = bse.get_basis(sk, version=sv, uncontract_segmented=True, uncontract_spdf=True, **kw)
            h2 = bse.get_basis(sk, version=sv, **kw)
            for el in h2['elements'].values():
                for shl in el.get('electron_shells', []):
                    shl['exponents'].clear()
                el.pop('references', None)
            h2['elements'].clear()
        except Exception:
            pass


def work(item):
    bse = import_bse()
    key, ver, data_dir, table_rel, display = item[:5]
    siblings = item[5] if len(item) > 5 else []
    out = dict(key=key, ver=ver, table=table_rel)
    kw = {} if data_dir is None else dict(data_dir=data_dir)
    dd = data_dir or bse.get_data_dir()
    # a prior call history in this process: basis sets that share element files with this one are retrieved first with options that
    # rewrite their (private) copy in place, and the values handed out are scribbled over.  None of this may show in what follows.
    prior_history(bse, siblings, kw)
    for sk, sv in []:
        try:
            h = bse.get_basis(sk, version=sv, uncontract_segmented=True, uncontract_spdf=True, **kw)
            h2 = bse.get_basis(sk, version=sv, **kw)
            for el in h2['elements'].values():
                for shl in el.get('electron_shells', []):
                    shl['exponents'].clear()
                el.pop('references', None)
            h2['elements'].clear()
        except Exception:
            pass
    out['history'] = [list(x) for x in siblings]
    try:
        r = bse.get_basis(key, version=ver, **kw)
        out['impl'] = ('ok', odump(r))
        out['hash'] = hashlib.sha1(out['impl'][1].encode()).hexdigest()
        # the same (name, version) with the version given as a number
        if ver.isdecimal():
            try:
                out['int_version_same'] = (odump(bse.get_basis(key, version=int(ver), **kw)) == out['impl'][1])
            except Exception as e:
                out['int_version_same'] = False
    except Exception as e:
        out['impl'] = ('err', type(e).__name__)
        r = None
    files = closure(dd, table_rel)
    out['nfiles'] = len(files)
    try:
        sp = recompose(files, table_rel, display)
        out['spec'] = ('ok', odump(sp))
    except Exception as e:
        out['spec'] = ('err', type(e).__name__)
    out['req'] = dict(op='compose_table', files=enc(files), path=table_rel)
    if r is not None:
        out['summary'] = dict(elements=len(r['elements']), function_types=r['function_types'], version=r['version'])
    return out


def judge(R, ctx, outs, site, expect_error=None):
    reqs, meta = [], []
    for o in outs:
        R.ev()
        w = dict(name=o['key'], version=o['ver'], table=o['table'], history=o.get('history', []))
        impl, spec = o['impl'], o['spec']
        if impl[0] == 'ok':
            if o.get('int_version_same') is False:
                R.violation('version_int_str', site, 'the version given as int selects other data than the same version given as str', w)
            R.nt(o['hash'])
            R.sample(dict(w, **o['summary']))
            if spec[0] == 'ok' and spec[1] != impl[1]:
                a, b = json.loads(impl[1]), json.loads(spec[1])
                diffk = [k for k in list(dict.fromkeys(list(a) + list(b))) if a.get(k) != b.get(k)] or ['(order of keys / elements)']
                R.violation('equals_designated_data', site, 'get_basis differs from the data the chain designates in: %s' % diffk[:5], w, keys=diffk[:5])
            if spec[0] == 'err':
                R.violation('inconsistent_chain_refused', site, 'an inconsistent chain (%s) was composed instead of refused' % spec[1], w, planted=expect_error)
        else:
            R.nt(('refusal', o['key'], o['ver'], impl[1]))
            R.count('refused:' + impl[1])
            if spec[0] == 'ok':
                R.violation('composes_consistent_chain', site, 'get_basis raises %s on a consistent chain' % impl[1], w)
        if ctx.model_ok:
            reqs.append(o['req'])
            meta.append(o)
    if ctx.model_ok and reqs:
        ans = drive(reqs)
        for a, o in zip(ans, meta):
            if 'drv_error' in a:
                raise DriverError(a['drv_error'])
            impl = o['impl']
            inp = dict(name=o['key'], version=o['ver'], table=o['table'])
            if 'raise' in a:
                if impl[0] == 'ok':
                    R.disagree('compose_table', inp, 'raise ' + a['raise'], 'ok', note='model refuses, implementation composes')
                elif impl[1] != a['raise'] and not (impl[1] == 'JSONDecodeError'):
                    R.disagree('compose_table', inp, 'raise ' + a['raise'], 'raise ' + impl[1], note='different error class')
            else:
                if impl[0] != 'ok':
                    R.disagree('compose_table', inp, 'ok', 'raise ' + impl[1], note='model composes, implementation refuses')
                else:
                    m = dec(a['ok'])
                    r = json.loads(impl[1])
                    m['name'] = r.get('name')   # get_basis overrides the name with the index display name (checked by the spec side)
                    if odump(m) != impl[1]:
                        R.disagree('compose_table', inp, '(dictionary)', '(dictionary)', note='composed dictionaries differ')
        R.extra['traces_validated_against_model'] = R.extra.get('traces_validated_against_model', 0) + len(reqs)


def run(ctx):
    bse = import_bse()
    R = Result('C01')
    md = bse.get_metadata()
    pairs = sample_pairs(ctx, ctx.n(110, 10 ** 6))
    # which index entries share an element file with which (their composition reads the same component data)
    dd = bse.get_data_dir()
    users = {}
    for k, e in md.items():
        for v, ve in e['versions'].items():
            try:
                with open(os.path.join(dd, ve['file_relpath']), encoding='utf-8') as fh:
                    for ef in set(json.load(fh)['elements'].values()):
                        users.setdefault(ef, []).append((k, v))
            except Exception:
                pass
    sib = {}
    for ef, us in users.items():
        for u in us:
            sib.setdefault(u, [])
            sib[u] += [w for w in us if w != u and w not in sib[u]]
    rs = random.Random('c01-hist-%d' % ctx.seed)
    items = [(k, v, None, md[k]['versions'][v]['file_relpath'], md[k]['display_name'],
              rs.sample(sorted(sib.get((k, v), [])), min(2, len(sib.get((k, v), []))))) for k, v in pairs]
    R.extra['entries_checked_after_sibling_history'] = len([1 for it in items if it[5]])
    emptied = 0
    for i in range(0, len(items), 45):
        outs = pmap(work, items[i:i + 45])
        # the nine component files emptied in this sandbox: must be refused (RuntimeError: JSON errors)
        keep = []
        for o in outs:
            if o['impl'] == ('err', 'RuntimeError') and o['spec'][0] == 'err':
                emptied += 1
                R.ev()
                R.count('refused:emptied-data-file')
                continue
            keep.append(o)
        judge(R, ctx, keep, 'api.get_basis')
    R.extra['store_entries'] = len(pairs)
    R.extra['refused_because_data_file_emptied'] = emptied
    # synthetic directories
    tmp = ctx.tmpdir()
    rng = ctx.rng
    nd = ctx.n(36, 500)
    for i in range(nd):
        defect = None if i % 3 else rng.choice(gendir.DEFECTS)
        files, index, info = gendir.gen_dir(rng, defect=defect)
        d = os.path.join(tmp, 'dir%d' % i)
        os.makedirs(d)
        gendir.write_dir(d, files, index)
        items = [(k, v, d, index[k]['versions'][v]['file_relpath'], index[k]['display_name']) for k, vs in info['bases'] for v in vs]
        outs = [work(it) for it in items]
        judge(R, ctx, outs, 'api.get_basis(data_dir)', expect_error=defect)
        if defect:
            R.count('planted:' + defect)
            # the planted defect must be refused for the version it sits in
            key, v, z = info['defect_at']
            hit = [o for o in outs if o['key'] == key and o['ver'] == v]
            if defect in ('missing_element_in_component', 'two_ecps') and hit and hit[0]['impl'][0] == 'ok':
                R.violation('inconsistent_chain_refused', 'api.get_basis(data_dir)', 'planted %s was composed, not refused' % defect,
                            dict(defect=defect, at=info['defect_at']), planted=defect)
        shutil.rmtree(d, ignore_errors=True)
    R.extra['synthetic_dirs'] = nd
    return R


def replay(ctx, payload):
    bse = import_bse()
    w = payload['witness']
    md = bse.get_metadata()
    if w.get('name') not in md:
        print('witness is a synthetic directory; re-run the check with the same VERIF_SEED')
        return False
    e = md[w['name']]
    files = closure(bse.get_data_dir(), e['versions'][w['version']]['file_relpath'])
    sp = recompose(files, e['versions'][w['version']]['file_relpath'], e['display_name'])
    prior_history(bse, [tuple(x) for x in w.get('history', [])], {})
    r = bse.get_basis(w['name'], version=w['version'])
    ok = odump(sp) == odump(r)
    print('get_basis equals designated data:', ok)
    return ok
