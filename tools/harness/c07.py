"""C07 — uncontract_segmented, remove_free_primitives, optimize_general do what they are defined to do."""
import itertools
from common import *
from harness.shells import *

LEVEL = 'proof'
RULE = ('store basis/versions (sample in quick, all in thorough) and generated dictionaries (free primitives shared between contractions, duplicated '
        'exponents across shells, fused shells) x {uncontract_segmented, remove_free_primitives, optimize_general} called directly and through '
        'get_basis alone and combined with the other flags; one case = (basis, element, op). Non-trivial = the operation changed the element.')
ASSUMPTIONS = ['Faithful numbers (measured per run)', 'span equality is decided in exact rational arithmetic by the harness (Gaussian elimination over Fraction)']
TRUSTED = ['python fractions']

DIRECT = ['uncontract_segmented', 'remove_free_primitives', 'optimize_general']
PIPE = [dict(uncontract_segmented=True), dict(remove_free_primitives=True), dict(optimize_general=True),
        dict(uncontract_segmented=True, uncontract_spdf=True), dict(uncontract_segmented=True, make_general=True),
        dict(remove_free_primitives=True, uncontract_general=True), dict(remove_free_primitives=True, make_general=True),
        dict(optimize_general=True, uncontract_general=True), dict(optimize_general=True, uncontract_spdf=True),
        dict(optimize_general=True, make_general=True), dict(remove_free_primitives=True, optimize_general=True),
        dict(uncontract_segmented=True, optimize_general=True)]


def rank(rows):
    rows = [list(r) for r in rows if any(r)]
    rk = 0
    ncol = len(rows[0]) if rows else 0
    for c in range(ncol):
        piv = None
        for i in range(rk, len(rows)):
            if rows[i][c] != 0:
                piv = i
                break
        if piv is None:
            continue
        rows[rk], rows[piv] = rows[piv], rows[rk]
        pv = rows[rk][c]
        for i in range(rk + 1, len(rows)):
            if rows[i][c] != 0:
                f = rows[i][c] / pv
                rows[i] = [a - f * b for a, b in zip(rows[i], rows[rk])]
        rk += 1
        if rk == len(rows):
            break
    return rk


def same_span(fa, fb):
    """fa, fb: lists of term tuples ((e, c), ...) of one momentum"""
    xs = sorted(set(e for f in fa + fb for e, _ in f))
    idx = {e: i for i, e in enumerate(xs)}

    def vec(f):
        v = [Fraction(0)] * len(xs)
        for e, c in f:
            v[idx[e]] = c
        return v
    A = [vec(f) for f in fa]
    B = [vec(f) for f in fb]
    ra, rb, rab = rank(A), rank(B), rank(A + B)
    return ra == rb == rab


def by_am(funcs):
    d = {}
    for l, terms in funcs:
        d.setdefault(l, []).append(terms)
    return d


def expect(kind, fin):
    """expected function set of the specification, from the input's function multiset"""
    if kind == 'useg':
        return set((l, ((e, Fraction(1)),)) for l, terms in fin for e, c in terms) | \
            set()
    if kind == 'rf':
        return set(f for f in fin if len(f[1]) >= 2)
    return None


def prims_of(el):
    s = set()
    for sh in el.get('electron_shells', []):
        for l in sh['angular_momentum']:
            for e in sh['exponents']:
                s.add((l, frac(e)))
    return s


def judge(op, args, el, el2):
    """returns list of (rule, what) the element's result breaks"""
    bad = []
    fin = el_funcs_multiset(el) if 'electron_shells' in el else []
    fout = el_funcs_multiset(el2) if 'electron_shells' in el2 else []
    sin, sout = set(fin), set(fout)
    useg = op == 'uncontract_segmented' or args.get('uncontract_segmented')
    rf = op == 'remove_free_primitives' or args.get('remove_free_primitives')
    og = op == 'optimize_general' or args.get('optimize_general')
    if useg and not rf and not og:
        want = set((l, ((e, Fraction(1)),)) for (l, e) in prims_of(el))
        if sout != want:
            bad.append(('useg_spec', 'result is not one unit function per (momentum, exponent) primitive'))
        if op == 'pipeline' and len(fout) != len(sout):
            bad.append(('useg_exactly_one', 'a primitive occurs more than once after get_basis(uncontract_segmented)'))
    elif rf and not useg and not og:
        want = set(f for f in sin if len(f[1]) >= 2)
        if sout != want:
            bad.append(('rf_spec', 'result is not exactly the input functions that contract two or more primitives'))
        # a primitive is unused when every column of its shell has a zero for it (in a fused shell a zero in one member's column is not that)
        if any(all(frac(c[i]) == 0 for c in sh['coefficients']) for sh in el2.get('electron_shells', []) for i in range(len(sh['exponents']))):
            bad.append(('rf_spec', 'an unused primitive is left'))
    elif og and not useg:
        base = [f for f in fin if len(f[1]) >= 2] if rf else fin
        a, b = by_am(base), by_am(fout)
        for l in set(a) | set(b):
            if not same_span(a.get(l, []), b.get(l, [])):
                bad.append(('og_span', 'linear span differs for l=%d' % l))
                break
        if sum(len(t) for _, t in set(fout)) > sum(len(t) for _, t in set(base)):
            bad.append(('og_nnz', 'more non-zero coefficients than the general-contracted input'))
    elif useg and og:
        # optimise first, then every primitive on its own: still one unit function per primitive
        want = set((l, ((e, Fraction(1)),)) for (l, e) in prims_of(el))
        if sout != want:
            bad.append(('useg_spec', 'result is not one unit function per primitive'))
    return bad


def work(item):
    bse = import_bse()
    from basis_set_exchange import manip
    label, src = item
    out = dict(label=label, cases=[], unfaithful=0, error=None)
    try:
        if isinstance(src, dict):
            b, name = src, None
        else:
            name, ver = src
            b = bse.get_basis(name, version=ver)
    except Exception as e:
        out['error'] = '%s: %s' % (type(e).__name__, str(e)[:100])
        return out
    if not wf_basis(b):
        out['error'] = 'not-WF'
        return out
    out['unfaithful'] = faithful(list(all_numbers(b)))
    runs = [(op, {}) for op in DIRECT]
    if name is not None:
        runs += [('pipeline', a) for a in PIPE]
    for op, args in runs:
        rec = dict(op=op, args=args, els=[], raised=None)
        bb = copy.deepcopy(b)
        try:
            if op == 'pipeline':
                r = bse.get_basis(name, version=ver, **args)
            else:
                r = getattr(manip, op)(bb)
        except Exception as e:
            rec['raised'] = '%s: %s' % (type(e).__name__, str(e)[:120])
            out['cases'].append(rec)
            continue
        for z, el in b['elements'].items():
            el2 = r['elements'].get(z)
            if el2 is None:
                rec['els'].append(dict(z=z, missing=True))
                continue
            e = dict(z=z, ecp_same=(ecp_of(el) == ecp_of(el2)), has=('electron_shells' in el))
            if 'electron_shells' in el:
                e['bad'] = judge(op, args, el, el2)
                e['in'], e['out'] = shells_of(el), copy.deepcopy(shells_of(el2))
                e['changed'] = e['in'] != e['out']
                # independent facts for the known-finding matchers
                e['shared_prims'], e['shared_nonidentical'] = shared_facts(el)
            rec['els'].append(e)
        out['cases'].append(rec)
        # the caller edits what it was given, in place (removes a primitive, overwrites numbers): the next results - of any call in this
        # process - must be built from fresh lists
        for el2 in r['elements'].values():
            for sh in el2.get('electron_shells', []):
                for col in sh['coefficients']:
                    if col:
                        col.pop()
                if sh['exponents']:
                    sh['exponents'][0] = '0.123'
    return out


def evaluate(ctx, R, results):
    reqs, meta = [], []
    for out in results:
        if out['error']:
            R.count('skip:' + out['error'].split(':')[0])
            continue
        R.extra['unfaithful_numbers'] = R.extra.get('unfaithful_numbers', 0) + out['unfaithful']
        for rec in out['cases']:
            site = 'api.get_basis' if rec['op'] == 'pipeline' else 'manip.' + rec['op']
            if rec['raised']:
                R.ev()
                # optimize_general documents one refusal: a primitive free in two columns
                if 'duplicate shells' in rec['raised']:
                    R.count('refused:duplicate-free-primitive')
                    continue
                R.violation('total_on_wf', site, 'raises on a well-formed basis: ' + rec['raised'], dict(basis=out['label'], op=rec['op'], args=rec['args']),
                            op=rec['op'], flags=sorted(rec['args']))
                continue
            for e in rec['els']:
                R.ev()
                w = dict(basis=out['label'], op=rec['op'], args=rec['args'], element=e['z'])
                if e.get('missing'):
                    R.violation('elements_kept', site, 'an element disappeared', w, op=rec['op'])
                    continue
                if not e['ecp_same']:
                    R.violation('ecp_untouched', site, 'ECP data changed', w, op=rec['op'])
                if not e['has']:
                    continue
                for rule, what in e['bad']:
                    w2 = dict(w)
                    w2['input_shells'] = e['in']
                    R.violation(rule, site, what, w2, op=rec['op'], flags=sorted(rec['args']), shared_prims=e['shared_prims'],
                                shared_nonidentical=e['shared_nonidentical'], useg=bool(rec['op'] == 'uncontract_segmented' or rec['args'].get('uncontract_segmented')))
                if e['changed']:
                    R.nt(jdump([rec['op'], rec['args'], e['in']]))
                R.count('op:%s%s' % (rec['op'], ','.join(sorted(rec['args']))))
                R.sample(dict(basis=out['label'], op=rec['op'], args=rec['args'], element=e['z'], nshells_in=len(e['in']), nshells_out=len(e['out'])))
                if ctx.model_ok:
                    if rec['op'] == 'pipeline':
                        reqs.append(dict(op='pipeline', opts=rec['args'], shells=e['in']))
                    else:
                        reqs.append(dict(op='manip', fn=rec['op'], shells=e['in']))
                    meta.append((out['label'], rec, e))
    if ctx.model_ok and reqs:
        ans = drive(reqs)
        for a, (label, rec, e), rq in zip(ans, meta, reqs):
            if 'drv_error' in a:
                raise DriverError(a['drv_error'] + ' on ' + jdump(rq)[:300])
            inp = dict(basis=label, args=rec['args'], element=e['z'], shells=e['in'])
            if 'raise' in a:
                R.disagree(rec['op'], inp, 'raise: ' + a['raise'], 'ok', note='model raises, implementation returns')
            elif a['ok'] != e['out']:
                R.disagree(rec['op'], inp, a['ok'], e['out'], note='shell lists differ')
        R.extra['traces_validated_against_model'] = R.extra.get('traces_validated_against_model', 0) + len(reqs)


def run(ctx):
    bse = import_bse()
    R = Result('C07')
    items = [('corpus/' + n, b) for n, b in corpus_bases('C07')]
    pairs = sample_pairs(ctx, ctx.n(45, 10 ** 6))
    items += [('%s/%s' % p, p) for p in pairs]
    for i in range(ctx.n(300, 4000)):
        items.append(('gen%d' % i, genbasis.gen_basis(ctx.rng, kinds=['general', 'shared', 'pople', 'plain', 'ecp'])))
    for i in range(0, len(items), 60):
        evaluate(ctx, R, pmap(work, items[i:i + 60]))
    R.extra['store_entries'] = len(pairs)
    return R


def replay(ctx, payload):
    bse = import_bse()
    from basis_set_exchange import manip
    w = payload['witness']
    label = w['basis']
    if '/' in label and not label.startswith(('gen', 'corpus')):
        name, ver = label.rsplit('/', 1)
        b = bse.get_basis(name, version=ver)
        r = bse.get_basis(name, version=ver, **w['args']) if w['op'] == 'pipeline' else getattr(manip, w['op'])(b)
    else:
        b = dict(elements={w['element']: dict(electron_shells=w['input_shells'])}, function_types=[])
        r = getattr(manip, w['op'])(b)
    bad = judge(w['op'], w['args'], b['elements'][w['element']], r['elements'][w['element']])
    print('rules broken:', bad)
    return not bad
