"""C04 — every writer emits every number of the basis, unrounded."""
import re, itertools
from decimal import Decimal, InvalidOperation
from common import *
from harness.shells import *

LEVEL = 'proof'
RULE = ('all writer formats x store basis/versions (a sample: 15 in quick, 400 in thorough, the corpus first) x sampled element subsets, and generated dictionaries (mixed number '
        'notations, l up to 12, ECP-only, fused); one case = (basis, format): every exponent, every non-zero coefficient of every multi-primitive function '
        '(in the contraction form the format prescribes) and every ECP number must occur among the text tokens with its exact decimal value; every element '
        'named; ECP electron counts stated. Gate: all 29 formats x all 64 subsets of the six function types (exhaustive). write_matrix: model vs implementation '
        'on the matrices of the sampled shells. Non-trivial = distinct text (hash).')
ASSUMPTIONS = ['ACES II and CRYSTAL may round (checked at relative 1e-6 / the printed width)', 'ricdwrap carries orbital functions only',
               'pqs glues the shell letter to the first exponent: a leading letter is stripped from tokens of that format']
TRUSTED = ['the tokeniser and the exact-decimal comparison of the harness']

SEGMENTED = {'gaussian94', 'gaussian94lib', 'psi4', 'xtron', 'qchem', 'gamess_us', 'gamess_uk', 'turbomole', 'crystal', 'jaguar', 'fhiaims', 'demon2k', 'orca'}
ROUNDING = {'acesii', 'crystal'}
numre = re.compile(r'^[-+]?(\d+\.?\d*|\.\d+)([eEdD][-+]?\d+)?$')
TYPES = ['gto', 'gto_spherical', 'gto_cartesian', 'sto', 'scalar_ecp', 'spinorbit_ecp']


def D(x):
    return Decimal(x.strip().replace('D', 'E').replace('d', 'e'))


def toks(t, fmt):
    out = set()
    if fmt == 'acesii':
        # ACES II is a fixed-column format (exponents 5F14.7: the writer fills all 14 columns for exponents >= 1e5, so two
        # numbers can touch); a line with touching numbers is read the way the program reads it, in 14-character fields
        lines = []
        for line in t.split('\n'):
            if any(w.count('.') > 1 for w in line.split()):
                line = ' '.join(line[i:i + 14] for i in range(0, len(line), 14))
            lines.append(line)
        t = '\n'.join(lines)
    words = re.split(r'[\s,;:()=\[\]{}"]+', t)
    for w in words:
        if fmt == 'pqs' and len(w) > 1 and w[0].isalpha() and numre.match(w[1:]):
            w = w[1:]
        if numre.match(w):
            try:
                out.add(D(w))
            except InvalidOperation:
                pass
    return out, words


def required(manip, b, fmt):
    if fmt in SEGMENTED:
        nb = manip.uncontract_general(b, True)
    elif fmt == 'veloxchem':
        nb = manip.uncontract_general(manip.optimize_general(b, True), True)
    else:
        nb = b
    req = []
    for z, el in nb['elements'].items():
        for sh in el.get('electron_shells', []):
            for e in sh['exponents']:
                req.append(('exponent', z, D(e)))
            for col in sh['coefficients']:
                nz = [D(c) for c in col if D(c) != 0]
                if len(nz) > 1:
                    for c in nz:
                        req.append(('coefficient', z, c))
        if fmt != 'ricdwrap':
            for p in el.get('ecp_potentials', []):
                for e in p['gaussian_exponents']:
                    req.append(('ecp_exponent', z, D(e)))
                for col in p['coefficients']:
                    for c in col:
                        if D(c) != 0:
                            req.append(('ecp_coefficient', z, D(c)))
    return req


def near(v, hs):
    """some printed token is the value rounded at that token's own printed width (half a unit in its last place);
    hs = sorted list of the printed values"""
    import bisect
    i = bisect.bisect_left(hs, v)
    for h in hs[max(0, i - 1):i + 1]:
        if h == v:
            return True
        q = Decimal(1).scaleb(h.as_tuple().exponent)
        if abs(h - v) <= q * Decimal('0.5000001'):
            return True
    return False


def judge_text(bse, manip, lut, b, fmt, t):
    bad = []
    have, words = toks(t, fmt)
    hs = sorted(have)
    miss = []
    for kind, z, v in required(manip, b, fmt):
        if v in have:
            continue
        if fmt in ROUNDING and near(v, hs):
            continue
        miss.append((kind, z, str(v)))
    if miss:
        zs = sorted(set(m[1] for m in miss), key=int)
        bad.append(('number_missing', '%d numbers of the basis are not in the text, e.g. %s' % (len(miss), miss[:3]), dict(elements=zs[:8], maxZ=max(int(z) for z in zs),
                    ecp_only=all('electron_shells' not in b['elements'][z] for z in zs), kinds=sorted(set(m[0] for m in miss)))))
    low = t.lower()
    lw = set(w.lower().strip('.-*$!#') for w in words)
    for z, el in b['elements'].items():
        if fmt == 'ricdwrap' and 'electron_shells' not in el:
            continue
        sym = lut.element_sym_from_Z(z)
        name = lut.element_name_from_Z(z)
        if fmt == 'crystal' and (str(200 + int(z)) in lw or z in lw):
            pass
        elif not (sym in lw or name in low or z in lw or any(w.startswith(sym + '-') or w.startswith(sym + ':') or w.startswith(sym + '_') or w.startswith(sym + '.') for w in lw)
                or re.search(r'(?<![a-z])%s(?![a-z])' % re.escape(sym), low)):
            bad.append(('element_not_named', 'element %s (Z=%s) is not named in the text' % (sym, z), dict(elements=[z], maxZ=int(z), ecp_only='electron_shells' not in el)))
            break
        if 'ecp_electrons' in el and fmt != 'ricdwrap':
            if fmt == 'crystal' and Decimal(int(z) - el['ecp_electrons']) in have:
                continue     # CRYSTAL states the effective core charge Z - n
            if Decimal(el['ecp_electrons']) not in have and str(el['ecp_electrons']) not in lw and not re.search(r'(?<!\d)%d(?!\d)' % el['ecp_electrons'], t):
                bad.append(('ecp_electrons_missing', 'ECP electron count %d of Z=%s is not stated' % (el['ecp_electrons'], z), dict(elements=[z], maxZ=int(z), ecp_only='electron_shells' not in el)))
                break
    return bad


def work(item):
    bse = import_bse()
    from basis_set_exchange import writers, manip, lut, printing
    import random
    label, src, seed = item
    rng = random.Random(seed)
    out = dict(label=label, cases=[], mats=[], error=None)
    try:
        b = src if isinstance(src, dict) else bse.get_basis(src[0], version=src[1])
    except Exception as e:
        out['error'] = type(e).__name__
        return out
    subsets = [None]
    zs = list(b['elements'])
    if len(zs) > 2:
        subsets.append(sorted(rng.sample(zs, rng.randrange(1, min(4, len(zs)))), key=int))
    from basis_set_exchange import compose
    for sub in subsets:
        bb = b
        if sub is not None:
            bb = dict(b)
            bb['elements'] = {z: b['elements'][z] for z in sub}
            bb['function_types'] = compose._whole_basis_types(bb)
        # one dictionary object goes through all the writers, in an order of its own: a writer that edits what it was given spoils
        # what the later ones write, and each text is judged against the dictionary as it was before the first of them
        b_before = copy.deepcopy(bb)
        order = list(writers.get_writer_formats())
        rng.shuffle(order)
        for fmt in order:
            rec = dict(fmt=fmt, subset=sub, bad=[])
            try:
                t = writers.write_formatted_basis_str(bb, fmt)
            except Exception as e:
                rec['refused'] = '%s: %s' % (type(e).__name__, str(e)[:80])
                rec['gate'] = 'does not support all function types' in str(e)
                out['cases'].append(rec)
                continue
            rec['hash'] = hashlib.sha1(t.encode()).hexdigest()
            try:
                rec['bad'] = judge_text(bse, manip, lut, b_before, fmt, t)
            except Exception as e:
                rec['bad'] = [('judge_crashed', '%s: %s' % (type(e).__name__, str(e)[:80]), {})]
            out['cases'].append(rec)
    # matrices for the write_matrix correspondence
    for z, el in list(b['elements'].items())[:2]:
        for sh in el.get('electron_shells', [])[:3]:
            cols = [sh['exponents']] + sh['coefficients']
            pp = [8 * i + 15 * (i - 1) for i in range(1, len(cols) + 1)]
            for conv in (False, True):
                out['mats'].append((cols, pp, conv, printing.write_matrix(cols, pp, conv), [False] * len(cols)))
        for p in el.get('ecp_potentials', [])[:2]:
            cols = [p['r_exponents'], p['gaussian_exponents']] + p['coefficients']
            pp = [0, 10, 33]
            try:
                out['mats'].append((cols, pp[:len(cols)] + [33 + 23 * k for k in range(1, len(cols))], False,
                                    printing.write_matrix(cols, pp[:len(cols)] + [33 + 23 * k for k in range(1, len(cols))], False), [True] + [False] * (len(cols) - 1)))
            except Exception:
                pass
    return out


def run(ctx):
    bse = import_bse()
    from basis_set_exchange import writers
    R = Result('C04')
    items = [('%s/%s' % p, p, '%s-%d' % (p[0], ctx.seed)) for p in sample_pairs(ctx, ctx.n(15, 400))]
    for i in range(ctx.n(30, 800)):
        g = genbasis.gen_basis(ctx.rng, kinds=(['ecpgap', 'ecpsingle', 'plain'] if i % 6 == 5 else None))
        if i % 3 == 1:
            # the role is free text for most writers but steers some (Q-Chem: $basis / $aux_basis); an ECP next to a fitting role is legal
            g['role'] = ctx.rng.choice(['jkfit', 'rifit', 'guess', 'admmfit'])
        if i % 10 == 7:
            # the two elements whose symbols have three letters (Uue, Ubn), at the end so that the elements stay in increasing order
            n_ = len(g['elements'])
            g['elements'] = {('120' if k == n_ - 1 and n_ > 1 else '119' if k == max(n_ - 2, 0) else z): el for k, (z, el) in enumerate(g['elements'].items())}
        items.append(('gen%d' % i, g, 'g%d' % i))
    reqs, meta = [], []
    B = 450
    for i in range(0, len(items), B):
        for out in pmap(work, items[i:i + B]):
            if out['error']:
                R.count('skip:' + out['error'])
                continue
            for rec in out['cases']:
                R.ev()
                w = dict(basis=out['label'], fmt=rec['fmt'], elements=rec['subset'])
                if 'refused' in rec:
                    R.count('refused:' + ('gate' if rec['gate'] else rec['refused'].split(':')[0]))
                    continue
                R.nt(rec['hash'])
                R.count('fmt:' + rec['fmt'])
                for rule, what, f in rec['bad']:
                    R.violation(rule, 'writers.' + rec['fmt'], what, w, fmt=rec['fmt'], **{k: v for k, v in f.items() if k in ('maxZ', 'ecp_only', 'kinds')},
                                z_ge_99=(f.get('maxZ', 0) >= 99))
            for cols, pp, conv, text, ints in out['mats']:
                reqs.append(dict(op='write_matrix', cols=[[dict(t=str(x), i=isint) for x in col] for col, isint in zip(cols, ints)], pp=pp, conv=conv))
                meta.append(('mat', out['label'], text))
            R.sample(dict(basis=out['label'], formats=len(out['cases'])))
    # the gate, exhaustively
    ngate = 0
    for fmt in writers.get_writer_formats():
        for r in range(0, 7):
            for sub in itertools.combinations(TYPES, r):
                d = dict(function_types=list(sub), elements={}, name='x', description='', version='0', revision_description='', role='orbital', family='x', names=['x'])
                try:
                    writers.write_formatted_basis_str(d, fmt)
                    gate_raised = False
                except RuntimeError as e:
                    gate_raised = 'does not support all function types' in str(e)
                except Exception:
                    gate_raised = False
                ngate += 1
                R.ev()
                reqs.append(dict(op='gate', fmt=fmt, types=list(sub)))
                meta.append(('gate', (fmt, sub), gate_raised))
    R.extra['gate_cases'] = ngate
    if ctx.model_ok and reqs:
        ans = drive(reqs)
        for a, (kind, w, want) in zip(ans, meta):
            if 'drv_error' in a:
                raise DriverError(a['drv_error'])
            if kind == 'mat':
                got = ''.join(l + '\n' for l in a.get('lines', []))
                if got != want:
                    R.disagree('write_matrix', dict(basis=w), got[:200], want[:200], note='printed matrix differs')
            else:
                if a.get('ok') == want:   # model says the gate is open (ok=True) <=> implementation did not raise the gate error
                    R.disagree('gate', dict(fmt=w[0], types=list(w[1])), 'gate open' if a.get('ok') else 'gate closed', 'gate closed' if want else 'gate open')
        R.extra['traces_validated_against_model'] = len(reqs)
    R.exhaustive = False
    return R


def replay(ctx, payload):
    bse = import_bse()
    from basis_set_exchange import writers, manip, lut
    w = payload['witness']
    if '/' not in w['basis'] or w['basis'].startswith('gen'):
        print('generated basis: re-run with the same VERIF_SEED')
        return False
    name, ver = w['basis'].rsplit('/', 1)
    b = bse.get_basis(name, version=ver, elements=w.get('elements'))
    t = writers.write_formatted_basis_str(b, w['fmt'])
    bad = judge_text(bse, manip, lut, b, w['fmt'], t)
    print(bad[:3])
    return not bad
