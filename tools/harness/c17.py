"""C17 — adding a basis to a data directory stores exactly it and overwrites nothing."""
import json, os, shutil, datetime, multiprocessing as mp
from common import *
from harness.shells import *
from harness.c01 import enc, dec

LEVEL = 'proof'
RULE = ('random sequences (length 1..8) of add_basis_from_dict / add_basis (gaussian94, nwchem, turbomole files) / add_from_components on fresh temporary '
        'directories, with repeated names, new versions, names that differ only in case or contain * and /, names already used by another file base, reference '
        'maps in str / list / dict form, and deliberately invalid inputs. After every step: every earlier file unchanged, index = its regeneration, retrieval in a '
        'fresh process, newest version default; invalid input leaves the directory byte-for-byte unchanged. One case = one step. Non-trivial = distinct step.')
ASSUMPTIONS = ['the date written into table files is today\'s date (passed to the model)', 'validation of the generated element/table skeletons succeeds (they are built by the library)']
TRUSTED = ['the file system as a path -> bytes map']


def snapshot(d):
    out = {}
    for root, dirs, files in os.walk(d):
        for f in files:
            p = os.path.join(root, f)
            out[os.path.relpath(p, d)] = open(p, 'rb').read()
    return out


def fresh_get(args):
    """runs in a forked child that never touched this directory: get_basis / references"""
    d, name, version = args
    bse = import_bse()
    try:
        b = bse.get_basis(name, version=version, data_dir=d)
        return ('ok', b)
    except Exception as e:
        return ('err', '%s: %s' % (type(e).__name__, str(e)[:100]))


def in_child(fn, arg):
    """run fn(arg) in a forked child of this process (a fresh process as far as the library's caches for this directory go)"""
    import pickle
    r, w = os.pipe()
    pid = os.fork()
    if pid == 0:
        try:
            os.close(r)
            try:
                res = fn(arg)
            except BaseException as e:
                res = ('err', 'child: %s' % type(e).__name__)
            with os.fdopen(w, 'wb') as fh:
                pickle.dump(res, fh)
        finally:
            os._exit(0)
    os.close(w)
    with os.fdopen(r, 'rb') as fh:
        data = fh.read()
    os.waitpid(pid, 0)
    return pickle.loads(data)


def regen_index(args):
    d = args
    bse = import_bse()
    from basis_set_exchange import curate
    import tempfile
    out = os.path.join(tempfile.mkdtemp(prefix='bsev_idx_'), 'M.json')
    try:
        curate.create_metadata_file(out, d)
        r = ('ok', json.load(open(out)))
    except Exception as e:
        r = ('err', type(e).__name__)
    shutil.rmtree(os.path.dirname(out), ignore_errors=True)
    return r


def component_of(b):
    """a generated 'complete' dictionary as the caller of add_basis_from_dict would hold it (component-like, no references)"""
    els = {}
    for z, el in b['elements'].items():
        e = {k: copy.deepcopy(v) for k, v in el.items() if k != 'references'}
        els[z] = e
    return dict(molssi_bse_schema=dict(schema_type='component', schema_version='0.1'), elements=els)


def refs_form(rng, zs):
    from basis_set_exchange import misc
    form = rng.choice(['none', 'str', 'list', 'dict', 'dict2', 'dict_partial'])
    want = {}
    if form == 'none':
        return None, {z: [] for z in zs}
    if form == 'str':
        return 'ref1', {z: ['ref1'] for z in zs}
    if form == 'list':
        return ['ref1', 'ref2'], {z: ['ref1', 'ref2'] for z in zs}
    zs = sorted(zs, key=int)
    if form == 'dict':
        return {misc.compact_elements(zs): ['ref3']}, {z: ['ref3'] for z in zs}
    k = max(1, len(zs) // 2)
    a, b = zs[:k], zs[k:]
    if form == 'dict2' and b:
        return {misc.compact_elements(a): 'ref1', ','.join(b): ['ref2', 'ref4']}, dict({z: ['ref1'] for z in a}, **{z: ['ref2', 'ref4'] for z in b})
    return {misc.compact_elements(a): ['ref5']}, dict({z: ['ref5'] for z in a}, **{z: [] for z in b})


def refs_wire(refs):
    if refs is None:
        return dict(kind='none')
    if isinstance(refs, str):
        return dict(kind='one', key=refs)
    if isinstance(refs, list):
        return dict(kind='many', keys=refs)
    if isinstance(refs, dict):
        return dict(kind='map', pairs=[[k, v] for k, v in refs.items()])
    return dict(kind='other')


def dict_req(before, bs, file_base, name, family, desc, version, rev, refs, today, idx, subdir='sub'):
    files_before = {p: json.loads(v) for p, v in before.items() if p.endswith('.json')}
    return (dict(op='add_basis_from_dict', files=enc(files_before), basis=enc(bs), refs=refs_wire(refs),
                 req=dict(subdir=subdir, file_base=file_base, name=name, family=family, role='orbital', description=desc, version=version,
                          revision_description=rev, data_source='source', today=today)), idx)


def run_sequence(item):
    bse = import_bse()
    from basis_set_exchange import curate, writers, misc
    import random, tempfile
    seed, tmp = item
    rng = random.Random(seed)
    d = tempfile.mkdtemp(prefix='seq_', dir=tmp)
    gendir_refs = {'molssi_bse_schema': dict(schema_type='references', schema_version='0.1')}
    for i in range(1, 6):
        gendir_refs['ref%d' % i] = dict(_entry_type='article', authors=['A, B.'], title='t%d' % i, journal='J', volume='1', pages='1', year='2000')
    json.dump(gendir_refs, open(os.path.join(d, 'REFERENCES.json'), 'w'))
    out = dict(seed=seed, steps=[], reqs=[])
    added = {}       # (name) -> {version: expected}
    bases = []       # (file_base, name, family)
    listed = {}      # name -> versions successfully added so far (all kinds)
    today = datetime.date.today().isoformat()
    nsteps = rng.randrange(1, 9)
    for step in range(nsteps):
        before = snapshot(d)
        g = genbasis.gen_basis(rng, kinds=rng.choice([['plain'], ['plain', 'pople'], ['general', 'ecp'], ['ecponly', 'plain']]))
        kind = rng.choice(['dict', 'dict', 'dict', 'file', 'components', 'components', 'invalid', 'repeat_version', 'taken_name'])
        # the sub-directory for the component / element files: the usual one, a second one, or one that does not exist yet
        subdir = rng.choice(['sub', 'sub', 'sub2', 'dir%d' % step])
        if bases and rng.random() < 0.45 and kind in ('dict', 'file'):
            file_base, name, family = rng.choice(bases)          # a new version of an existing basis
            version = str(max(int(v) for v in added.get(name, {'0': 0})) + 1)
        else:
            file_base = 'fb%d_%d' % (seed % 1000, step)
            if bases and rng.random() < 0.35:
                # a file base of which an existing one is a proper prefix ('fb7_1' / 'fb7_12'): the index builder and the retrieval
                # must keep the two apart
                file_base = rng.choice(bases)[0] + rng.choice(['2', 'x', '_b'])
                if rng.random() < 0.4:
                    # ... or a file base that differs from an existing one only in the case of its letters ('fb7_1' / 'FB7_1')
                    file_base = rng.choice(bases)[0].upper()
                if any(fb == file_base for fb, _, _ in bases):
                    file_base = 'fb%d_%d' % (seed % 1000, step)
            name = rng.choice(['My Basis %d', 'my-basis*%d', 'X/Y %d', 'UPPER%d'])
            name = name % step
            family = rng.choice(['famx', 'famy'])
            version = rng.choice(['0', '1'])
        comp = component_of(g)
        refs, want_refs = refs_form(rng, list(comp['elements']))
        rec = dict(step=step, kind=kind, name=name, file_base=file_base, version=version)
        expect_fail = False
        try:
            if kind == 'invalid':
                bad = copy.deepcopy(comp)
                z = rng.choice(list(bad['elements']))
                how = rng.choice(['zero_exp', 'no_elements', 'extra_key', 'bad_am'])
                if how == 'no_elements':
                    bad['elements'] = {}
                elif how == 'extra_key':
                    bad['elements'][z]['comment'] = 'x'
                elif 'electron_shells' in bad['elements'][z]:
                    sh = bad['elements'][z]['electron_shells'][0]
                    if how == 'zero_exp':
                        sh['exponents'][0] = '0.0'
                    else:
                        sh['angular_momentum'] = [-1]
                else:
                    bad['elements'][z]['ecp_electrons'] = 0
                expect_fail = True
                rec['how'] = how
                out['reqs'].append(dict_req(before, bad, file_base, name, family, 'desc ' + name, version, 'rev ' + version, refs, today, len(out['steps']), subdir))
                curate.add_basis_from_dict(bad, d, subdir, file_base, name, family, 'orbital', 'desc ' + name, version, 'rev ' + version, 'source', refs)
            elif kind == 'repeat_version' and bases:
                file_base, name, family = rng.choice(bases)
                version = rng.choice(sorted(added[name]))
                rec.update(name=name, file_base=file_base, version=version)
                expect_fail = True
                out['reqs'].append(dict_req(before, comp, file_base, name, family, 'desc ' + name, version, 'rev', refs, today, len(out['steps']), subdir))
                curate.add_basis_from_dict(comp, d, subdir, file_base, name, family, 'orbital', 'desc ' + name, version, 'rev', 'source', refs)
            elif kind == 'taken_name' and bases:
                _, name, family = rng.choice(bases)
                name = rng.choice([name, name.upper(), name.lower()])
                rec.update(name=name)
                expect_fail = True
                out['reqs'].append(dict_req(before, comp, file_base, name, family, 'desc', version, 'rev', refs, today, len(out['steps']), subdir))
                curate.add_basis_from_dict(comp, d, subdir, file_base, name, family, 'orbital', 'desc', version, 'rev', 'source', refs)
            elif kind == 'file':
                fmt = rng.choice(['gaussian94', 'nwchem', 'turbomole'])
                src = dict(g)
                if fmt == 'turbomole' and not any('electron_shells' in e for e in g['elements'].values()):
                    fmt = 'nwchem'
                p = os.path.join(tmp, 'in_%d_%d%s' % (seed, step, writers.write._writer_map[fmt]['extension']))
                writers.write_formatted_basis_file(g, p, fmt)
                rec['fmt'] = fmt
                curate.add_basis(p, d, subdir, file_base, name, family, 'orbital', 'desc ' + name, version, 'rev ' + version, 'source', refs, fmt)
            elif kind == 'components' and [p for p in before if p.count('/') == 1 and p.count('.') == 2 and p.endswith('.json')]:
                comps = [p for p in before if p.count('/') == 1 and p.count('.') == 2 and p.endswith('.json')]
                pick = rng.sample(comps, min(len(comps), rng.randrange(1, 3)))
                rec['comps'] = pick
                if bases and rng.random() < 0.4:
                    # again for a (file base, version) that is there already, possibly into a sub-directory that is not: must be refused, nothing overwritten
                    file_base, name, family = rng.choice(bases)
                    version = rng.choice(sorted(added[name]))
                    rec.update(name=name, file_base=file_base, version=version)
                    expect_fail = True
                    rec['repeat'] = True
                files_before = {p: json.loads(v) for p, v in before.items() if p.endswith('.json')}
                out['reqs'].append((dict(op='add_from_components', files=enc(files_before),
                                         req=dict(comps=pick, subdir=subdir, file_base=file_base, name=name, family=family, role='orbital', description='desc ' + name,
                                                  version=version, revision_description='rev ' + version, today=today)), len(out['steps'])))
                want_refs = None
                curate.add_from_components([os.path.join(d, p) for p in pick], d, subdir, file_base, name, family, 'orbital', 'desc ' + name, version, 'rev ' + version)
            else:
                kind = 'dict'
                rec['kind'] = 'dict'
                out['reqs'].append(dict_req(before, comp, file_base, name, family, 'desc ' + name, version, 'rev ' + version, refs, today, len(out['steps']), subdir))
                curate.add_basis_from_dict(copy.deepcopy(comp), d, subdir, file_base, name, family, 'orbital', 'desc ' + name, version, 'rev ' + version, 'source', refs)
            rec['raised'] = None
        except Exception as e:
            rec['raised'] = '%s: %s' % (type(e).__name__, str(e)[:100])
        after = snapshot(d)
        rec['bad'] = []
        # nothing overwritten
        for p, content in before.items():
            if p == 'METADATA.json':
                continue
            if after.get(p) != content:
                rec['bad'].append(('never_overwrites', 'existing file %s was %s' % (p, 'removed' if p not in after else 'changed')))
        # invalid input: byte-for-byte unchanged
        if kind == 'invalid':
            if rec['raised'] is None:
                rec['bad'].append(('invalid_refused', 'invalid input (%s) was accepted' % rec.get('how')))
            elif after != before:
                rec['bad'].append(('invalid_noop', 'invalid input (%s) changed the directory: %s' % (rec.get('how'), sorted(set(after) ^ set(before))[:3])))
        if expect_fail and kind != 'invalid' and rec['raised'] is None and (kind in ('repeat_version', 'taken_name') or rec.get('repeat')) and bases:
            rec['bad'].append(('refuses_existing', '%s was accepted' % ('add_from_components for an existing (file base, version)' if rec.get('repeat') else kind)))
        # index consistent with the directory
        if 'METADATA.json' in after:
            rg = in_child(regen_index, d)
            idx = json.loads(after['METADATA.json'])
            if rg[0] != 'ok':
                rec['bad'].append(('index_consistent', 'the index can no longer be regenerated (%s) after this step' % rg[1]))
            elif rg[1] != idx:
                rec['bad'].append(('index_consistent', 'METADATA.json differs from its regeneration'))
            else:
                # every name added so far lists exactly the versions added under it (nothing borrowed from another basis)
                from basis_set_exchange import misc as _misc
                if rec['raised'] is None and kind in ('dict', 'file', 'components'):
                    listed.setdefault(_misc.transform_basis_name(name), set()).add(version)
                for nm, vers in listed.items():
                    ent = idx.get(nm)
                    if ent is None or set(ent['versions']) != set(vers):
                        rec['bad'].append(('index_consistent', 'the index lists versions %s for %r, added were %s'
                                           % (sorted(ent['versions']) if ent else None, nm, sorted(vers))))
                        break
        rec['after_files'] = {p: json.loads(v) for p, v in after.items() if p.endswith('.json')}
        if rec['raised'] is None and kind in ('dict', 'file', 'components'):
            if kind != 'components':
                bases.append((file_base, name, family)) if (file_base, name, family) not in bases else None
                exp = dict(elements={z: dict(shells=el_funcs_multiset(el) if 'electron_shells' in el else None,
                                             ecp=(json.dumps(el.get('ecp_potentials'), sort_keys=True), el.get('ecp_electrons')) if kind == 'dict' else None,
                                             raw=el if kind == 'dict' else None, refs=want_refs[z]) for z, el in comp['elements'].items()})
                added.setdefault(name, {})[version] = exp
            # retrieval in a fresh process
            if kind != 'components':
                r = in_child(fresh_get, (d, name, version))
                if r[0] != 'ok':
                    rec['bad'].append(('retrievable', 'get_basis in a fresh process fails: ' + r[1]))
                else:
                    b = r[1]
                    exp = added[name][version]
                    if set(b['elements']) != set(exp['elements']):
                        rec['bad'].append(('retrievable', 'retrieved elements %s, supplied %s' % (sorted(b['elements'])[:5], sorted(exp['elements'])[:5])))
                    else:
                        for z, e in exp['elements'].items():
                            got = b['elements'][z]
                            if e['raw'] is not None:
                                if {k: v for k, v in got.items() if k != 'references'} != e['raw']:
                                    rec['bad'].append(('retrievable', 'Z=%s: stored data is not exactly the supplied data' % z))
                                    break
                            elif (el_funcs_multiset(got) if 'electron_shells' in got else None) != e['shells']:
                                rec['bad'].append(('retrievable', 'Z=%s: stored functions differ from the supplied file' % z))
                                break
                            keys = [k for r_ in got['references'] for k in r_['reference_keys']]
                            if keys != e['refs']:
                                rec['bad'].append(('references_stored', 'Z=%s: stored reference keys %s, supplied %s' % (z, keys, e['refs'])))
                                break
                    if b['version'] != version or b['description'] != 'desc ' + name and len(added[name]) == 1:
                        rec['bad'].append(('retrievable', 'version / description of the retrieved basis are not the supplied ones'))
                # every earlier addition is still retrievable and still carries its own data
                for nm, vers in added.items():
                    for v0, exp0 in vers.items():
                        if (nm, v0) == (name, version):
                            continue
                        r0 = in_child(fresh_get, (d, nm, v0))
                        if r0[0] != 'ok':
                            rec['bad'].append(('retrievable', 'after this step %r version %s can no longer be retrieved: %s' % (nm, v0, r0[1])))
                        elif set(r0[1]['elements']) != set(exp0['elements']) or any(
                                (el_funcs_multiset(r0[1]['elements'][z]) if 'electron_shells' in r0[1]['elements'][z] else None) != e0['shells']
                                for z, e0 in exp0['elements'].items()):
                            rec['bad'].append(('retrievable', 'after this step %r version %s no longer carries the data supplied for it' % (nm, v0)))
                # newest version is the default
                r = in_child(fresh_get, (d, name, None))
                if r[0] == 'ok' and r[1]['version'] != max(added[name]):
                    rec['bad'].append(('newest_is_default', 'default version %s, newest added %s' % (r[1]['version'], max(added[name]))))
                elif r[0] != 'ok':
                    rec['bad'].append(('newest_is_default', 'default retrieval fails: ' + r[1]))
        out['steps'].append(rec)
    shutil.rmtree(d, ignore_errors=True)
    return out


def run(ctx):
    bse = import_bse()
    R = Result('C17')
    tmp = ctx.tmpdir()
    nseq = ctx.n(90, 1200)
    items = [(ctx.seed * 100000 + i, tmp) for i in range(nseq)]
    reqs, meta = [], []
    for out in pmap(run_sequence, items, nproc=8):
        poisoned = False
        for rec in out['steps']:
            R.ev()
            R.nt((out['seed'], rec['step']))
            R.count('step:%s:%s' % (rec['kind'], 'raised' if rec['raised'] else 'ok'))
            if rec['raised'] and 'Differing function types' in rec['raised']:
                poisoned = True
            for rule, what in rec['bad']:
                R.violation(rule, 'curate.add_basis', what, cause=('differing-function-types' if poisoned and rule == 'index_consistent' else 'other'), witness=dict(sequence_seed=out['seed'], step=rec['step'], kind=rec['kind'], name=rec['name'], version=rec['version'], raised=rec['raised']))
        for rq, idx in out['reqs']:
            reqs.append(rq)
            meta.append((out['seed'], out['steps'][idx]))
        R.sample(dict(sequence_seed=out['seed'], steps=[(r['kind'], 'raised' if r['raised'] else 'ok') for r in out['steps']]))
    if ctx.model_ok and reqs:
        ans = drive(reqs)
        for a, (seed, rec) in zip(ans, meta):
            if 'drv_error' in a:
                raise DriverError(a['drv_error'])
            w = dict(sequence_seed=seed, step=rec['step'])
            opname = 'add_from_components'
            if 'if_valid' in a:
                # add_basis_from_dict: the model hands back the dictionary it would validate; the library's own validator gives the verdict
                opname = 'add_basis_from_dict'
                from basis_set_exchange import validator
                if isinstance(a['component'], dict) and 'raise' in a['component'] and '$o' not in a['component']:
                    a = a['if_valid']          # refused before validation (reference map): both branches are the same
                else:
                    try:
                        validator.validate_data('component', dec(a['component']))
                        a = a['if_valid']
                    except Exception:
                        a = a['if_invalid']
                R.count('model:add_basis_from_dict')
            m_raise = a['raise']
            i_raise = rec['raised'].split(':')[0] if rec['raised'] else None
            if (m_raise is None) != (i_raise is None):
                R.disagree(opname, w, 'raise %s' % m_raise, 'raise %s' % i_raise)
                continue
            got = dec(a['files'])
            want = rec['after_files']
            if set(got) != set(want):
                R.disagree(opname, w, sorted(got), sorted(want), note='files in the directory differ')
            else:
                for p in want:
                    if got[p] != want[p]:
                        R.disagree(opname, w, p, p, note='content of %s differs' % p)
                        break
        R.extra['traces_validated_against_model'] = len(reqs)
    return R


def replay(ctx, payload):
    w = payload['witness']
    out = run_sequence((w['sequence_seed'], ctx.tmpdir()))
    bad = [(r['step'], r['bad']) for r in out['steps'] if r['bad']]
    print(bad)
    return not bad
