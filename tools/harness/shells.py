"""Helpers shared by the harnesses of the contraction properties (C02, C07, C08, C12, C13)."""
import copy, json, os, glob
from common import *
import genbasis

SHELL_KEYS = ('function_type', 'region', 'angular_momentum', 'exponents', 'coefficients')


def norm_shell(sh):
    return {k: sh.get(k) for k in SHELL_KEYS}


def shells_of(el):
    return [norm_shell(s) for s in el.get('electron_shells', [])]


def ecp_of(el):
    return (copy.deepcopy(el.get('ecp_potentials')), el.get('ecp_electrons'))


def ecp_multiset(el):
    """the potentials as a multiset: for paths that run sort_basis, which may reorder them (its own promise)"""
    p = el.get('ecp_potentials')
    return (None if p is None else sorted(jdump(x) for x in p), el.get('ecp_electrons'))


def wf_shell(sh):
    """the well-formedness the theorems assume (rectangular, non-empty, fused => one column per member,
    every column has a non-zero entry, numbers parse, exponent values distinct)"""
    try:
        am = sh['angular_momentum']
        ex = sh['exponents']
        co = sh['coefficients']
        if not am or not ex or not co:
            return False
        if any(len(c) != len(ex) for c in co):
            return False
        if len(am) > 1 and len(co) != len(am):
            return False
        vals = [frac(x) for x in ex]
        if len(set(vals)) != len(vals) or any(v <= 0 for v in vals):
            return False
        for c in co:
            if all(frac(x) == 0 for x in c):
                return False
        return True
    except Exception:
        return False


def wf_basis(b):
    return all(wf_shell(sh) for el in b['elements'].values() for sh in el.get('electron_shells', []))


def all_numbers(b):
    for el in b['elements'].values():
        for sh in el.get('electron_shells', []):
            for x in sh['exponents']:
                yield x
            for c in sh['coefficients']:
                for x in c:
                    yield x


def shape_flags(el):
    """facts about an element's shell list used by the shape promises"""
    shells = el.get('electron_shells', [])
    single = [sh for sh in shells if len(sh['angular_momentum']) == 1]
    fused = [sh for sh in shells if len(sh['angular_momentum']) > 1]
    return dict(
        general_in_single=any(len(sh['coefficients']) > 1 for sh in single),
        fused_max=max([max(sh['angular_momentum']) for sh in fused], default=-1),
        nfused=len(fused),
        single_am_distinct=len(set(sh['angular_momentum'][0] for sh in single)) == len(single),
        exps_decreasing=all(all(frac(a) > frac(b) for a, b in zip(sh['exponents'], sh['exponents'][1:])) for sh in shells),
        am_nondecreasing=all(max(a['angular_momentum']) <= max(b['angular_momentum']) for a, b in zip(shells, shells[1:])))


def corpus_bases(pid):
    out = []
    for f in sorted(glob.glob(os.path.join(VERIF, 'corpus', pid, '*.json'))):
        try:
            out.append((os.path.basename(f), json.load(open(f))))
        except Exception:
            pass
    return out


def ranks(xs):
    """dense ranks of a list of floats (the model only compares keys)"""
    order = sorted(set(xs))
    pos = {v: i for i, v in enumerate(order)}
    return [[pos[v], 1] for v in xs]


def tally(R, b, tag):
    kinds = set()
    for el in b['elements'].values():
        for sh in el.get('electron_shells', []):
            if len(sh['angular_momentum']) > 1:
                kinds.add('fused%d' % len(sh['angular_momentum']))
            if len(sh['coefficients']) > 1 and len(sh['angular_momentum']) == 1:
                kinds.add('general')
            if max(sh['angular_momentum']) >= 7:
                kinds.add('l>=7')
        if 'ecp_potentials' in el:
            kinds.add('ecp' if 'electron_shells' in el else 'ecp-only')
    for k in kinds:
        R.count('%s:%s' % (tag, k))


def shared_facts(el_or_basis):
    """(shared_prims, shared_nonidentical): two same-momentum shells of an element share an exponent value; and the
    one-primitive shells made from them would differ (spelling, region or function type) so that exact de-duplication keeps both"""
    els = el_or_basis['elements'].values() if 'elements' in el_or_basis else [el_or_basis]
    shared = nonid = False
    for el in els:
        vals = {}
        for sh in el.get('electron_shells', []):
            for x in sh['exponents']:
                k = (tuple(sh['angular_momentum']), frac(x))
                me = (x, sh.get('region'), sh.get('function_type'))
                if k in vals:
                    shared = True
                    if me not in vals[k]:
                        nonid = True
                vals.setdefault(k, set()).add(me)
    return shared, nonid
