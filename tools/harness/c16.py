"""C16 — the command line prints what the Python API returns.
The `bse` entry point is run in-process (patched sys.argv, captured stdout, -o files) so that the
code under test is the working tree's."""
import io, sys, contextlib, shlex
from common import *

LEVEL = 'proof'
RULE = ('generated command lines for every data-returning sub-command: get-basis over sampled basis x format x element selections x flag combinations '
        '(each contraction flag, augmentation counts, get-aux, noheader, version), get-refs, get-info, get-notes, get-family, get-family-notes, get-versions, '
        'lookup-by-role, list-* with filters, convert-basis, autoaux-/autoabs-basis, create-bundle; names in non-canonical spellings; invalid names, formats, '
        'roles, families. Each compared with the direct API call; stdout and -o. Non-trivial = distinct command line.')
ASSUMPTIONS = ['argparse itself is trusted', 'the CLI is exercised in-process through run_bse_cli with sys.argv replaced']
TRUSTED = ['CPython argparse']


class KeepOpen(io.StringIO):
    def close(self):
        pass


def run_cli(argv):
    """returns (kind, stdout, stderr): kind = ok | error"""
    from basis_set_exchange.cli import bse_cli
    old = sys.argv
    out, err = KeepOpen(), KeepOpen()
    sys.argv = ['bse'] + argv
    try:
        with contextlib.redirect_stdout(out), contextlib.redirect_stderr(err):
            try:
                rc = bse_cli.run_bse_cli()
                kind = 'ok' if not rc else 'error'
            except SystemExit as e:
                kind = 'ok' if not e.code else 'error'
            except Exception as e:
                kind = 'error'
                err.write('%s: %s' % (type(e).__name__, e))
    finally:
        sys.argv = old
    return kind, out.getvalue(), err.getvalue()


def api_call(fn, *a, **k):
    try:
        return 'ok', fn(*a, **k)
    except Exception as e:
        return 'error', '%s: %s' % (type(e).__name__, str(e)[:100])


FLAGS = [('--unc-gen', 'uncontract_general'), ('--unc-spdf', 'uncontract_spdf'), ('--unc-seg', 'uncontract_segmented'), ('--rm-free', 'remove_free_primitives'),
         ('--opt-gen', 'optimize_general'), ('--make-gen', 'make_general')]


def spell(rng, name):
    return rng.choice([name, name.upper(), name.lower(), name.swapcase()])


def work(item):
    bse = import_bse()
    from basis_set_exchange import misc
    import random, tempfile, shutil
    seed, n = item
    rng = random.Random(seed)
    md = bse.get_metadata()
    names = sorted(md)
    fmts = sorted(bse.get_formats())
    out = []
    tmp = tempfile.mkdtemp(prefix='bsev_c16_')
    aug_ok = [k for k in ('def2-svp', 'def2-tzvp', 'aug-cc-pvdz', 'cc-pvtz', '6-311g') if k in md]
    # a generated data directory (other names, notes, families, auxiliaries than the store): what `-d` must be forwarded to
    import gendir
    gd = os.path.join(tmp, 'gd')
    os.makedirs(gd)
    gfiles, gindex, _ = gendir.gen_dir(rng, nbases=3)
    gendir.write_dir(gd, gfiles, gindex)
    try:
        gmd = bse.get_metadata(gd)
    except Exception:
        gmd = None
    md_store, names_store = md, names
    # corpus (inputs that once exposed something): ECP-only elements with --get-aux (F19: diagnostics of the generator landed on stdout)
    for argv, kw in ((['get-basis', 'def2-ecp', 'nwchem', '--get-aux', '1', '--elements', '37,38'], dict(fmt='nwchem', get_aux=1, elements='37,38')),
                     (['get-basis', 'lanl2dz ecp', 'gaussian94', '--get-aux', '2', '--elements', '11'], dict(fmt='gaussian94', get_aux=2, elements='11'))):
        if argv[1] in md:
            want = api_call(bse.get_basis, argv[1], **kw)
            got = run_cli(argv)
            rec = dict(kind='get-basis', bad=[], line=argv)
            if want[0] == 'ok' and (got[0] != 'ok' or got[1] != want[1] + '\n'):
                rec['bad'].append(('cli_equals_api', 'output (%d chars) differs from the API value (%d chars) + newline' % (len(got[1]), len(want[1]))))
            out.append(rec)
    for i in range(n):
        kind = rng.choice(['get-basis'] * 6 + ['get-refs', 'get-refs', 'get-info', 'get-notes', 'get-family', 'get-family-notes', 'get-versions', 'lookup', 'list', 'list',
                                              'invalid', 'convert', 'aux', 'bundle'])
        use_gd = bool(gmd) and kind in ('get-basis', 'get-refs', 'get-info', 'get-notes', 'get-family', 'get-family-notes', 'get-versions', 'lookup', 'list') and rng.random() < 0.3
        dd = gd if use_gd else None
        md, names = (gmd, sorted(gmd)) if use_gd else (md_store, names_store)
        key = rng.choice(names)
        e = md[key]
        disp = e['display_name']
        rec = dict(kind=kind, bad=[])
        use_o = rng.random() < 0.25
        ofile = os.path.join(tmp, 'o%d.txt' % i)
        pre = ['-o', ofile] if use_o else []
        if use_gd:
            pre = ['-d', gd] + pre
        elif rng.random() < 0.2:
            pre = ['-d', bse.get_data_dir()] + pre

        def emitted(res):
            k, so, se = res
            if use_o and k == 'ok':
                return k, open(ofile, encoding='utf-8').read(), se
            return k, so, se
        try:
            if kind == 'get-basis':
                if rng.random() < 0.35 and aug_ok and not use_gd:
                    key = rng.choice(aug_ok)
                    e = md[key]
                    disp = e['display_name']
                fmt = rng.choice(fmts)
                kw = {}
                argv = []
                for flag, param in FLAGS:
                    if rng.random() < 0.18:
                        argv.append(flag)
                        kw[param] = True
                if rng.random() < 0.3:
                    a, b = rng.choice([(1, 0), (0, 1), (2, 1), (1, 2), (0, 2)])
                    if a:
                        argv += ['--aug-diffuse', str(a)]
                        kw['augment_diffuse'] = a
                    if b:
                        argv += ['--aug-steep', str(b)]
                        kw['augment_steep'] = b
                if rng.random() < 0.1:
                    g = rng.choice([1, 2])
                    argv += ['--get-aux', str(g)]
                    kw['get_aux'] = g
                if rng.random() < 0.3:
                    argv.append('--noheader')
                    kw['header'] = False
                if rng.random() < 0.4:
                    v = rng.choice(sorted(e['versions']))
                    argv += ['--version', v]
                    kw['version'] = v
                if rng.random() < 0.5:
                    els = e['versions'][kw.get('version', e['latest_version'])]['elements']
                    sel = sorted(rng.sample(els, min(len(els), rng.randrange(1, 4))), key=int)
                    s = rng.choice([','.join(sel), misc.compact_elements(sel)])
                    argv += ['--elements', s]
                    kw['elements'] = s
                line = pre + ['get-basis', spell(rng, disp), rng.choice([fmt, fmt.upper()])] + argv
                want = api_call(bse.get_basis, disp, fmt=fmt, data_dir=dd, **kw)
                got = emitted(run_cli(line))
            elif kind == 'get-refs':
                rf = rng.choice(['txt', 'bib', 'ris', 'endnote', 'json'])
                kw = {}
                argv = []
                if rng.random() < 0.4:
                    v = rng.choice(sorted(e['versions']))
                    argv += ['--version', v]
                    kw['version'] = v
                if rng.random() < 0.5:
                    els = e['versions'][kw.get('version', e['latest_version'])]['elements']
                    sel = sorted(rng.sample(els, min(len(els), rng.randrange(1, 4))), key=int)
                    argv += ['--elements', ','.join(sel)]
                    kw['elements'] = ','.join(sel)
                line = pre + ['get-refs', spell(rng, disp), rng.choice([rf, rf.upper()])] + argv
                want = api_call(bse.get_references, disp, fmt=rf, data_dir=dd, **kw)
                got = emitted(run_cli(line))
            elif kind == 'get-info':
                line = pre + ['get-info', spell(rng, disp)]
                got = emitted(run_cli(line))
                want = ('ok', None)
                if got[0] == 'ok':
                    for must in (e['display_name'], e['description'], e['role'], e['family'], e['latest_version']):
                        if must not in got[1]:
                            rec['bad'].append(('cli_equals_api', 'get-info does not show %r' % must[:40]))
                    for v in e['versions']:
                        if e['versions'][v]['revdesc'] not in got[1]:
                            rec['bad'].append(('cli_equals_api', 'get-info does not list version %s' % v))
                else:
                    rec['bad'].append(('cli_equals_api', 'get-info fails for a valid name spelled %r: %s' % (line[-1], got[2][:80])))
                rec['line'] = line
                out.append(rec)
                continue
            elif kind == 'get-notes':
                line = pre + ['get-notes', spell(rng, disp)]
                want = api_call(bse.get_basis_notes, disp, dd)
                got = emitted(run_cli(line))
            elif kind == 'get-family':
                line = pre + ['get-family', spell(rng, disp)]
                want = api_call(bse.get_basis_family, disp, dd)
                got = emitted(run_cli(line))
            elif kind == 'get-family-notes':
                fam = rng.choice(bse.get_families(dd))
                line = pre + ['get-family-notes', rng.choice([fam, fam.upper()])]
                want = api_call(bse.get_family_notes, fam, dd)
                got = emitted(run_cli(line))
            elif kind == 'get-versions':
                line = pre + ['get-versions', spell(rng, disp), '-n']
                want = ('ok', '\n'.join(e['versions'].keys()))
                got = emitted(run_cli(line))
            elif kind == 'lookup':
                prim = [k for k, x in md.items() if x['auxiliaries']]
                if not prim:
                    use_gd, dd, md, names = False, None, md_store, names_store
                    pre = [x for x in pre if x not in ('-d', gd)]
                    prim = [k for k, x in md.items() if x['auxiliaries']]
                key = rng.choice(prim)
                role = rng.choice(sorted(md[key]['auxiliaries']))
                line = pre + ['lookup-by-role', spell(rng, md[key]['display_name']), rng.choice([role, role.upper()])]
                want = api_call(bse.lookup_basis_by_role, key, role, dd)
                if want[0] == 'ok':
                    want = ('ok', '\n'.join(want[1]))
                got = emitted(run_cli(line))
            elif kind == 'list':
                which = rng.choice(['list-basis-sets', 'list-families', 'list-formats', 'list-ref-formats', 'list-roles', 'list-writer-formats', 'list-reader-formats'])
                if which == 'list-basis-sets':
                    kw = {}
                    argv = ['-n']
                    if rng.random() < 0.5:
                        kw['family'] = rng.choice(bse.get_families(dd))
                        argv += ['-f', rng.choice([kw['family'], kw['family'].upper()])]
                    if rng.random() < 0.4:
                        kw['role'] = rng.choice(sorted(bse.get_roles()))
                        argv += ['-r', kw['role']]
                    if rng.random() < 0.4:
                        kw['substr'] = rng.choice(['aug', 'def2', 'PVDZ', '6-31', 'gen', 'EN'])
                        argv += ['-s', kw['substr']]
                    if rng.random() < 0.4:
                        kw['elements'] = rng.choice(['H,C', '1-10', 'Og', 'cn-OG', '26'])
                        argv += ['-e', kw['elements']]
                    line = pre + [which] + argv
                    want = api_call(bse.filter_basis_sets, data_dir=dd, **kw)
                    if want[0] == 'ok':
                        want = ('ok', '\n'.join(x['display_name'] for x in want[1].values()))
                else:
                    line = pre + [which, '-n'] if which != 'list-families' else pre + [which]
                    src = dict(**{'list-families': lambda: bse.get_families(dd), 'list-formats': lambda: sorted(bse.get_formats().keys()),
                                  'list-writer-formats': lambda: sorted(bse.get_writer_formats().keys()), 'list-reader-formats': lambda: list(bse.get_reader_formats().keys()),
                                  'list-ref-formats': lambda: list(bse.get_reference_formats().keys()), 'list-roles': lambda: list(bse.get_roles().keys())})[which]
                    want = ('ok', '\n'.join(src()))
                got = emitted(run_cli(line))
            elif kind == 'invalid':
                bad = rng.choice([['get-basis', 'no-such-basis', 'nwchem'], ['get-basis', disp, 'no-such-format'], ['get-refs', disp, 'nofmt'],
                                  ['lookup-by-role', disp, 'norole'], ['get-family-notes', 'nofamily'], ['list-basis-sets', '-f', 'nofamily'],
                                  ['list-basis-sets', '-r', 'norole'], ['get-notes', 'no-such-basis'], ['get-basis', disp, 'nwchem', '--version', '99'],
                                  ['get-basis', disp, 'nwchem', '--elements', 'Xx']])
                line = pre + bad
                got = run_cli(line)
                if got[0] == 'ok':
                    rec['bad'].append(('invalid_rejected', 'an invalid name/format/role/family/version is accepted'))
                if 'BASIS' in got[1].upper() and len(got[1]) > 200:
                    rec['bad'].append(('invalid_rejected', 'basis text is emitted although the command line is invalid'))
                rec['line'] = line
                out.append(rec)
                continue
            elif kind in ('convert', 'aux'):
                src = os.path.join(tmp, 'in%d.nw' % i)
                key = rng.choice(['sto-3g', '6-31g', 'cc-pvdz', 'def2-svp'])
                # sometimes in another readable format, sometimes with a byte-order mark in front (the API reads utf-8-sig) and explicit formats
                sfmt, sext = rng.choice([('nwchem', '.nw'), ('nwchem', '.nw'), ('gaussian94', '.gbs'), ('turbomole', '.tm')])
                src = os.path.join(tmp, 'in%d%s' % (i, sext))
                text_in = bse.get_basis(key, fmt=sfmt, elements=[1, 6, 8], header=rng.random() < 0.5)
                bom = rng.random() < 0.35
                open(src, 'w', encoding='utf-8-sig' if bom else 'utf-8').write(text_in)
                dext = rng.choice(['gbs', 'nw', 'tm'])
                dst = os.path.join(tmp, 'out%d.%s' % (i, dext))
                from basis_set_exchange import convert, readers, writers, manip
                if kind == 'convert':
                    mg = rng.random() < 0.5
                    line = ['convert-basis', src, dst] + (['--make-gen'] if mg else [])
                    got = run_cli(line)
                    ref = os.path.join(tmp, 'ref%d.%s' % (i, dext))
                    convert.convert_formatted_basis_file(src, ref, make_gen=mg)
                    want = ('ok', open(ref).read())
                else:
                    which = rng.choice(['autoaux-basis', 'autoabs-basis'])
                    line = [which, src, dst]
                    with contextlib.redirect_stdout(io.StringIO()):
                        got = run_cli(line)
                        ob = readers.read_formatted_basis_file(src)
                        ob['revision_description'] = ''
                        ob['version'] = ''
                        ab = (manip.autoaux_basis if which == 'autoaux-basis' else manip.autoabs_basis)(ob)
                    ref = os.path.join(tmp, 'ref%d.%s' % (i, dext))
                    writers.write_formatted_basis_file(ab, ref)
                    want = ('ok', open(ref).read())
                got = (got[0], open(dst).read() if got[0] == 'ok' and os.path.isfile(dst) else got[1], got[2])
                if got[0] != 'ok' or got[1] != want[1]:
                    rec['bad'].append(('cli_equals_api', '%s writes something else than the API' % line[0]))
                rec['line'] = line
                out.append(rec)
                continue
            else:
                # create-bundle on a small generated directory against bundle.create_bundle
                import gendir, zipfile
                from basis_set_exchange import bundle
                d = os.path.join(tmp, 'dd%d' % i)
                os.makedirs(d)
                files, index, info = gendir.gen_dir(rng, nbases=2)
                gendir.write_dir(d, files, index)
                fmt = rng.choice(['nwchem', 'gaussian94', 'json'])
                a1, a2 = os.path.join(tmp, 'cli%d.zip' % i), os.path.join(tmp, 'api%d.zip' % i)
                line = ['-d', d, 'create-bundle', fmt, 'bib', a1]
                with contextlib.redirect_stdout(io.StringIO()):
                    got = run_cli(line)
                    bundle.create_bundle(a2, fmt, 'bib', None, d)

                def members(p):
                    with zipfile.ZipFile(p) as z:
                        return {n: (z.read(n) if not n.endswith('README.txt') else b'') for n in z.namelist()}
                if got[0] != 'ok' or members(a1) != members(a2):
                    rec['bad'].append(('cli_equals_api', 'create-bundle archive differs from bundle.create_bundle'))
                rec['line'] = line
                out.append(rec)
                continue
        except Exception as ex:
            rec['bad'].append(('harness', 'harness error %s: %s' % (type(ex).__name__, str(ex)[:80])))
            rec['line'] = []
            out.append(rec)
            continue
        rec['line'] = line
        if want[0] == 'ok':
            if got[0] != 'ok':
                rec['bad'].append(('cli_equals_api', 'the command fails (%s) although the API call succeeds' % got[2].strip().split('\n')[-1][:100]))
            elif got[1] != want[1] + '\n':
                rec['bad'].append(('cli_equals_api', 'output (%d chars) differs from the API value (%d chars) + newline' % (len(got[1]), len(want[1]))))
        else:
            if got[0] == 'ok' and got[1].strip():
                rec['bad'].append(('cli_equals_api', 'the command prints text although the API call raises ' + want[1]))
        out.append(rec)
    shutil.rmtree(tmp, ignore_errors=True)
    return out


def run(ctx):
    bse = import_bse()
    R = Result('C16')
    per = ctx.n(24, 400)
    items = [('%d-%d' % (ctx.seed, i), per) for i in range(15)]
    for recs in pmap(work, items):
        for rec in recs:
            R.ev()
            R.count('cmd:' + rec['kind'])
            R.nt(' '.join(map(str, rec.get('line', []))))
            for rule, what in rec['bad']:
                R.violation(rule, 'cli.bse_cli', what, dict(argv=rec.get('line')), kind=rec['kind'])
            R.sample(dict(argv=rec.get('line')))
    return R


def replay(ctx, payload):
    import_bse()
    w = payload['witness']
    print(run_cli(w['argv'])[0])
    return False
