"""C09 — references cover exactly the data that was returned."""
import json, os, shutil
from common import *
import gendir

LEVEL = 'proof'
RULE = ('store basis/versions (sample in quick, all in thorough) x random element selections x the five reference formats, notes of every sampled basis and '
        'family; generated data directories with elements sharing / not sharing reference lists and with empty reference lists. One case = (basis, version, '
        'selection, format). Non-trivial = distinct rendered text / grouping.')
ASSUMPTIONS = ['list-valued fields other than authors/editors are rendered with Python repr by ris/endnote: field containment is asked for the scalar fields and for each author/editor',
               'textwrap is not modelled (txt format): containment is checked after removing white space']
TRUSTED = ['CPython textwrap, json']


def squash(s):
    return ''.join(str(s).split())


def judge_dict(bse, basis, refs, refdb):
    """refs = get_references(...) in dict form for `basis` (the same selection)"""
    bad = []
    sel = sorted(basis['elements'], key=int)
    seen = []
    for g in refs:
        seen += g['elements']
    if sorted(seen, key=int) != sel or len(seen) != len(set(seen)):
        bad.append(('partition', 'the groups do not place every selected element in exactly one group: %s vs %s' % (seen[:8], sel[:8])))
        return bad
    infos = []
    for g in refs:
        # what the element's component data says, with keys resolved
        for z in g['elements']:
            want = [dict(reference_description=r['reference_description'], reference_data=[[k, refdb[k]] for k in r['reference_keys']]) for r in basis['elements'][z]['references']]
            got = [dict(reference_description=r['reference_description'], reference_data=[[k, v] for k, v in r['reference_data']]) for r in g['reference_info']]
            if json.loads(json.dumps(got)) != json.loads(json.dumps(want)):
                bad.append(('group_info_is_component_data', 'Z=%s: the group\'s descriptions/keys are not those of the element\'s components in order' % z))
                break
        infos.append(json.dumps([[r['reference_description'], [k for k, _ in r['reference_data']]] for r in g['reference_info']]))
    if len(set(infos)) != len(infos):
        bad.append(('groups_differ', 'two groups carry identical reference information'))
    return bad


def judge_text(bse, fmt, refs, text, all_keys_of_basis, libkeys):
    bad = []
    from basis_set_exchange import misc
    flat = squash(text)
    cited = {}
    for g in refs:
        el_str = misc.compact_elements(g['elements'])
        if squash(el_str) not in flat:
            bad.append(('mentions_elements', 'element group %s is not mentioned' % el_str))
        for ri in g['reference_info']:
            for k, v in ri['reference_data']:
                cited[k] = v
                if k not in text:
                    bad.append(('mentions_keys', 'key %s is not mentioned' % k))
    for k in all_keys_of_basis - set(cited) - set(libkeys):
        # a key may legitimately be a substring of a cited key or of other text; demand a whole-word hit to complain
        import re
        if re.search(r'(?<![\w])%s(?![\w])' % re.escape(k), text):
            bad.append(('no_foreign_keys', 'key %s belongs only to unselected elements but is mentioned' % k))
    for k in libkeys:
        if k not in text:
            bad.append(('library_citation', 'the library citation %s is missing' % k))
    if fmt in ('bib', 'ris', 'endnote', 'txt'):
        for k, entry in cited.items():
            for field, val in entry.items():
                if field == '_entry_type':
                    continue
                vals = val if isinstance(val, list) else [val]
                if fmt == 'txt' and field not in ('authors', 'title', 'journal', 'volume', 'pages', 'year', 'doi', 'booktitle', 'editors', 'school', 'institution', 'publisher', 'note'):
                    continue
                if fmt == 'txt' and entry.get('_entry_type') in ('unpublished', 'phdthesis', 'misc', 'techreport', 'incollection') and field in ('journal', 'volume', 'pages', 'year', 'publisher'):
                    continue
                for x in vals:
                    if squash(x) not in flat:
                        bad.append(('field_values_present', '%s: value of %s of %s is not in the rendering' % (fmt, field, k)))
                        break
    return bad


def work(item):
    bse = import_bse()
    from basis_set_exchange import refconverters, misc
    from basis_set_exchange.refconverters import common as rcommon
    import random
    name, ver, seed, data_dir = item
    rng = random.Random(seed)
    kw = {} if data_dir is None else dict(data_dir=data_dir)
    out = dict(label='%s/%s' % (name, ver), cases=[], groups=[], error=None)
    try:
        full = bse.get_basis(name, version=ver, **kw)
        refdb = bse.get_reference_data(**kw)
    except Exception as e:
        out['error'] = type(e).__name__
        return out
    libkeys = list(rcommon.get_library_citation()[1].keys())
    all_keys = set(k for el in full['elements'].values() for r in el['references'] for k in r['reference_keys'])
    zs = list(full['elements'])
    sels = [None]
    for _ in range(2):
        sels.append(sorted(rng.sample(zs, rng.randrange(1, min(len(zs), 6) + 1)), key=int))
    for sel in sels:
        try:
            basis = bse.get_basis(name, version=ver, elements=sel, **kw)
            refs = bse.get_references(name, elements=sel, version=ver, **kw)
        except Exception as e:
            out['cases'].append(dict(sel=sel, fmt=None, bad=[('get_references_raises', '%s: %s' % (type(e).__name__, str(e)[:80]))]))
            continue
        rec = dict(sel=sel, fmt='dict', bad=judge_dict(bse, basis, copy.deepcopy(refs), refdb), hash=hashlib.sha1(jdump(refs).encode()).hexdigest())
        out['cases'].append(rec)
        out['groups'].append(([[z, jdump(basis['elements'][z]['references'])] for z in sorted(basis['elements'], key=int)],
                              [[jdump([dict(reference_description=r['reference_description'], reference_keys=[k for k, _ in r['reference_data']]) for r in g['reference_info']]), g['elements']] for g in refs]))
        for fmt in ('txt', 'bib', 'ris', 'endnote', 'json'):
            try:
                text = bse.get_references(name, elements=sel, version=ver, fmt=fmt, **kw)
            except Exception as e:
                out['cases'].append(dict(sel=sel, fmt=fmt, bad=[('format_raises', '%s: %s' % (type(e).__name__, str(e)[:80]))]))
                continue
            rec = dict(sel=sel, fmt=fmt, bad=[], hash=hashlib.sha1(text.encode()).hexdigest())
            if fmt == 'json':
                try:
                    back = json.loads(text)
                    if back != json.loads(json.dumps(refs)):
                        rec['bad'].append(('json_parses_back', 'the JSON format does not parse back to the dictionary form'))
                except Exception as e:
                    rec['bad'].append(('json_parses_back', 'the JSON format does not parse: %s' % type(e).__name__))
                only_unselected = all_keys - set(k for g in refs for ri in g['reference_info'] for k, _ in ri['reference_data'])
                for k in only_unselected:
                    if '"%s"' % k in text:
                        rec['bad'].append(('no_foreign_keys', 'key %s of unselected elements is in the JSON' % k))
            else:
                rec['bad'] = judge_text(bse, fmt, refs, text, all_keys, libkeys)
            out['cases'].append(rec)
    # notes
    try:
        md = bse.get_metadata(**kw)[misc.transform_basis_name(name)]
        for kind, getter, arg in (('basis', bse.get_basis_notes, name), ('family', bse.get_family_notes, md['family'])):
            notes = getter(arg, **kw)
            dd = data_dir or bse.get_data_dir()
            p = os.path.join(dd, md['basename'] + '.notes') if kind == 'basis' else os.path.join(dd, 'NOTES.' + md['family'].lower())
            raw = open(p, encoding='utf-8').read() if os.path.isfile(p) else None
            rec = dict(sel=None, fmt='notes-' + kind, bad=[], hash=hashlib.sha1((notes or '').encode()).hexdigest())
            if raw is None:
                if notes not in ('', None) and 'Notes for' not in str(notes) and len(notes) > 200:
                    rec['bad'].append(('notes_as_stored', '%s notes returned although no notes file exists' % kind))
            else:
                if not notes.startswith(raw):
                    rec['bad'].append(('notes_as_stored', '%s notes are not returned as stored' % kind))
                found = sorted(k for k in refdb if k in raw)
                tail = notes[len(raw):]
                for k in found:
                    if k not in tail:
                        rec['bad'].append(('notes_references', 'reference %s is mentioned in the %s notes but its text is not appended' % (k, kind)))
                if not found and tail:
                    rec['bad'].append(('notes_references', '%s notes mention no key but something was appended' % kind))
                import re
                appended = set(m for m in re.findall(r'(?m)^([A-Za-z][\w-]*\d{4}[a-z]?)$', tail))
                extra = appended - set(found)
                if extra:
                    rec['bad'].append(('notes_references', 'references %s are appended to the %s notes but not mentioned' % (sorted(extra)[:3], kind)))
                # the model scans the notes for every key of the reference database
                rec['notes_req'] = (raw, sorted(k for k in refdb.keys() if k != 'molssi_bse_schema'), found)
            out['cases'].append(rec)
    except Exception as e:
        out['cases'].append(dict(sel=None, fmt='notes', bad=[('notes_raise', '%s: %s' % (type(e).__name__, str(e)[:80]))]))
    return out


def run(ctx):
    bse = import_bse()
    R = Result('C09')
    rng = ctx.rng
    items = [(n, v, '%s-%d' % (n, ctx.seed), None) for n, v in sample_pairs(ctx, ctx.n(45, 10 ** 6))]
    # generated directories
    tmp = ctx.tmpdir()
    for i in range(ctx.n(8, 120)):
        files, index, info = gendir.gen_dir(rng)
        d = os.path.join(tmp, 'd%d' % i)
        os.makedirs(d)
        gendir.write_dir(d, files, index)
        for key, vs in info['bases']:
            for v in vs:
                items.append((index[key]['display_name'], v, 'g%d-%s' % (i, key), d))
    # every entry of the reference database through every single-entry renderer (exhaustive over the shipped database)
    from basis_set_exchange.refconverters import convert as rconv
    from basis_set_exchange import sort as bsort
    refdb = bse.get_reference_data()
    nent = 0
    for k, entry in refdb.items():
        if k == 'molssi_bse_schema':
            continue
        for fmt in ('bib', 'ris', 'endnote', 'txt'):
            fn = rconv._converter_map[fmt]['function']
            R.ev()
            nent += 1
            try:
                text = fn(k, bsort.sort_single_reference(copy.deepcopy(entry)))
            except Exception as e:
                R.violation('field_values_present', 'refconverters.' + fmt, 'rendering %s raises %s' % (k, type(e).__name__), dict(key=k, fmt=fmt), fmt=fmt)
                continue
            R.nt(('entry', k, fmt))
            flat = squash(text)
            if k not in text:
                R.violation('mentions_keys', 'refconverters.' + fmt, 'the rendering of %s does not mention its key' % k, dict(key=k, fmt=fmt), fmt=fmt)
            if fmt == 'txt':
                continue
            for field, val in entry.items():
                if field == '_entry_type':
                    continue
                for x in (val if isinstance(val, list) else [val]):
                    if squash(x) not in flat:
                        R.violation('field_values_present', 'refconverters.' + fmt, '%s: value %r of field %s of %s is not in the rendering' % (fmt, str(x)[:40], field, k),
                                    dict(key=k, fmt=fmt, field=field), fmt=fmt)
                        break
    R.extra['database_entries_rendered'] = nent
    # the Lean renderer models (Props/C09 *_renders_every_field) against the three converters: the whole database in the order
    # convert_references uses, plus entries with unusual shapes
    if ctx.model_ok:
        import random as _random
        rr = _random.Random('render-%d' % ctx.seed)
        entries = []
        for k, entry in refdb.items():
            if k == 'molssi_bse_schema' or not isinstance(entry, dict) or '_entry_type' not in entry:
                continue
            entries.append((k, bsort.sort_single_reference(copy.deepcopy(entry))))
            entries.append((k, copy.deepcopy(entry)))
        for i in range(ctx.n(60, 600)):
            k, e = rr.choice(entries)
            e = copy.deepcopy(e)
            kind = rr.choice(['drop', 'extra_str', 'extra_list', 'type', 'empty_authors', 'shuffle', 'one_author'])
            fs = [f for f in e if f != '_entry_type']
            if kind == 'drop' and fs:
                del e[rr.choice(fs)]
            elif kind == 'extra_str':
                e[rr.choice(['note', 'booktitle', 'publisher', 'url', 'x y'])] = rr.choice(['some text', 'a {b} c', '1990', ''])
            elif kind == 'extra_list':
                e[rr.choice(['editors', 'translators'])] = [rr.choice(['A, B.', 'Smith, J.', 'de la X, Y.']) for _ in range(rr.randrange(0, 3))]
            elif kind == 'type':
                e['_entry_type'] = rr.choice(['article', 'misc', 'unpublished', 'incollection', 'phdthesis', 'dataset', 'techreport', 'book', 'Article'])
            elif kind == 'empty_authors':
                e['authors'] = []
            elif kind == 'shuffle':
                its = list(e.items()); rr.shuffle(its); e = dict(its)
            elif kind == 'one_author':
                e['authors'] = ['Only, One']
            entries.append(('%s-%s%d' % (k, kind, i), e))
        rreqs, rexp = [], []
        for k, e in entries:
            if any(isinstance(v, list) and any(("'" in x or '\\' in x or not x.isprintable()) for x in v) for f, v in e.items() if f not in ('authors', 'editors')):
                continue        # Python's repr of such a list switches quoting; the model covers the plain case
            fields = [[f, (v if isinstance(v, list) else str(v))] for f, v in e.items() if f != '_entry_type']
            for fmt in ('bib', 'ris', 'endnote'):
                fn = rconv._converter_map[fmt]['function']
                try:
                    rexp.append(fn(k, e))
                except Exception as ex:
                    rexp.append('raise ' + type(ex).__name__)
                rreqs.append(dict(op='render_ref', fmt=fmt, key=k, etype=e['_entry_type'], fields=fields))
        rans = drive(rreqs)
        for a, want, rq in zip(rans, rexp, rreqs):
            if 'drv_error' in a:
                raise DriverError(a['drv_error'])
            R.ev()
            R.count('render-model:' + rq['fmt'])
            if a.get('text') != want:
                R.disagree('render_ref', dict(key=rq['key'], fmt=rq['fmt']), str(a.get('text'))[:160], str(want)[:160], note='renderer model vs refconverters.' + rq['fmt'])
        R.extra['renderings_compared_with_model'] = len(rreqs)
    reqs, meta = [], []
    for i in range(0, len(items), 600):
        for out in pmap(work, items[i:i + 600]):
            if out['error']:
                R.count('skip:' + out['error'])
                continue
            for rec in out['cases']:
                R.ev()
                R.count('fmt:%s' % rec['fmt'])
                if 'hash' in rec:
                    R.nt(rec['hash'])
                for rule, what in rec['bad']:
                    R.violation(rule, 'api.get_references' if not str(rec['fmt']).startswith('notes') else 'api.get_%s_notes' % rec['fmt'].split('-')[-1], what,
                                dict(basis=out['label'], elements=rec['sel'], fmt=rec['fmt']), fmt=rec['fmt'])
                if 'notes_req' in rec and ctx.model_ok:
                    raw, keys, found = rec['notes_req']
                    reqs.append(dict(op='process_notes', notes=raw, keys=keys))
                    meta.append(('notes', out['label'], found))
            for els, groups in out['groups']:
                if ctx.model_ok:
                    reqs.append(dict(op='compact_groups', els=els))
                    meta.append(('groups', out['label'], groups))
            R.sample(dict(basis=out['label'], cases=len(out['cases'])))
    if ctx.model_ok and reqs:
        ans = drive(reqs)
        for a, (kind, label, want) in zip(ans, meta):
            if 'drv_error' in a:
                raise DriverError(a['drv_error'])
            if kind == 'groups':
                if a['groups'] != want:
                    R.disagree('compact_groups', dict(basis=label), str(a['groups'])[:200], str(want)[:200])
            else:
                if a['found'] != want:
                    R.disagree('process_notes', dict(basis=label), a['found'], want)
        R.extra['traces_validated_against_model'] = len(reqs)
    return R


def replay(ctx, payload):
    print('witness:', jdump(payload.get('witness'))[:600])
    return False
