"""C20 — notations convert back and forth without loss.
Correspondence: BSE.Notation (Lean) vs lut.py / misc.py on the same inputs; property predicates
evaluated directly on the implementation's answers."""
import itertools, re, string
from common import *

LEVEL = 'proof'
RULE = ('element sets: every interval of 1..118, every union of <=3 (quick) / <=4 (thorough) intervals inside a '
        'small window, random unions of up to 12 intervals over 1..118, given to compact_elements in shuffled order '
        'with repetitions, then expand_elements; every Z/symbol/name of the table in three capitalisations; '
        'l in 0..27 x both conventions; electron counts 0..130; every index name; malformed and well-formed '
        'element strings from a grammar.  Non-trivial = distinct input whose answer is not the empty list/None.')
ASSUMPTIONS = ['symbols, names and element strings are ASCII (Python lower()/isdecimal()/\\w/\\s on non-ASCII text is not modelled)',
               'numbers inside element strings are < 1000 (range() of astronomically large bounds is not exercised)']
TRUSTED = ['CPython re, str methods']


def errclass(e):
    for c in (KeyError, RuntimeError, ValueError, TypeError, IndexError, NotImplementedError):
        if isinstance(e, c):
            return c.__name__
    return type(e).__name__


def call(f, *a, **k):
    try:
        return ('ok', f(*a, **k))
    except Exception as e:
        return ('err', errclass(e))


def gen_sets(ctx):
    rng = ctx.rng
    sets = []
    # all intervals
    for a in range(1, 119):
        for b in range(a, 119):
            sets.append(list(range(a, b + 1)))
    # unions of <=k intervals in a window
    W = 16 if ctx.thorough else 11
    lo = rng.randrange(1, 118 - W)
    for mask in range(1, 1 << W):
        s = [lo + i for i in range(W) if mask >> i & 1]
        sets.append(s)
    # random unions over 1..118
    for _ in range(ctx.n(2000, 40000)):
        s = set()
        for _ in range(rng.randrange(1, 13)):
            a = rng.randrange(1, 119)
            b = min(118, a + rng.choice([0, 0, 1, 1, 2, 3, 5, 10, 30]))
            s.update(range(a, b + 1))
        sets.append(sorted(s))
    # the superseded-symbol elements and the table's ends
    sets += [[105], [110, 111, 112], [113, 114, 115, 116, 117, 118], [1], [118], list(range(1, 119)), [119, 120], [104, 105, 106]]
    return sets


def gen_strings(ctx, bse):
    rng = ctx.rng
    syms = ['H', 'he', 'LI', 'c', 'Ne', 'na', 'Uuo', 'og', 'Lv', 'uuh', 'Xx', 'q', 'Al', 'zn', 'U']
    nums = ['1', '2', '03', '10', '18', '36', '118', '119', '120', '121', '0', '007']
    seps = [',', ',', ',', '-', '-', ' ', ', ', ' - ', ',,', '--', ',-', '-,', '\t', ' ', '\n', '_', '+', '']
    out = ['', ',', '-', ',,,', 'H', 'h-li', 'H-Li,C-O,Ne', 'H-N,8,Na-12', '1-3,7-10', 'H-', '-H', 'H-,He', 'H,-He', 'H-He-Li',
           '1-2-3', 'H--He', 'H - He', ' H , He ', 'Xx', '1-Xx', 'a_b-c-d', 'H-He,Li-Be-B', '5-3', '3-3', 'H-1', '+', 'H,+,He', 'C,Al-15,S,17,18']
    for _ in range(ctx.n(3000, 40000)):
        k = rng.randrange(1, 7)
        s = ''
        for i in range(k):
            s += rng.choice(syms + nums)
            if i < k - 1 or rng.random() < 0.15:
                s += rng.choice(seps)
        if rng.random() < 0.1:
            s = rng.choice(seps) + s
        if re.search(r'\d{7}', re.sub(r'\s+', '', s)):     # the library deletes white space, gluing numbers together
            continue        # 'a-b' with 7+ digit numbers makes the library build a list of that many integers (memory), not a property matter
        out.append(s)
    return out


def run(ctx):
    bse = import_bse()
    from basis_set_exchange import lut, misc
    R = Result('C20')
    reqs = []
    post = []   # (kind, payload) aligned with reqs

    def ask(req, kind, payload):
        reqs.append(req)
        post.append((kind, payload))

    # ---------------- element table ----------------
    for z in range(0, 124):
        impl = dict(sym=call(lut.element_sym_from_Z, z), symN=call(lut.element_sym_from_Z, z, True), name=call(lut.element_name_from_Z, z))
        impl_s = call(lut.element_sym_from_Z, str(z))
        R.ev()
        if impl['sym'] != impl_s:
            R.violation('Z_str_int', 'lut.element_sym_from_Z', 'Z given as str and as int disagree', dict(z=z, int=impl['sym'], str=impl_s))
        if impl['sym'][0] == 'ok':
            R.nt(('z', z))
            # inverse on the implementation
            for form in (impl['sym'][1], impl['sym'][1].upper(), impl['symN'][1]):
                back = call(lut.element_Z_from_sym, form)
                if back != ('ok', z):
                    R.violation('sym_Z_inverse', 'lut.element_Z_from_sym', 'Z -> symbol -> Z is not the identity', dict(z=z, sym=form, back=back), z=z)
            nm = impl['name'][1]
            for form in (nm, nm.upper(), nm.capitalize()):
                back = call(lut.element_Z_from_name, form)
                if back != ('ok', z):
                    R.violation('name_Z_inverse', 'lut.element_Z_from_name', 'Z -> name -> Z is not the identity', dict(z=z, name=form, back=back), z=z)
        ask(dict(op='lut', z=z), 'lut', (z, impl))
    for s, z, nm in lut._data_table:
        for form in (s, s.upper(), s.capitalize(), nm, nm.upper(), nm.capitalize(), s + 'x', ''):
            ask(dict(op='z_from', s=form), 'zfrom', (form, call(lut.element_Z_from_sym, form), call(lut.element_Z_from_name, form)))
            R.ev()
        if call(lut.element_Z_from_sym, s) != ('ok', z) or call(lut.element_Z_from_name, nm) != ('ok', z):
            R.violation('sym_lookup', 'lut.element_Z_from_sym', 'a table symbol/name does not map to its Z', dict(sym=s, name=nm, z=z))
        if call(lut.element_Z_from_sym, s, True) != ('ok', str(z)):
            R.violation('sym_lookup', 'lut.element_Z_from_sym', 'as_str result is not str(Z)', dict(sym=s, z=z))

    # ---------------- angular momentum ----------------
    for hij in (False, True):
        for l in range(0, 28):
            r = call(lut.amint_to_char, [l], hij)
            ask(dict(op='am_char', l=l, hij=hij), 'amchar', (l, hij, r))
            R.ev()
            if r[0] == 'ok':
                R.nt(('am', hij, l))
                for form in (r[1], r[1].upper()):
                    back = call(lut.amchar_to_int, form, hij)
                    if back != ('ok', [l]):
                        R.violation('am_inverse', 'lut.amchar_to_int', 'l -> letter -> l is not the identity', dict(l=l, hij=hij, letter=form, back=back))
            elif l < 25:
                R.violation('am_inverse', 'lut.amint_to_char', 'supported l has no letter', dict(l=l, hij=hij, got=r))
        for c in string.ascii_lowercase + string.ascii_uppercase + '1_':
            r = call(lut.amchar_to_int, c, hij)
            ask(dict(op='am_int', c=c, hij=hij), 'amint', (c, hij, r))
            R.ev()
            if r[0] == 'ok':
                back = call(lut.amint_to_char, r[1], hij)
                if back != ('ok', c.lower()):
                    R.violation('am_inverse', 'lut.amint_to_char', 'letter -> l -> letter is not the identity', dict(c=c, hij=hij, back=back))
        # fused strings and use_L
        for ams in ([0, 1], [0, 1, 2], [3, 7, 8]):
            r = call(lut.amint_to_char, ams, hij)
            if r[0] != 'ok' or call(lut.amchar_to_int, r[1], hij) != ('ok', ams):
                R.violation('am_inverse', 'lut.amint_to_char', 'fused momentum list does not convert back', dict(am=ams, hij=hij, got=r))
            R.ev()

    # ---------------- electron_shells_start ----------------
    # the answers must not depend on what the library did before (writers use this table) nor on what a
    # caller does with a returned list: first use the library, then scribble on returned lists
    hist = 0
    for nm in ('lanl2dz', 'def2-ecp', 'stuttgart rlc', 'crenbl'):
        for fmt in sorted(bse.get_formats()):
            try:
                bse.get_basis(nm, fmt=fmt, elements=[29, 47, 79] if nm != 'def2-ecp' else None)
                hist += 1
            except Exception:
                pass
    for n in (0, 2, 10, 28, 46, 60, 78):
        r0 = call(lut.electron_shells_start, n)
        if r0[0] == 'ok':
            r0[1][0] += 7
            r0[1].append(99)
    R.extra['history_calls_before_table_checks'] = hist
    for n in range(-2, 131):
        r = call(lut.electron_shells_start, n)
        R.ev()
        if n >= 0:
            ask(dict(op='shells_start', n=n), 'start', (n, r))
        if r[0] == 'ok':
            R.nt(('start', n))
            st = r[1]
            acc = sum((st[l] - (l + 1)) * 2 * (2 * l + 1) for l in range(4))
            if acc != n or any(st[l] != l + 1 for l in range(4, len(st))):
                R.violation('shells_start_accounts', 'lut.electron_shells_start', 'starting quantum numbers do not account for the electrons given',
                            dict(n=n, start=st[:6], accounted=acc))
        for ma in (3, 5):
            r2 = call(lut.electron_shells_start, n, ma)
            if r2[0] != r[0] or (r[0] == 'ok' and r2[1][:4] != r[1][:4]):
                R.violation('shells_start_accounts', 'lut.electron_shells_start', 'max_am changes the s..f result', dict(n=n, max_am=ma))

    # ---------------- names ----------------
    md = bse.get_metadata()
    names = [v['display_name'] for v in md.values()]
    extra = ['6-31G*', 'def2-SVP/JK', 'A/B*C', 'x y(z)', 'aug-cc-pV(5+d)Z', 'PLAIN', 'a/b/c**', 'pcJ-0_2006']
    for key, v in list(md.items()) + [(None, dict(display_name=x)) for x in extra]:
        nm = v['display_name']
        f = call(misc.basis_name_to_filename, nm)
        t = call(misc.transform_basis_name, nm)
        R.ev()
        R.nt(('name', nm))
        if f[0] != 'ok' or t != f:
            R.violation('name_roundtrip', 'misc.basis_name_to_filename', 'file name differs from the transformed name', dict(name=nm, file=f, transformed=t))
            continue
        b = call(misc.basis_name_from_filename, f[1])
        if b != ('ok', nm.lower()):
            R.violation('name_roundtrip', 'misc.basis_name_from_filename', 'file name does not map back to the basis name', dict(name=nm, file=f[1], back=b))
        if key is not None and key != t[1]:
            R.violation('name_roundtrip', 'misc.transform_basis_name', 'index key is not the transformed display name', dict(name=nm, key=key, got=t[1]))
        if re.search(r'[/*\\:?"<>|]', f[1]) or f[1] != f[1].lower():
            R.violation('name_roundtrip', 'misc.basis_name_to_filename', 'file name contains a character that is not allowed', dict(name=nm, file=f[1]))
        ask(dict(op='name', s=nm), 'name', (nm, f[1], b))

    # ---------------- compact / expand ----------------
    sets = gen_sets(ctx)
    rng = ctx.rng
    nsets = 0
    for S in sets:
        inp = list(S)
        mode = rng.randrange(4)
        if mode == 1:
            rng.shuffle(inp)
        elif mode == 2:
            inp = inp + [rng.choice(inp) for _ in range(rng.randrange(1, 4))]
            rng.shuffle(inp)
        elif mode == 3:
            inp = [str(x) for x in inp]
        c = call(misc.compact_elements, inp)
        R.ev()
        nsets += 1
        want = sorted(set(int(x) for x in S))
        if c[0] != 'ok':
            if all(1 <= z <= 120 for z in want):
                R.violation('expand_compact_roundtrip', 'misc.compact_elements', 'compact_elements raises on known elements', dict(S=inp[:40], got=c))
            continue
        e = call(misc.expand_elements, c[1])
        es = call(misc.expand_elements, c[1], True)
        if e != ('ok', want) or es != ('ok', [str(x) for x in want]):
            R.violation('expand_compact_roundtrip', 'misc.expand_elements', 'expand_elements(compact_elements(S)) is not the sorted set S',
                        dict(S=inp[:60], compact=c[1], expanded=(e[1][:60] if e[0] == 'ok' else e)), size=len(want))
        R.nt(('set', c[1]))
        if nsets % 7 == 0 or len(want) < 6:
            ask(dict(op='compact', els=want), 'compact', (want, c[1]))
    # the empty set
    c = call(misc.compact_elements, [])
    e = call(misc.expand_elements, c[1]) if c[0] == 'ok' else c
    R.ev()
    if e != ('ok', []):
        R.violation('expand_compact_roundtrip', 'misc.expand_elements', 'expand_elements(compact_elements([])) is not []', dict(compact=c, expanded=e), size=0)

    # accepted notations: every form of the same set
    for _ in range(ctx.n(300, 3000)):
        S = sorted(rng.sample(range(1, 119), rng.randrange(1, 9)))
        forms = []
        for z in S:
            sym = lut.element_sym_from_Z(z)
            forms.append(rng.choice([z, str(z), sym, sym.upper(), sym.capitalize()]))
        variants = [forms, ','.join(str(x) for x in forms), ' , '.join(str(x) for x in forms), [str(x) for x in forms] + ['']]
        for v in variants:
            r = call(misc.expand_elements, v)
            R.ev()
            if r != ('ok', S):
                R.violation('expand_accepts', 'misc.expand_elements', 'a documented notation is not accepted / gives another set', dict(input=v, want=S, got=r))
        R.nt(('forms', str(forms)))
    for z in (1, 6, 118):
        if call(misc.expand_elements, z) != ('ok', [z]) or call(misc.expand_elements, z, True) != ('ok', [str(z)]):
            R.violation('expand_accepts', 'misc.expand_elements', 'a single int is not accepted', dict(z=z))

    # strings from the grammar (well-formed and malformed): model vs implementation, and the documented rejections
    for s in gen_strings(ctx, bse):
        r = call(misc.expand_elements, s)
        R.ev()
        R.count('expand:' + (r[0] if r[0] == 'ok' else r[1]))
        if r[0] == 'ok' and r[1]:
            R.nt(('str', s))
        norm = re.sub(r'\s+', '', re.sub(r'-+', '-', re.sub(r',+', ',', s))).strip(',')
        must_fail = norm and (norm.startswith('-') or norm.endswith('-') or '-,' in norm or ',-' in norm
                              or any(p.count('-') > 1 for p in norm.split(',')))
        if must_fail and r[0] == 'ok':
            R.violation('expand_rejects', 'misc.expand_elements', 'a dangling or chained range marker is accepted', dict(input=s, got=r[1][:30]))
        if r[0] == 'ok' and not must_fail:
            # independent reading of the string
            want = []
            okw = True
            for part in norm.split(',') if norm else []:
                ends = part.split('-')
                zs = []
                for t in ends:
                    if t.isdecimal():
                        zs.append(int(t))
                    else:
                        zz = [row[1] for row in lut._data_table if row[0] == t.lower()]
                        if not zz:
                            okw = False
                        else:
                            zs.append(zz[-1])
                if not okw:
                    break
                want += [zs[0]] if len(zs) == 1 else list(range(zs[0], zs[1] + 1))
            if not okw:
                R.violation('expand_rejects', 'misc.expand_elements', 'an unknown symbol is accepted', dict(input=s, got=r[1][:30]))
            elif want != r[1]:
                R.violation('expand_accepts', 'misc.expand_elements', 'expansion differs from the documented reading', dict(input=s, want=want[:40], got=r[1][:40]))
        ask(dict(op='expand', s=s), 'expand', (s, r))

    # ---------------- contraction_string ----------------
    els = []
    for (k, v) in sample_pairs(ctx, ctx.n(25, 200)):
        try:
            b = bse.get_basis(k, version=v)
        except Exception:
            continue
        for z, el in b['elements'].items():
            # contraction_string reads only the momenta and the list lengths: keep a skeleton, not the whole basis
            # (200 complete dictionaries held at once need tens of GB)
            sk = {}
            if 'electron_shells' in el:
                sk['electron_shells'] = [dict(angular_momentum=list(sh['angular_momentum']), exponents=['1.0'] * len(sh['exponents']),
                                              coefficients=[['1.0'] * len(c) for c in sh['coefficients']]) for sh in el['electron_shells']]
            if 'ecp_electrons' in el:
                sk['ecp_electrons'] = el['ecp_electrons']
            # the skeleton must give the same summary as the real element
            if call(misc.contraction_string, el) != call(misc.contraction_string, sk) or call(misc.contraction_string, el, True) != call(misc.contraction_string, sk, True):
                R.violation('contraction_counts', 'misc.contraction_string', 'summary depends on more than the momenta and the list lengths', dict(basis=k, z=z))
            els.append(sk)
        del b
    for _ in range(ctx.n(200, 2000)):
        shells = []
        for _ in range(rng.randrange(0, 7)):
            fused = rng.random() < 0.3
            am = sorted(rng.sample(range(0, 4), rng.randrange(2, 4))) if fused else [rng.choice([0, 1, 2, 3, 5, 7, 12])]
            npr = rng.randrange(1, 9)
            ng = len(am) if fused else rng.randrange(1, 5)
            shells.append(dict(angular_momentum=am, exponents=['1.0'] * npr, coefficients=[['1.0'] * npr] * ng))
        els.append(dict(electron_shells=shells) if shells or rng.random() < 0.5 else dict(ecp_electrons=2))
    pat = re.compile(r'^\((.*)\) -> \[(.*)\]$')
    for el in els:
        R.ev()
        s = call(misc.contraction_string, el)
        sc = call(misc.contraction_string, el, True)
        if 'electron_shells' not in el:
            if s != ('ok', ''):
                R.violation('contraction_counts', 'misc.contraction_string', 'ECP-only element has a contraction summary', dict(got=s))
            continue
        want = {}
        for sh in el['electron_shells']:
            for am in sh['angular_momentum']:
                p, c = want.get(am, (0, 0))
                want[am] = (p + len(sh['exponents']), c + (1 if len(sh['angular_momentum']) > 1 else len(sh['coefficients'])))
        m = pat.match(s[1]) if s[0] == 'ok' else None
        got = None
        if m:
            try:
                ps = [x for x in m.group(1).split(',') if x]
                cs = [x for x in m.group(2).split(',') if x]
                got = {lut.amchar_to_int(x[-1])[0]: (int(x[:-1]), int(y[:-1])) for x, y in zip(ps, cs)}
                if [x[-1] for x in ps] != [y[-1] for y in cs] or len(ps) != len(cs):
                    got = None
            except Exception:
                got = None
        if got != want:
            R.violation('contraction_counts', 'misc.contraction_string', 'summary does not count the primitives/contractions present',
                        dict(summary=s, want={str(k): v for k, v in want.items()}))
        comp = ''.join('%d%s' % (want[a][0], lut.amint_to_char([a])) for a in sorted(want)) + '.' + ''.join('%d%s' % (want[a][1], lut.amint_to_char([a])) for a in sorted(want))
        if sc != ('ok', comp):
            R.violation('contraction_counts', 'misc.contraction_string', 'compact summary differs', dict(summary=sc, want=comp))
        if want:
            R.nt(('contr', s[1]))
        ask(dict(op='contraction', shells=[dict(am=sh['angular_momentum'], nprim=len(sh['exponents']), ngen=len(sh['coefficients'])) for sh in el['electron_shells']]),
            'contr', want)

    R.sample(dict(set=[1, 2, 3, 6, 7, 8, 10], compact=misc.compact_elements([1, 2, 3, 6, 7, 8, 10])))
    R.sample(dict(string='H-N,8,Na-12', expanded=call(misc.expand_elements, 'H-N,8,Na-12')))
    R.sample(dict(name='6-31G**', file=misc.basis_name_to_filename('6-31G**')))
    R.sample(dict(nelectrons=28, start=lut.electron_shells_start(28)[:4]))

    # ---------------- correspondence with the Lean model ----------------
    if ctx.model_ok:
        answers = drive(reqs)
        for (kind, pl), req, ans in zip(post, reqs, answers):
            if 'drv_error' in ans:
                raise DriverError('%s on %s' % (ans['drv_error'], jdump(req)[:200]))
            bad = None
            if kind == 'lut':
                z, impl = pl
                for k in ('sym', 'symN', 'name'):
                    iv = impl[k][1] if impl[k][0] == 'ok' else None
                    if ans[k] != iv:
                        bad = (k, ans[k], impl[k])
            elif kind == 'zfrom':
                form, a, b = pl
                if form.isascii():
                    if ans['sym'] != (a[1] if a[0] == 'ok' else None) or ans['name'] != (b[1] if b[0] == 'ok' else None):
                        bad = (ans, a, b)
            elif kind == 'amchar':
                l, hij, r = pl
                if ans['c'] != (r[1] if r[0] == 'ok' else None):
                    bad = (ans, r)
            elif kind == 'amint':
                c, hij, r = pl
                if ans['l'] != (r[1][0] if r[0] == 'ok' else None):
                    bad = (ans, r)
            elif kind == 'start':
                n, r = pl
                if ans['start'] != (r[1][:4] if r[0] == 'ok' else None):
                    bad = (ans, r)
            elif kind == 'name':
                nm, f, b = pl
                if ans['file'] != f or ('ok', ans['back']) != b:
                    bad = (ans, f, b)
            elif kind == 'compact':
                want, c = pl
                if ans['out'] != c:
                    bad = (ans, c)
            elif kind == 'expand':
                s, r = pl
                if (r[0] == 'ok' and ans.get('ok') != r[1]) or (r[0] == 'err' and ans.get('err') != r[1]):
                    bad = (ans, r)
            elif kind == 'contr':
                got = {a: (p, c) for a, p, c in ans['map']}
                if got != pl:
                    bad = (ans, pl)
            if bad is not None:
                R.disagree(req['op'], req, bad[0] if not isinstance(bad[0], str) else bad, bad[-1], note=kind)
        R.extra['traces_validated_against_model'] = len(reqs)
    return R


def replay(ctx, payload):
    bse = import_bse()
    from basis_set_exchange import misc, lut
    w = payload.get('witness', {})
    rule = payload.get('rule')
    if rule == 'expand_compact_roundtrip' and 'S' in w:
        c = misc.compact_elements(w['S'])
        e = misc.expand_elements(c)
        print('compact ->', c, ' expand ->', e)
        return e == sorted(set(int(x) for x in w['S']))
    print('witness:', jdump(w)[:2000])
    return False
