"""C13 — generated auxiliary basis sets depend only on the orbital function space."""
import math
from common import *
from harness.shells import *

LEVEL = 'proof'
RULE = ('orbital store basis/versions (sample in quick, all in thorough) and generated orbital dictionaries, each in five equivalent representations '
        '(as stored, uncontract_general, make_general, uncontract_spdf + shuffled shells and primitives, optimize_general) through autoaux_basis and '
        'autoabs_basis (and get_basis(get_aux=1,2)); elements across the lval/linc thresholds Z = 2/3, 18/19, 20/21, 54/55, 56/57 by relabelling generated '
        'elements. One case = (basis, element, method). Non-trivial = distinct auxiliary element (content hash).')
ASSUMPTIONS = ['orbital momenta are contiguous from s upwards (AutoAux indexes its per-momentum tables by l; a gap makes autoaux_basis raise TypeError: counted, not judged)', 'floating-point evaluation (<r> of contractions, exp/log, repeated multiplication) is taken from the implementation; the logic around it is modelled '
               'exactly and printed exponents are compared at 7 significant digits', 'Faithful numbers']
TRUSTED = ['ints.py float integrals', 'math.exp/log/gamma']


def representations(bse, b, rng):
    from basis_set_exchange import manip
    reps = [('stored', b)]
    reps.append(('uncontract_general', manip.uncontract_general(b)))
    reps.append(('make_general', manip.make_general(b)))
    s = manip.uncontract_spdf(b, 0)
    for el in s['elements'].values():
        if 'electron_shells' in el:
            rng.shuffle(el['electron_shells'])
            for sh in el['electron_shells']:
                perm = list(range(len(sh['exponents'])))
                rng.shuffle(perm)
                sh['exponents'] = [sh['exponents'][i] for i in perm]
                sh['coefficients'] = [[c[i] for i in perm] for c in sh['coefficients']]
    reps.append(('spdf_split_shuffled', s))
    # every contraction multiplied by a constant of its own: the same function space (a contracted function is normalised by whoever
    # uses it; for a lone primitive the coefficient carries no information at all)
    from decimal import Decimal
    from fractions import Fraction as _F
    sc = copy.deepcopy(b)
    for el in sc['elements'].values():
        for sh in el.get('electron_shells', []):
            newc = []
            for col in sh['coefficients']:
                f = rng.choice([_F(1, 2), _F(-3), _F(1, 4), _F(2), _F(-1)])
                newc.append([genbasis.fmt_num(rng, abs(_F(Decimal(x.strip())) * f), negative=(_F(Decimal(x.strip())) * f < 0)) for x in col])
            sh['coefficients'] = newc
    reps.append(('contractions_rescaled', sc))
    # the order of the elements in the dictionary is part of the representation too (readers keep file order)
    if len(b['elements']) > 1:
        r = copy.deepcopy(b)
        r['elements'] = dict(reversed(list(r['elements'].items())))
        reps.append(('elements_reversed', r))
    return reps


def top_rung_only(ea, eb):
    """the two auxiliary elements are the same ladders except that one of them has one more rung at the top of one ladder (the ladder stops
    at the first rung >= its bound, and the bound is a float computed from the normalised contractions: at an exact boundary the last bit decides)"""
    if not ea or not eb:
        return False
    def ladders(el):
        d = {}
        for sh in el.get('electron_shells', []):
            d.setdefault(tuple(sh['angular_momentum']), []).append(sh['exponents'][0])
        return d
    la, lb = ladders(ea), ladders(eb)
    if set(la) != set(lb):
        return False
    extra = 0
    for l in la:
        a, b = la[l], lb[l]
        if a == b:
            continue
        lo, hi = (a, b) if len(a) < len(b) else (b, a)
        if len(hi) != len(lo) + 1:
            return False
        top = max(hi, key=float)
        rest = list(hi)
        rest.remove(top)
        if sorted(rest) != sorted(lo):
            return False
        extra += 1
    return extra == 1


def close7(printed, value):
    p = float(printed)
    return abs(p - value) <= abs(value) * 2e-6


def orbital_facts(el):
    """per-l min / max exponent from the function space (primitives with a non-zero coefficient somewhere)"""
    amin, amax = {}, {}
    for l, terms in el_funcset(el):
        for e, c in terms:
            amin[l] = min(amin.get(l, e), e)
            amax[l] = max(amax.get(l, e), e)
    return amin, amax


def amax_eff(bse, el):
    """effective exponents via the implementation's own <r> integrals on the general-contracted element"""
    from basis_set_exchange import manip
    from basis_set_exchange.ints import gto_R_contr
    g = manip.make_general(dict(elements={'1': dict(electron_shells=copy.deepcopy(el['electron_shells']))}, function_types=[]))
    out = {}
    for sh in g['elements']['1']['electron_shells']:
        l = sh['angular_momentum'][0]
        rmat = gto_R_contr(sh['exponents'], sh['coefficients'], l)
        k = 2 ** (2 * l + 1) * math.gamma(l + 2) ** 2 / math.gamma(2 * l + 3)
        eff = [2 * k ** 2 / (math.pi * rmat[i][i] ** 2) for i in range(len(sh['coefficients']))]
        out[l] = max(eff)
    return out


def judge_common(z, el, aux_el):
    bad = []
    shells = aux_el.get('electron_shells', [])
    for sh in shells:
        l = sh['angular_momentum']
        if len(l) != 1 or len(sh['exponents']) != 1 or sh['coefficients'] != [['1.0']] and not (len(sh['coefficients']) == 1 and len(sh['coefficients'][0]) == 1 and frac(sh['coefficients'][0][0]) == 1):
            bad.append(('aux_shape', 'an auxiliary shell is not a single unit-coefficient primitive'))
            break
        if not frac(sh['exponents'][0]) > 0:
            bad.append(('aux_shape', 'non-positive auxiliary exponent'))
        want_ft = 'gto' if l[0] < 2 else 'gto_spherical'
        if sh['function_type'] != want_ft:
            bad.append(('aux_shape', 'auxiliary function type %s for l=%d' % (sh['function_type'], l[0])))
    return bad


def judge_autoaux(bse, z, el, aux_el, req_out):
    bad = judge_common(z, el, aux_el)
    amin, amaxp = orbital_facts(el)
    lmax = max(amin)
    Z = int(z)
    lval = 0 if Z <= 2 else 1 if Z <= 20 else 2 if Z <= 56 else 3
    linc = 1 if Z <= 18 else 2
    lmax_aux = min(max(2 * lval, lmax + linc), 2 * lmax)
    ladders = {}
    for sh in aux_el.get('electron_shells', []):
        ladders.setdefault(sh['angular_momentum'][0], []).append(sh['exponents'][0])
    if sorted(ladders) != list(range(lmax_aux + 1)):
        bad.append(('am_cap', 'auxiliary momenta %s, the documented cap gives 0..%d' % (sorted(ladders), lmax_aux)))
        return bad
    eff = amax_eff(bse, el)
    flaux = [20, 7.0, 4.0, 4.0, 3.5, 2.5, 2.0, 2.0]
    blaux = [1.8, 2.0, 2.2, 2.2, 2.2, 2.3, 3.0, 3.0]
    for laux, lad in ladders.items():
        pairs = [(l, lp) for l in range(lmax + 1) for lp in range(l, lmax + 1) if abs(l - lp) <= laux <= l + lp and l in amin and lp in amin]
        if not pairs:
            continue
        start = min(amin[l] + amin[lp] for l, lp in pairs)
        if not close7(lad[0], float(start)):
            bad.append(('ladder_start', 'l=%d: ladder starts at %s, the sum of the two smallest coupling orbital exponents is %.7g' % (laux, lad[0], float(start))))
        b = 1.8 if laux <= 2 * lval else blaux[min(laux, 7)]
        vals = [float(x) for x in lad]
        for x, y in zip(vals, vals[1:]):
            if abs(y / x - b) > 1e-5 * b:
                bad.append(('ladder_ratio', 'l=%d: ratio %.6f instead of the published %.2f' % (laux, y / x, b)))
                break
        maxp = max(float(amaxp[l] + amaxp[lp]) for l, lp in pairs)
        maxe = max(eff[l] + eff[lp] for l, lp in pairs)
        bound = min(flaux[laux] * maxe, maxp) if laux <= 2 * lval else maxe
        if vals[-1] < bound * (1 - 2e-6):
            bad.append(('ladder_reaches', 'l=%d: ladder ends at %.6g below the required upper bound %.6g' % (laux, vals[-1], bound)))
        if len(vals) > 1 and vals[-2] >= bound * (1 + 2e-6):
            bad.append(('ladder_reaches', 'l=%d: ladder goes on after the upper bound was reached' % laux))
    # request for the model
    L = lmax + 1
    fr = lambda x: [Fraction(x).numerator, Fraction(x).denominator]
    if all(l in amin for l in range(L)):
        req_out.append((dict(op='autoaux_plan', Z=Z, amin=[fr(amin[l]) for l in range(L)], amax_prim=[fr(amaxp[l]) for l in range(L)],
                             amax_eff=[fr(Fraction(eff[l])) for l in range(L)]), ladders))
    return bad


def judge_autoabs(bse, z, el, aux_el, req_out):
    bad = judge_common(z, el, aux_el)
    amin, amaxp = orbital_facts(el)
    lmax = max(amin)
    Z = int(z)
    lval = 0 if Z <= 2 else 1 if Z <= 18 else 2 if Z <= 54 else 3
    lmax_aux = min(max(2 * lval, lmax + 1), 2 * lmax)
    got_am = [sh['angular_momentum'][0] for sh in aux_el.get('electron_shells', [])]
    if got_am and max(got_am) > lmax_aux:
        bad.append(('am_cap', 'AutoABS momentum %d above the cap %d' % (max(got_am), lmax_aux)))
    # candidates = doubled exponents of the distinct primitives of the function space
    prims = sorted(set((2 * e, l) for l, terms in el_funcset(el) for e, c in terms), reverse=True)
    fr = lambda x: [Fraction(x).numerator, Fraction(x).denominator]
    got = [(sh['exponents'][0], sh['angular_momentum'][0]) for sh in aux_el.get('electron_shells', [])]
    # the grouping compares float ratios with fsam; an exact ratio of 3/2 sits on the boundary where float and exact arithmetic disagree
    es = sorted(set(e for e, l in prims), reverse=True)
    boundary = any(abs(float(a / b) - 1.5) < 1e-9 for i, a in enumerate(es) for b in es[i + 1:i + 12])
    if not boundary:
        req_out.append((dict(op='autoabs_groups', Z=Z, lmax=lmax, lmaxinc=1, fsam=[3, 2], cands=[[fr(e), l] for e, l in prims]), got))
    return bad


def work(item):
    bse = import_bse()
    from basis_set_exchange import manip
    import random
    label, src, seed = item
    rng = random.Random(seed)
    out = dict(label=label, cases=[], reqs=[], error=None)
    try:
        b = src if isinstance(src, dict) else bse.get_basis(src[0], version=src[1])
    except Exception as e:
        out['error'] = type(e).__name__
        return out
    if not wf_basis(b) or not any('electron_shells' in el for el in b['elements'].values()):
        out['error'] = 'no-shells'
        return out
    # the methods are defined for orbital sets whose momenta are contiguous from s upwards
    for el in b['elements'].values():
        ls = set(l for sh in el.get('electron_shells', []) for l in sh['angular_momentum'])
        if ls and ls != set(range(max(ls) + 1)):
            out['error'] = 'momentum-gap'
            return out
    try:
        reps = representations(bse, b, rng)
    except Exception as e:
        out['error'] = 'rep:' + type(e).__name__
        return out
    import io, contextlib
    for method, fn in (('autoaux', manip.autoaux_basis), ('autoabs', manip.autoabs_basis)):
        results = []
        for rname, rb in reps:
            try:
                with contextlib.redirect_stdout(io.StringIO()):
                    results.append((rname, fn(copy.deepcopy(rb))))
            except Exception as e:
                results.append((rname, 'raise %s: %s' % (type(e).__name__, str(e)[:80])))
        if not isinstance(src, dict) and method == 'autoaux':
            try:
                with contextlib.redirect_stdout(io.StringIO()):
                    via = bse.get_basis(src[0], version=src[1], get_aux=1)
                results.append(('get_basis(get_aux=1)', via))
            except Exception as e:
                results.append(('get_basis(get_aux=1)', 'raise ' + type(e).__name__))
        base = results[0][1]
        rec = dict(method=method, bad=[], els=[])
        if isinstance(base, str):
            rec['raised'] = base
            out['cases'].append(rec)
            continue
        for rname, r in results[1:]:
            if isinstance(r, str) or r['elements'] != base['elements']:
                zs = [z for z in base['elements'] if isinstance(r, str) or r['elements'].get(z) != base['elements'][z]]
                rec['bad'].append(('representation_independent', '%s of the %s representation differs from that of the stored one' % (method, rname),
                                   dict(elements=zs[:5], top_rung_only=(not isinstance(r, str)) and all(top_rung_only(base['elements'][z], r['elements'].get(z)) for z in zs))))
        want_els = [z for z, el in b['elements'].items() if 'electron_shells' in el]
        if list(base['elements']) != want_els:
            rec['bad'].append(('covers_elements_with_functions', 'auxiliary basis covers %s, the orbital functions cover %s' % (list(base['elements'])[:6], want_els[:6]), {}))
        for z in want_els:
            if z not in base['elements']:
                continue
            rq = []
            judge = judge_autoaux if method == 'autoaux' else judge_autoabs
            bad = judge(bse, z, b['elements'][z], base['elements'][z], rq)
            rec['els'].append(dict(z=z, bad=bad, hash=hashlib.sha1(jdump(base['elements'][z]).encode()).hexdigest()))
            out['reqs'] += [(method, label, z, a, bq) for a, bq in rq]
        out['cases'].append(rec)
        # the caller does what it likes with what it was given (say, writes normalisation constants over the unit coefficients): later
        # results - of this process, for any basis - must not show it
        for _, r in results:
            if isinstance(r, dict):
                for el in r['elements'].values():
                    for sh in el.get('electron_shells', []):
                        sh['coefficients'][0][0] = '7.7'
                        sh['exponents'][0] = '0.123'
    return out


def relabel(b, zs):
    """put the generated elements at chosen atomic numbers (to sit on the thresholds)"""
    els = list(b['elements'].values())
    b = dict(b)
    b['elements'] = {str(z): el for z, el in zip(zs, els)}
    return b


def run(ctx):
    bse = import_bse()
    R = Result('C13')
    md = bse.get_metadata()
    orbital = lambda p: md[p[0]]['role'] == 'orbital'
    items = [('%s/%s' % p, p, '%s-%d' % (p[0], ctx.seed)) for p in sample_pairs(ctx, ctx.n(26, 10 ** 6), orbital)]
    thr = [2, 3, 18, 19, 20, 21, 54, 55, 56, 57]
    for i in range(ctx.n(60, 1000)):
        # now and then elements with momenta up to l = 8..11 (the tables of the method end at l = 7 and are clamped beyond)
        g = genbasis.gen_basis(ctx.rng, nel=3, kinds=(['highl', 'plain'] if i % 10 == 9 else ['general', 'plain', 'pople', 'shared']))
        g = relabel(g, sorted(ctx.rng.sample(thr, 3)))
        items.append(('gen%d' % i, g, 'g%d-%d' % (i, ctx.seed)))
    reqs = []
    for i in range(0, len(items), 60):
        for out in pmap(work, items[i:i + 60]):
            if out['error']:
                R.count('skip:' + out['error'])
                continue
            for rec in out['cases']:
                site = 'manip.%s_basis' % rec['method']
                if 'raised' in rec:
                    R.ev()
                    R.violation('aux_raises', site, rec['raised'], dict(basis=out['label']))
                    continue
                for rule, what, extra in rec['bad']:
                    R.violation(rule, site, what, dict(basis=out['label'], **{k: v for k, v in extra.items() if k != 'top_rung_only'}),
                                **({'top_rung_only': extra['top_rung_only']} if 'top_rung_only' in extra else {}))
                for e in rec['els']:
                    R.ev()
                    R.nt(e['hash'])
                    R.count('Z-band:%s' % ('<=2' if int(e['z']) <= 2 else '<=18' if int(e['z']) <= 18 else '<=20' if int(e['z']) <= 20 else '<=54' if int(e['z']) <= 54 else '<=56' if int(e['z']) <= 56 else '>56'))
                    for rule, what in e['bad']:
                        R.violation(rule, site, what, dict(basis=out['label'], element=e['z']))
                    R.sample(dict(basis=out['label'], element=e['z'], method=rec['method']))
            reqs += out['reqs']
    if ctx.model_ok and reqs:
        ans = drive([r[3] for r in reqs])
        for a, (method, label, z, rq, got) in zip(ans, reqs):
            if 'drv_error' in a:
                raise DriverError(a['drv_error'])
            w = dict(basis=label, element=z, method=method)
            if method == 'autoaux':
                plan = {l: xs for l, xs in a['plan']}
                bounds = {l: float(Fraction(x)) for l, x in a['bounds']}

                def ladder_same(l):
                    pl, gl = plan[l], got[l]
                    if not all(close7(g, float(Fraction(p))) for p, g in zip(pl, gl)):
                        return False
                    if len(pl) == len(gl):
                        return True
                    # the loop stops at the first rung >= the bound; when a rung equals the bound up to float rounding (0.4 vs
                    # 0.2 + 0.2 = 0.4000000000000001) exact and float arithmetic may stop one rung apart
                    k = min(len(pl), len(gl)) - 1
                    if abs(len(pl) - len(gl)) == 1 and k >= 0 and abs(float(Fraction(pl[k])) - bounds[l]) <= 1e-9 * abs(bounds[l]):
                        R.count('ladder_stop_on_float_boundary')
                        return True
                    return False
                ok = sorted(plan) == sorted(got) and all(ladder_same(l) for l in plan)
                if not ok:
                    R.disagree('autoaux_plan', w, str({l: [float(Fraction(x)) for x in xs][:4] for l, xs in plan.items()})[:300], str({l: v[:4] for l, v in got.items()})[:300])
            else:
                exp = []
                for grp, m in a['groups']:
                    vals = [float(Fraction(x)) for x in grp]
                    mean = math.exp(sum(math.log(v) for v in vals) / len(vals))
                    for l in range(m + 1):
                        exp.append((mean, l))
                ok = len(exp) == len(got) and all(l == gl and close7(gx, mean) for (mean, l), (gx, gl) in zip(exp, got))
                if not ok:
                    R.disagree('autoabs_groups', w, str(exp[:6]), str(got[:6]))
        R.extra['traces_validated_against_model'] = len(reqs)
    return R


def replay(ctx, payload):
    print('witness:', jdump(payload.get('witness'))[:800])
    return False
