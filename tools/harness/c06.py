"""C06 — caching is invisible: results do not depend on call history, aliasing or threads.
(1) every binding shape of every memoised signature: real `_make_key` vs the Lean model vs Python's own
binding; (2) random operation sequences with cache toggles, scrambling of returned objects and threads,
every result compared with a reference process in which memoisation is switched off."""
import inspect, pickle, itertools, threading, multiprocessing as mp, shutil, tempfile
from common import *
import gendir

LEVEL = 'proof'
RULE = ('(1) all positional-prefix x keyword-subset call shapes (incl. one unknown keyword and one surplus positional) of the memoised signatures, '
        'enumerated completely; (2) random sequences over the memoised API (get_basis with options, get_metadata, get_reference_data, notes, families, '
        'filter_basis_sets, get_references, has_*_notes) on the shipped directory, the same directory under an explicit path and a second small directory, '
        'spelled positionally / by keyword / by default, with cache toggles and scrambling of every returned object, run single-threaded and on 2..16 threads. '
        'Non-trivial = distinct (call, spelling).')
ASSUMPTIONS = ['data directories are not modified during a sequence', 'dict get/set are atomic under the GIL (the state-machine theorem works at that granularity)',
               'pickle round-trips the argument vectors and results used here']
TRUSTED = ['CPython pickle, threading']


def scramble(x, rng):
    """arbitrary caller mutation of a returned object"""
    try:
        if isinstance(x, dict):
            for k in list(x)[:3]:
                if isinstance(x[k], (dict, list)):
                    scramble(x[k], rng)
            if x and rng.random() < 0.5:
                x.pop(next(iter(x)))
            x['__scribble__'] = [1, 2, 3]
        elif isinstance(x, list):
            for v in x[:3]:
                if isinstance(v, (dict, list)):
                    scramble(v, rng)
            x.append('__scribble__')
            if len(x) > 2:
                x.reverse()
    except Exception:
        pass


def ref_worker(conn):
    """reference process: memoisation off, answers calls"""
    bse = import_bse()
    from basis_set_exchange import memo, api
    memo.memoize_enabled = False
    while True:
        msg = conn.recv()
        if msg is None:
            break
        fn, args, kw = msg
        try:
            r = getattr(api, fn)(*args, **kw)
            conn.send(('ok', pickle.dumps(r)))
        except Exception as e:
            conn.send(('err', type(e).__name__))


class Ref:
    def __init__(self):
        ctx = mp.get_context('fork')
        self.conn, child = ctx.Pipe()
        self.p = ctx.Process(target=ref_worker, args=(child,), daemon=True)
        self.p.start()
        self.cache = {}

    def ask(self, fn, args, kw):
        k = pickle.dumps((fn, args, sorted(kw.items())))
        if k not in self.cache:
            self.conn.send((fn, args, kw))
            self.cache[k] = self.conn.recv()
        return self.cache[k]

    def close(self):
        try:
            self.conn.send(None)
            self.p.join(5)
        except Exception:
            pass


FALSY = ['', 0, False, (), 0.0]


def binding_shapes(R, ctx):
    """part 1: exhaustive over the signatures"""
    bse = import_bse()
    from basis_set_exchange import memo, api, compose
    sites = []
    for mod in (api, compose):
        for name, obj in vars(mod).items():
            if isinstance(obj, memo.BSEMemoize):
                sites.append((mod.__name__.split('.')[-1] + '.' + name, obj))
    R.extra['memoised_functions'] = sorted(s[0] for s in sites)
    reqs, meta = [], []
    for name, obj in sites:
        spec = obj.args_spec
        params = list(spec.args)
        nd = len(spec.defaults or ())
        sig = inspect.signature(obj.__wrapped__)
        for npos in range(len(params) + 2):
            pos = list(range(1, npos + 1))
            names = params + ['zz']
            for r in range(len(names) + 1):
                for ks in itertools.combinations(names, r):
                    kw = {k: 50 + i for i, k in enumerate(ks)}
                    R.ev()
                    try:
                        ba = sig.bind(*pos, **kw)
                        ba.apply_defaults()
                        bound = list(ba.arguments.values())
                    except TypeError:
                        bound = None
                    try:
                        key = memo._make_key(spec, *pos, **kw)
                        got = ('none',) if key is None else ('key', pickle.loads(key))
                    except Exception as e:
                        got = ('raise', type(e).__name__)
                    w = dict(function=name, positional=len(pos), keywords=sorted(kw))
                    if bound is not None:
                        R.nt((name, npos, ks))
                        # defaults in the bound vector are the real default objects; positional/keyword values are our markers
                        if got[0] != 'key' or got[1] != bound:
                            R.violation('key_is_binding', 'memo._make_key', 'key differs from the argument vector Python binds', dict(w, key=str(got)[:80], bound=str(bound)[:80]))
                    else:
                        if got[0] == 'key':
                            R.violation('unbindable_gets_key', 'memo._make_key', 'a call Python cannot bind gets a cache key', w)
                        elif got[0] == 'raise' and got[1] != 'TypeError':
                            R.violation('unbindable_gets_key', 'memo._make_key', 'an unbindable call raises %s instead of TypeError' % got[1], w)
                    # the same shape with falsy argument values ('' is a legitimate data_dir, 0 a legitimate version): the key must still
                    # be the bound vector — a key builder that tests values for truth instead of presence would substitute defaults
                    fpos = [FALSY[i % len(FALSY)] for i in range(len(pos))]
                    fkw = {k: FALSY[(i + len(pos)) % len(FALSY)] for i, k in enumerate(ks)}
                    try:
                        fba = sig.bind(*fpos, **fkw)
                        fba.apply_defaults()
                        fbound = list(fba.arguments.values())
                    except TypeError:
                        fbound = None
                    if fbound is not None:
                        R.ev()
                        try:
                            fkey = memo._make_key(spec, *fpos, **fkw)
                            fgot = None if fkey is None else pickle.loads(fkey)
                        except Exception as e:
                            fgot = 'raise ' + type(e).__name__
                        if fgot is None or isinstance(fgot, str) or [repr(x) for x in fgot] != [repr(x) for x in fbound]:
                            R.violation('key_is_binding', 'memo._make_key', 'with falsy argument values the key differs from the argument vector Python binds',
                                        dict(w, values='falsy', key=str(fgot)[:80], bound=str(fbound)[:80]))
                    if ctx.model_ok:
                        reqs.append(dict(op='make_key', args=params, defaults=[900 + i for i in range(nd)], pos=pos, kw=[[k, v] for k, v in kw.items()]))
                        meta.append((w, got, bound, spec.defaults or ()))
    if ctx.model_ok and reqs:
        ans = drive(reqs)
        for a, (w, got, bound, defaults) in zip(ans, meta):
            if 'drv_error' in a:
                raise DriverError(a['drv_error'])
            dm = {900 + i: d for i, d in enumerate(defaults)}
            mk = ('key', [dm.get(x, x) for x in a['key']]) if 'key' in a else (('none',) if 'none' in a else ('raise',))
            if mk[0] != got[0] or (mk[0] == 'key' and mk[1] != got[1]):
                R.disagree('make_key', w, str(mk)[:100], str(got)[:100])
            mb = None if a['bound'] is None else [dm.get(x, x) for x in a['bound']]
            if mb != bound:
                R.disagree('bound', w, str(mb)[:100], str(bound)[:100], note='model of Python binding differs from inspect.signature.bind')
        R.extra['shapes_validated_against_model'] = len(reqs)
    R.exhaustive = True


def make_calls(bse, rng, d2):
    """pool of (fn, args, kw) in several spellings; data_dir None / explicit default / second directory"""
    dd = bse.get_data_dir()
    names = ['sto-3g', '6-31G', 'cc-pVDZ', 'def2-SVP', 'lanl2dz']
    fams = ['pople', 'dunning', 'ahlrichs']
    calls = []

    def spell(fn, posargs, named, dirs=(None, dd)):
        """the same call with its arguments given positionally or by keyword, data_dir by default/keyword/positional"""
        for d in dirs:
            for k in range(len(posargs) + 1):
                a = list(posargs[:k])
                kw = dict(zip(named[k:], posargs[k:]))
                calls.append((fn, a, dict(kw)))
                calls.append((fn, a, dict(kw, data_dir=d)))
            if named and len(named) == len(posargs) and fn not in ('get_basis', 'get_references', 'filter_basis_sets'):
                calls.append((fn, list(posargs) + [d], {}))
    for fn in ('get_metadata', 'get_reference_data', 'get_families', 'get_all_basis_names'):
        spell(fn, [], [], dirs=(None, dd, d2))
    for n in names:
        spell('get_basis_notes', [n], ['name'])
        spell('has_basis_notes', [n], ['family'])
        for kw in ({}, dict(elements=[1, 6]), dict(uncontract_general=True), dict(make_general=True, elements='H-C'), dict(fmt='nwchem', elements=[1]),
                   dict(optimize_general=True, elements=[6])):
            calls.append(('get_basis', [n], dict(kw)))
            calls.append(('get_basis', [], dict(kw, name=n, data_dir=dd)))
        calls.append(('get_references', [n], dict(elements=[1])))
        calls.append(('get_references', [n], dict(fmt='bib', elements=[1, 6], data_dir=dd)))
    for f in fams:
        spell('get_family_notes', [f], ['family'])
        spell('has_family_notes', [f], ['family'])
        calls.append(('filter_basis_sets', [], dict(family=f)))
        calls.append(('filter_basis_sets', [], dict(family=f, data_dir=dd, elements=[1])))
    calls.append(('filter_basis_sets', [], dict(substr='aug', role='orbital')))
    calls.append(('lookup_basis_by_role', ['def2-svp', 'jkfit'], {}))
    # second directory: its own names
    for fn in ('get_metadata', 'get_families', 'get_all_basis_names'):
        calls.append((fn, [], dict(data_dir=d2)))
        calls.append((fn, [d2], {}))
    return calls


def sequences(R, ctx):
    bse = import_bse()
    from basis_set_exchange import memo, api
    rng = ctx.rng
    tmp = ctx.tmpdir()
    d2 = os.path.join(tmp, 'second')
    os.makedirs(d2)
    files, index, info = gendir.gen_dir(rng, nbases=2)
    gendir.write_dir(d2, files, index)
    with open(os.path.join(d2, 'NOTES.fam0'), 'w') as fh:
        fh.write('notes of fam0')
    # a third directory without any basis set: its index is `{}`, its family list `[]` - results that are falsy and mutable
    d3 = os.path.join(tmp, 'third')
    os.makedirs(d3)
    json.dump({}, open(os.path.join(d3, 'METADATA.json'), 'w'))
    shutil.copy(os.path.join(d2, 'REFERENCES.json'), os.path.join(d3, 'REFERENCES.json'))
    ref = Ref()   # forked before any API call of this process: empty caches, memoisation off
    calls = make_calls(bse, rng, d2)
    empties = []
    for fn in ('get_metadata', 'get_families', 'get_all_basis_names'):
        empties += [(fn, [], dict(data_dir=d3)), (fn, [d3], {})]
    empties += [('filter_basis_sets', [], dict(data_dir=d3)), ('filter_basis_sets', [], dict(data_dir=d3, substr='a')),
                ('get_family_notes', ['fam0'], dict(data_dir=d3)), ('has_family_notes', ['fam0', d3], {})]
    calls += empties
    for k, (key0, vs) in enumerate(info['bases']):
        calls.append(('get_basis', [key0], dict(data_dir=d2)))
        calls.append(('get_basis', [], dict(name=key0, data_dir=d2, version=vs[0])))
    R.extra['distinct_calls_in_pool'] = len(calls)
    lock = threading.Lock()

    def do(call, trng, tag):
        fn, args, kw = call
        try:
            r = ('ok', getattr(api, fn)(*copy.deepcopy(args), **copy.deepcopy(kw)))
        except Exception as e:
            r = ('err', type(e).__name__)
        with lock:
            want = ref.ask(fn, args, kw)
            R.ev()
            R.nt(jdump([fn, args, sorted(kw.items())]))
            got = ('ok', pickle.dumps(r[1])) if r[0] == 'ok' else r
            same = (got[0] == want[0]) and ((got[1] == want[1]) if got[0] == 'err' else (pickle.loads(want[1]) == r[1]))
            if not same:
                R.violation('differs_from_uncached', 'memo.BSEMemoize', '%s returns something else than a fresh uncached process (%s)' % (fn, tag),
                            dict(function=fn, args=str(args)[:100], kwargs=str(sorted(kw.items()))[:160], schedule=tag,
                                 got=(r[1] if r[0] == 'err' else 'value'), want=(want[1] if want[0] == 'err' else 'value')), function=fn)
        if r[0] == 'ok':
            scramble(r[1], trng)

    nseq = ctx.n(16, 150)
    for s in range(nseq):
        # fresh caches for each sequence: clear the memo dictionaries
        for mod in (api, __import__('basis_set_exchange.compose', fromlist=['x'])):
            for obj in vars(mod).values():
                if isinstance(obj, memo.BSEMemoize):
                    obj._BSEMemoize__memo.clear()
        memo.memoize_enabled = True
        nthreads = [1, 1, 2, 4, 8, 16][s % 6]
        # half of the operations come from a small hot set, so that the same call is repeated (and its first result scrambled in between)
        hot = rng.sample(calls, 5) + rng.sample(empties, 2)
        ops = [rng.choice(hot) if rng.random() < 0.5 else rng.choice(calls) for _ in range(ctx.n(40, 80))]
        toggles = set(rng.sample(range(len(ops)), 3))
        if nthreads == 1:
            import random
            for i, c in enumerate(ops):
                if i in toggles:
                    memo.memoize_enabled = not memo.memoize_enabled
                do(c, rng, 'sequence %d, single thread' % s)
        else:
            import random
            chunks = [ops[i::nthreads] for i in range(nthreads)]

            def runner(chunk, seed):
                trng = random.Random(seed)
                for i, c in enumerate(chunk):
                    if trng.random() < 0.05:
                        memo.memoize_enabled = not memo.memoize_enabled
                    do(c, trng, 'sequence %d, %d threads' % (s, nthreads))
            ths = [threading.Thread(target=runner, args=(ch, '%d-%d-%d' % (ctx.seed, s, i))) for i, ch in enumerate(chunks)]
            for t in ths:
                t.start()
            for t in ths:
                t.join()
        R.count('threads:%d' % nthreads)
    memo.memoize_enabled = True
    ref.close()
    R.sample(dict(call=['get_metadata', [], {'data_dir': '<second directory>'}], note='must not receive the default directory\'s result'))
    R.sample(dict(call=['get_basis', ['6-31G'], {'uncontract_general': True}], note='first call for a key, result scrambled afterwards'))


def run(ctx):
    R = Result('C06')
    sequences(R, ctx)       # first: the reference process must be forked before this process fills any cache
    binding_shapes(R, ctx)
    return R


def replay(ctx, payload):
    print('witness:', jdump(payload.get('witness'))[:1200])
    print('re-run ./check C06 with the same VERIF_SEED: the sequence is regenerated from the seed')
    return False
