"""C18 — the validator accepts exactly the well-formed basis data.
Valid dictionaries (generated + store) must be accepted; every single-rule mutation must be rejected.
The semantic rules are also evaluated by the Lean model (`validate_el`) on the same element data."""
from common import *
from harness.shells import *

LEVEL = 'proof'
RULE = ('generated valid dictionaries in the three forms (complete / minimal / component) and every single-rule mutation of them (semantic rules and '
        'schema rules, at a random position each), plus store data (must be accepted). Non-trivial = distinct (dictionary, mutation class, position).')
ASSUMPTIONS = ['number strings are decimal literals (nan/inf are probed separately as recorded cases)']
TRUSTED = ['jsonschema package: generic schema engine (exercised through the schema mutations, not proved)']


def to_kind(b, kind):
    b = copy.deepcopy(b)
    if kind == 'complete':
        return b
    if kind == 'minimal':
        return dict(molssi_bse_schema=dict(schema_type='minimal', schema_version='0.1'), function_types=b['function_types'],
                    elements={z: {k: v for k, v in el.items() if k != 'references'} for z, el in b['elements'].items()})
    els = {}
    for z, el in b['elements'].items():
        e = dict(el)
        e['references'] = ['ref1']
        els[z] = e
    return dict(molssi_bse_schema=dict(schema_type='component', schema_version='0.1'), description='d', data_source='gen', elements=els)


def pick_shell(rng, b, pred=lambda sh: True):
    c = [(z, i) for z, el in b['elements'].items() for i, sh in enumerate(el.get('electron_shells', [])) if pred(sh)]
    return rng.choice(c) if c else None


def pick_pot(rng, b, pred=lambda p: True):
    c = [(z, i) for z, el in b['elements'].items() for i, p in enumerate(el.get('ecp_potentials', [])) if pred(p)]
    return rng.choice(c) if c else None


def zero_like(x):
    return '0.0000000E+00'


def mutations(rng, b, kind):
    """list of (class, semantic?, mutated dictionary)"""
    out = []

    def mut(name, semantic, fn, pred=lambda sh: True, pot=False):
        m = copy.deepcopy(b)
        at = (pick_pot if pot else pick_shell)(rng, m, pred)
        if at is None:
            return
        z, i = at
        tgt = m['elements'][z]['ecp_potentials' if pot else 'electron_shells'][i]
        if fn(tgt, m['elements'][z]) is False:
            return
        out.append((name, semantic, m, z))

    def nprim(sh):
        return len(sh['exponents'])
    # ---- semantic rules on shells
    mut('exponent_zero', True, lambda sh, el: sh['exponents'].__setitem__(rng.randrange(nprim(sh)), '0.0'))
    mut('exponent_negative', True, lambda sh, el: sh['exponents'].__setitem__(0, '-' + sh['exponents'][0].strip()))
    mut('exponent_duplicate_respelled', True, lambda sh, el: sh['exponents'].__setitem__(1, genbasis.respell(rng, sh['exponents'][0])), lambda sh: nprim(sh) > 1)
    mut('row_too_short', True, lambda sh, el: sh['coefficients'][rng.randrange(len(sh['coefficients']))].pop(), lambda sh: nprim(sh) > 1)
    mut('row_too_long', True, lambda sh, el: sh['coefficients'][0].append('1.0'))
    mut('all_zero_contraction', True, lambda sh, el: sh['coefficients'].__setitem__(rng.randrange(len(sh['coefficients'])), [zero_like(x) for x in sh['exponents']]))

    def unused(sh, el):
        k = rng.randrange(nprim(sh))
        for c in sh['coefficients']:
            c[k] = '0.0'
        if any(all(frac(x) == 0 for x in c) for c in sh['coefficients']):
            return False
    mut('unused_primitive', True, unused, lambda sh: nprim(sh) > 1)
    mut('duplicate_contraction', True, lambda sh, el: sh['coefficients'].append([genbasis.respell(rng, x) for x in sh['coefficients'][0]]),
        lambda sh: len(sh['angular_momentum']) == 1)
    mut('fused_extra_contraction', True, lambda sh, el: sh['coefficients'].append(list(sh['coefficients'][0])), lambda sh: len(sh['angular_momentum']) > 1)
    mut('fused_missing_contraction', True, lambda sh, el: sh['coefficients'].pop(), lambda sh: len(sh['angular_momentum']) > 1)
    mut('tag_missing_high_l', True, lambda sh, el: sh.__setitem__('function_type', 'gto'), lambda sh: max(sh['angular_momentum']) > 1)
    mut('tag_present_low_l', True, lambda sh, el: sh.__setitem__('function_type', rng.choice(['gto_spherical', 'gto_cartesian'])),
        lambda sh: max(sh['angular_momentum']) <= 1)
    # ---- semantic rules on ECPs
    mut('ecp_fused_momentum', True, lambda p, el: p['angular_momentum'].append(p['angular_momentum'][0] + 7), pot=True)

    def dup_am(p, el):
        others = [q for q in el['ecp_potentials'] if q is not p]
        if not others:
            return False
        p['angular_momentum'] = list(others[0]['angular_momentum'])
    mut('ecp_momentum_twice', True, dup_am, pot=True)
    mut('ecp_list_lengths', True, lambda p, el: p['r_exponents'].append(2), pot=True)
    mut('ecp_row_length', True, lambda p, el: p['coefficients'][0].append('1.0'), pot=True)
    mut('ecp_zero_column', True, lambda p, el: p['coefficients'].__setitem__(0, ['0.0'] * len(p['r_exponents'])), lambda p: len(p['r_exponents']) > 1, pot=True)
    def zero_single(p, el):
        top = max(q['angular_momentum'] for q in el['ecp_potentials'])
        if p['angular_momentum'] == top:
            return False
        p['r_exponents'] = [2]
        p['gaussian_exponents'] = ['1.0']
        p['coefficients'] = [['0.0']]
    mut('ecp_zero_single_term_below_highest', True, zero_single, pot=True)
    mut('ecp_duplicate_column', True, lambda p, el: p['coefficients'].append([genbasis.respell(rng, x) for x in p['coefficients'][0]]), pot=True)
    mut('ecp_no_electron_count', True, lambda p, el: el.pop('ecp_electrons'), pot=True)
    # ---- the same rules with the type names of the schema that no stored basis uses ('sto', 'spinorbit_ecp'); `function_types` is brought
    # up to date so that the injected violation stays the only one
    def retype(m):
        if 'function_types' in m:
            from basis_set_exchange import compose
            m['function_types'] = compose._whole_basis_types(m)
    m = copy.deepcopy(b)
    at = pick_shell(rng, m, lambda sh: max(sh['angular_momentum']) > 1)
    if at:
        m['elements'][at[0]]['electron_shells'][at[1]]['function_type'] = 'sto'
        retype(m)
        out.append(('tag_missing_high_l_sto', True, m, at[0]))
    m = copy.deepcopy(b)
    at = pick_pot(rng, m)
    if at and len(m['elements'][at[0]]['ecp_potentials']) > 1:
        pots = m['elements'][at[0]]['ecp_potentials']
        p = pots[at[1]]
        q = next(x for x in pots if x is not p)
        p['angular_momentum'] = list(q['angular_momentum'])
        p['ecp_type'] = 'spinorbit_ecp'
        retype(m)
        out.append(('ecp_momentum_twice_other_type', True, m, at[0]))
    # ---- schema rules
    for key in SHELL_KEYS:
        mut('shell_missing_' + key, False, lambda sh, el, key=key: sh.pop(key))
    mut('shell_extra_key', False, lambda sh, el: sh.__setitem__('comment', 'x'))
    mut('am_empty', False, lambda sh, el: sh.__setitem__('angular_momentum', []))
    mut('am_negative', False, lambda sh, el: sh.__setitem__('angular_momentum', [-1]), lambda sh: len(sh['angular_momentum']) == 1)
    mut('am_not_integer', False, lambda sh, el: sh.__setitem__('angular_momentum', ['s']), lambda sh: len(sh['angular_momentum']) == 1)
    mut('exponents_empty', False, lambda sh, el: (sh.__setitem__('exponents', []), sh.__setitem__('coefficients', [[]])))
    mut('exponent_not_string', False, lambda sh, el: sh['exponents'].__setitem__(0, 1.5))
    mut('coefficients_empty', False, lambda sh, el: sh.__setitem__('coefficients', []))
    mut('region_not_in_enum', False, lambda sh, el: sh.__setitem__('region', 'outer'))
    mut('function_type_not_in_enum', False, lambda sh, el: sh.__setitem__('function_type', 'gto_spherical_x'))
    mut('duplicate_shell', False, lambda sh, el: el['electron_shells'].append(copy.deepcopy(sh)))
    mut('ecp_type_not_in_enum', False, lambda p, el: p.__setitem__('ecp_type', 'ecp'), pot=True)
    mut('ecp_r_exponent_not_integer', False, lambda p, el: p['r_exponents'].__setitem__(0, '2'), pot=True)
    mut('ecp_electrons_zero', False, lambda p, el: el.__setitem__('ecp_electrons', 0), pot=True)
    mut('ecp_electrons_string', False, lambda p, el: el.__setitem__('ecp_electrons', '10'), pot=True)
    m = copy.deepcopy(b)
    m['elements'] = {}
    out.append(('no_elements', False, m, None))
    m = copy.deepcopy(b)
    z = rng.choice(list(m['elements']))
    m['elements']['x' + z] = m['elements'].pop(z)
    out.append(('element_key_not_numeric', False, m, None))
    m = copy.deepcopy(b)
    m['unexpected'] = 1
    out.append(('top_level_extra_key', False, m, None))
    if kind == 'complete':
        m = copy.deepcopy(b)
        m['revision_date'] = '01-01-2026'
        out.append(('revision_date_pattern', False, m, None))
        m = copy.deepcopy(b)
        m['names'] = ['other']
        out.append(('name_not_in_names', False, m, None))
        m = copy.deepcopy(b)
        z = rng.choice(list(m['elements']))
        del m['elements'][z]['references']
        out.append(('element_missing_references', False, m, None))
        m = copy.deepcopy(b)
        del m['role']
        out.append(('missing_required_top_level', False, m, None))
    if kind == 'component':
        m = copy.deepcopy(b)
        z = rng.choice(list(m['elements']))
        del m['elements'][z]['references']
        out.append(('element_missing_references', False, m, None))
    return out


def valid_variants(rng, b):
    """valid dictionaries with the type names no stored basis uses: an 'sto' shell of l <= 1, one 'spinorbit_ecp' potential (its own momentum)"""
    from basis_set_exchange import compose
    out = []
    m = copy.deepcopy(b)
    at = pick_shell(rng, m, lambda sh: max(sh['angular_momentum']) <= 1)
    if at:
        m['elements'][at[0]]['electron_shells'][at[1]]['function_type'] = 'sto'
        out.append(('valid_sto_low_l', m, at[0]))
    m = copy.deepcopy(b)
    at = pick_pot(rng, m)
    if at:
        m['elements'][at[0]]['ecp_potentials'][at[1]]['ecp_type'] = 'spinorbit_ecp'
        out.append(('valid_spinorbit_potential', m, at[0]))
    for _, m, _ in out:
        if 'function_types' in m:
            m['function_types'] = compose._whole_basis_types(m)
    return out


def accepts(validator, kind, d):
    try:
        validator.validate_data(kind, d)
        return True, ''
    except Exception as e:
        return False, '%s: %s' % (type(e).__name__, str(e).split('\n')[0][:120])


def el_request(el):
    rq = dict(op='validate_el')
    if 'electron_shells' in el:
        try:
            rq['shells'] = [norm_shell(sh) for sh in el['electron_shells']]
        except Exception:
            return None
    if 'ecp_potentials' in el:
        rq['pots'] = el['ecp_potentials']
    if 'ecp_electrons' in el:
        rq['ecp_electrons'] = el['ecp_electrons']
    return rq


def work(item):
    bse = import_bse()
    from basis_set_exchange import validator
    import random
    label, b, kind, seed = item
    rng = random.Random(seed)
    d = to_kind(b, kind)
    out = dict(label=label, kind=kind, cases=[])
    ok, msg = accepts(validator, kind, d)
    out['cases'].append(dict(cls='valid', want=True, got=ok, msg=msg, semantic=True,
                             reqs=[el_request(el) for el in d['elements'].values()]))
    for cls_, m, z in valid_variants(rng, d):
        ok, msg = accepts(validator, kind, m)
        rq = el_request(m['elements'][z])
        out['cases'].append(dict(cls=cls_, want=True, got=ok, msg=msg, semantic=True, reqs=[rq] if rq is not None else []))
    for cls_, semantic, m, z in mutations(rng, d, kind):
        ok, msg = accepts(validator, kind, m)
        rec = dict(cls=cls_, want=False, got=ok, msg=msg, semantic=semantic, reqs=[])
        if semantic and z is not None:
            rq = el_request(m['elements'][z])
            if rq is not None:
                rec['reqs'] = [rq]
        out['cases'].append(rec)
    return out


def store_work(pair):
    bse = import_bse()
    from basis_set_exchange import validator
    try:
        b = bse.get_basis(pair[0], version=pair[1])
    except Exception as e:
        return dict(label='%s/%s' % pair, skip=type(e).__name__)
    ok, msg = accepts(validator, 'complete', b)
    return dict(label='%s/%s' % pair, ok=ok, msg=msg, reqs=[el_request(el) for el in b['elements'].values()])


def run(ctx):
    bse = import_bse()
    from basis_set_exchange import validator
    R = Result('C18')
    rng = ctx.rng
    items = []
    for i in range(ctx.n(70, 1200)):
        b = genbasis.gen_basis(rng, kinds=rng.choice([None, ['pople', 'ecp'], ['general', 'ecp', 'highl'], ['ecponly', 'plain'], ['ecpgap', 'ecpsingle', 'plain']]))
        items.append(('gen%d' % i, b, ['complete', 'minimal', 'component'][i % 3], 'm%d-%d' % (i, ctx.seed)))
    reqs, meta = [], []
    for i in range(0, len(items), 90):
        for out in pmap(work, items[i:i + 90]):
            for c in out['cases']:
                R.ev()
                R.count('class:' + c['cls'])
                R.nt((out['label'], c['cls']))
                w = dict(dictionary=out['label'], kind=out['kind'], mutation=c['cls'])
                if c['want'] and not c['got']:
                    R.violation('valid_rejected', 'validator.validate_data', 'a valid dictionary is rejected: ' + c['msg'], w, cls=c['cls'])
                if not c['want'] and c['got']:
                    R.violation('violation_accepted', 'validator.validate_data', 'a dictionary with one injected violation (%s) is accepted' % c['cls'], w, cls=c['cls'])
                for rq in c['reqs']:
                    if rq is not None and ctx.model_ok:
                        reqs.append(rq)
                        meta.append((w, c))
            R.sample(dict(dictionary=out['label'], kind=out['kind'], mutations=len(out['cases']) - 1))
    # store data must be accepted
    pairs = sample_pairs(ctx, ctx.n(40, 10 ** 6))
    for o in pmap(store_work, pairs):
        if 'skip' in o:
            R.count('skip:' + o['skip'])
            continue
        R.ev()
        R.nt(o['label'])
        if not o['ok']:
            R.violation('valid_rejected', 'validator.validate_data', 'store data is rejected: ' + o['msg'], dict(basis=o['label']), cls='store')
        if ctx.model_ok:
            for rq in o['reqs']:
                reqs.append(rq)
                meta.append((dict(basis=o['label']), dict(want=True, got=o['ok'], cls='store', semantic=True)))
    # recorded probes outside the decimal-literal assumption
    sh = dict(function_type='gto', region='', angular_momentum=[0], exponents=['nan'], coefficients=[['1.0']])
    d = dict(molssi_bse_schema=dict(schema_type='minimal', schema_version='0.1'), function_types=['gto'], elements={'1': dict(electron_shells=[sh])})
    R.ev()
    if accepts(validator, 'minimal', d)[0]:
        R.violation('violation_accepted', 'validator.validate_data', "an exponent of 'nan' is accepted", dict(exponent='nan'), cls='exponent_nan')
    if ctx.model_ok and reqs:
        ans = drive(reqs)
        for a, rq, (w, c) in zip(ans, reqs, meta):
            if 'drv_error' in a:
                # malformed element (schema-level problem the typed decoder rejects): counts as rejected
                lean_ok = False
            else:
                lean_ok = 'ok' in a
            if c['want'] and not lean_ok:
                R.disagree('validate_el', w, 'rejects ' + str(a.get('err') or a.get('drv_error')), 'valid dictionary', note='Lean rules reject an element of a valid dictionary')
            if (not c['want']) and c['semantic'] and lean_ok and not c['got']:
                R.disagree('validate_el', w, 'accepts', 'library rejects (%s)' % c.get('msg', ''), note='Lean rules accept a semantic violation the library rejects')
        R.extra['elements_judged_by_lean_rules'] = len(reqs)
    return R


def replay(ctx, payload):
    print('witness:', jdump(payload.get('witness'))[:1000])
    print('re-run ./check C18 with the same VERIF_SEED to regenerate the mutated dictionary')
    return False
