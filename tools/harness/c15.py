"""C15 — a bundle is exactly the API output for everything the format supports."""
import json, os, shutil, zipfile, tarfile, io, contextlib
from common import *
from harness.c01 import closure

LEVEL = 'proof'
RULE = ('data directories sampled from the store (12-25 basis sets incl. multi-version, ECP, non-ASCII references, with and without notes, basis sets the '
        'format cannot express) x (writer format, reference format) pairs x {zip, tar.bz2}: every archive member compared byte for byte with get_basis / '
        'get_references / notes of the same directory. One case = one archive member expected or found. Non-trivial = distinct member content.')
ASSUMPTIONS = ['the README time stamp is not compared']
TRUSTED = ['CPython zipfile / tarfile / bz2']


def make_dir(bse, rng, tmp, nbases, must=()):
    md = bse.get_metadata()
    dd = bse.get_data_dir()
    names = list(must) + rng.sample(sorted(md), nbases)
    # whole alias groups, so that the sampled index is closed
    keys = []
    from basis_set_exchange import misc as _misc
    for k in names:
        if k in md and k not in keys:
            keys.append(k)
            # the other names of the same basis come along: two index entries that share their table files
            for on in md[k]['other_names']:
                ok_ = _misc.transform_basis_name(on)
                if ok_ in md and ok_ not in keys:
                    keys.append(ok_)
    d = os.path.join(tmp, 'bd%d' % rng.randrange(10 ** 9))
    os.makedirs(d)
    idx = {k: md[k] for k in sorted(keys)}
    need = set(['REFERENCES.json'])
    for k, e in idx.items():
        for v, vd in e['versions'].items():
            for p in closure(dd, vd['file_relpath']):
                need.add(p)
        np_ = os.path.join(e['relpath'], e['basename'] + '.notes')
        if os.path.isfile(os.path.join(dd, np_)):
            need.add(np_)
        fn = 'NOTES.' + e['family']
        if os.path.isfile(os.path.join(dd, fn)):
            need.add(fn)
    for p in need:
        os.makedirs(os.path.dirname(os.path.join(d, p)) or d, exist_ok=True)
        if not os.path.exists(os.path.join(d, p)):
            os.symlink(os.path.join(dd, p), os.path.join(d, p))
    json.dump(idx, open(os.path.join(d, 'METADATA.json'), 'w'))
    return d, idx


def work_many(items):
    return [work(it) for it in items]


def read_archive(path, atype):
    members = []
    if atype == 'zip':
        with zipfile.ZipFile(path) as z:
            for i in z.infolist():
                members.append((i.filename, z.read(i)))
    else:
        with tarfile.open(path, 'r:bz2') as t:
            for m in t.getmembers():
                members.append((m.name, t.extractfile(m).read()))
    return members


def work(item):
    bse = import_bse()
    from basis_set_exchange import bundle, writers, refconverters, misc
    d, idx, fmt, reffmt, atype, tmp = item
    out = dict(fmt=fmt, reffmt=reffmt, atype=atype, bad=[], n=0, hashes=[], req=None, got=None)
    arch = os.path.join(tmp, 'b_%s_%s_%d.%s' % (fmt, reffmt, os.getpid(), 'zip' if atype == 'zip' else 'tar.bz2'))
    try:
        with contextlib.redirect_stdout(io.StringIO()):
            # "existing files will be overwritten": the path already holds an archive of another format pair
            bundle.create_bundle(arch, 'json' if fmt != 'json' else 'nwchem', 'bib' if reffmt != 'bib' else 'txt', atype, d)
            bundle.create_bundle(arch, fmt, reffmt, atype, d)
    except Exception as e:
        out['bad'].append(('bundle_raises', 'create_bundle raises %s: %s' % (type(e).__name__, str(e)[:80]), None))
        return out
    members = read_archive(arch, atype)
    os.remove(arch)
    sub = 'basis_set_bundle-%s-%s' % (fmt, reffmt)
    ext = writers.get_format_extension(fmt)
    refext = refconverters.get_format_extension(reffmt)
    valid = writers.write._writer_map[fmt]['valid']
    expected = {}
    entries, data, fam = [], [], []
    for k, e in idx.items():
        entry = dict(key=k, ftypes=e['function_types'], versions=list(e['versions']), notes='')
        if any('.' in v for v in e['versions']):
            out.setdefault('assumption_broken', []).append('version with a dot: %s %s' % (k, sorted(e['versions'])))   # hypothesis of file_names_map_back
        notes = bse.get_basis_notes(k, d)
        entry['notes'] = hashlib.sha1(notes.encode('utf-8')).hexdigest() if notes else ''
        entries.append(entry)
        if valid is not None and not set(e['function_types']) <= valid:
            continue
        for v in e['versions']:
            try:
                with contextlib.redirect_stdout(io.StringIO()):
                    bs = bse.get_basis(k, fmt=fmt, version=v, data_dir=d)
                    rf = bse.get_references(k, fmt=reffmt, version=v, data_dir=d)
            except Exception:
                continue
            expected['%s/%s.%s%s' % (sub, k, v, ext)] = bs
            expected['%s/%s.%s.ref%s' % (sub, k, v, refext)] = rf
            data.append([k, v, hashlib.sha1(bs.encode()).hexdigest(), hashlib.sha1(rf.encode()).hexdigest()])
        if notes:
            expected['%s/%s.notes' % (sub, k)] = notes
    for f in bse.get_families(d):
        fnotes = bse.get_family_notes(f, d)
        fam.append([f, hashlib.sha1(fnotes.encode()).hexdigest() if fnotes else ''])
        if fnotes:
            expected['%s/%s.family_notes' % (sub, f)] = fnotes
    names = [m[0] for m in members]
    out['n'] = len(members) + len(expected)
    if len(set(names)) != len(names):
        dup = sorted(set(n for n in names if names.count(n) > 1))
        out['bad'].append(('one_file_each', 'member names occur twice: %s' % dup[:3], None))
    got = {}
    for n, c in members:
        got.setdefault(n, c)
    readme = '%s/README.txt' % sub
    if readme not in got:
        out['bad'].append(('has_readme', 'no README in the archive', None))
    for n, c in expected.items():
        if n not in got:
            out['bad'].append(('member_missing', 'expected member %s is absent' % n, n))
        else:
            try:
                text = got[n].decode('utf-8')
            except Exception:
                text = None
            if text != c:
                out['bad'].append(('member_equals_api', 'member %s differs from the API output (%d vs %d bytes)' % (n, len(got[n]), len(c.encode('utf-8'))), n))
            out['hashes'].append(hashlib.sha1(got[n]).hexdigest())
    for n in got:
        if n != readme and n not in expected:
            out['bad'].append(('nothing_else', 'unexpected member %s' % n, n))
        base = os.path.basename(n)
        if n != readme and not base.endswith('.family_notes'):
            stem = base[:-len('.notes')] if base.endswith('.notes') else base.split('.')[0] if False else None
    # file names map back to basis names
    for n in got:
        base = os.path.basename(n)
        if base.endswith('.notes'):
            key = base[:-6]
            if misc.basis_name_from_filename(key) not in [e['display_name'].lower() for e in idx.values()]:
                out['bad'].append(('names_map_back', 'notes file %s does not map back to a basis name' % base, n))
    out['req'] = dict(op='bundle_members', fmt=fmt, reffmt=reffmt, ext=ext, refext=refext, readme='README', entries=entries, data=data, fam=fam)
    out['got'] = [[n, 'README' if n == readme else hashlib.sha1(c).hexdigest()] for n, c in members]
    return out


def run(ctx):
    bse = import_bse()
    from basis_set_exchange import writers
    R = Result('C15')
    rng = ctx.rng
    tmp = ctx.tmpdir()
    md = bse.get_metadata()
    with_notes = [k for k in sorted(md) if bse.get_basis_notes(k)][:40]
    multi = [k for k, e in md.items() if len(e['versions']) > 1]
    ecp5 = [k for k in ('aug-cc-pv5z-pp', 'aug-cc-pv5z-optri', 'def2-ecp', 'lanl2dz') if k in md]
    items = []
    seq_dirs = []
    ndirs = ctx.n(2, 12)
    fmts_all = sorted(writers.get_writer_formats())
    for i in range(ndirs):
        aliased = [k for k, e in sorted(md.items()) if e['other_names']]
        must = rng.sample(with_notes, 3) + rng.sample(multi, 3) + ['4-31g', 'sto-3g'] + rng.sample(ecp5, min(2, len(ecp5))) + rng.sample(aliased, min(2, len(aliased)))
        if i < 2 and 'def2-svp' in md and set(md['def2-svp']['versions']) == {'0', '1'}:
            must = must + ['def2-svp']
        d, idx = make_dir(bse, rng, tmp, ctx.n(8, 16), must)
        if i == 0 and 'def2-svp' in idx and set(idx['def2-svp']['versions']) == {'0', '1'}:
            # def2-SVP with its two table files exchanged: version 1 of the store has an l = 5 ECP term that CRYSTAL cannot express, so in
            # this directory it is the EARLIER version that the format refuses and the later one that it can write
            e = idx['def2-svp']
            p0, p1 = (os.path.join(d, e['versions'][v]['file_relpath']) for v in ('0', '1'))
            c0, c1 = open(p0).read(), open(p1).read()
            for p_, c_ in ((p0, c1), (p1, c0)):
                os.remove(p_)
                open(p_, 'w').write(c_)
            from basis_set_exchange import curate
            curate.create_metadata_file(os.path.join(d, 'METADATA.json'), d)
            idx = json.load(open(os.path.join(d, 'METADATA.json')))
        if i == 1:
            # the same names as in the first directory, with another reference database (every title changed): what a bundle cites must
            # come from the directory it is made from
            rp = os.path.join(d, 'REFERENCES.json')
            refs = json.load(open(rp))
            os.remove(rp)
            for k_, r_ in refs.items():
                if isinstance(r_, dict) and 'title' in r_:
                    r_['title'] = 'ANOTHER EDITION: ' + r_['title']
            json.dump(refs, open(rp, 'w'))
            seq_dirs.append((d, idx))
        if i == 0:
            seq_dirs.append((d, idx))
        pairs = [('nwchem', 'txt'), ('crystal', 'bib'), ('veloxchem', 'ris'), ('json', 'json')]
        pairs += [(rng.choice(fmts_all), rng.choice(['txt', 'bib', 'ris', 'endnote', 'json'])) for _ in range(ctx.n(2, 10))]
        for fmt, reffmt in pairs:
            for atype in ('zip', 'tbz'):
                items.append((d, idx, fmt, reffmt, atype, tmp))
    # generated directories (several versions per basis built from different components - some expressible in a format, some not -, notes,
    # family notes, the same names with other references from one directory to the next), bundled one after the other in ONE process: what a
    # bundle holds must not depend on the bundles made before it
    import gendir
    from basis_set_exchange import curate
    gen_items = []
    for i in range(ctx.n(3, 12)):
        files, index, info = gendir.gen_dir(rng, nbases=3)
        d = os.path.join(tmp, 'gd%d' % i)
        os.makedirs(d)
        gendir.write_dir(d, files, index)
        try:
            curate.create_metadata_file(os.path.join(d, 'METADATA.json'), d)
        except Exception:
            continue
        idx = json.load(open(os.path.join(d, 'METADATA.json')))
        for fmt, reffmt in [('crystal', 'bib'), ('nwchem', 'bib'), ('turbomole', 'txt'), (rng.choice(fmts_all), 'bib')]:
            gen_items.append((d, idx, fmt, reffmt, rng.choice(['zip', 'tbz']), tmp))
    reqs, gots = [], []
    outs = pmap(work, items)
    # the two store-sampled directories that share names but not references, one after the other and back again, in this process
    if len(seq_dirs) == 2:
        gen_items += [(seq_dirs[0][0], seq_dirs[0][1], 'nwchem', 'bib', 'zip', tmp), (seq_dirs[1][0], seq_dirs[1][1], 'nwchem', 'bib', 'zip', tmp),
                      (seq_dirs[0][0], seq_dirs[0][1], 'nwchem', 'bib', 'tbz', tmp)]
    if gen_items:
        outs += work_many(gen_items)
    for out in outs:
        R.ev(max(1, out['n']))
        R.count('archive:%s:%s' % (out['fmt'], out['atype']))
        for h in out['hashes']:
            R.nt(h)
        R.count('hypothesis versions-without-dot: ' + ('BROKEN' if out.get('assumption_broken') else 'holds'))
        for rule, what, n in out['bad']:
            R.violation(rule, 'bundle.create_bundle', what, dict(fmt=out['fmt'], reffmt=out['reffmt'], archive=out['atype'], member=n), fmt=out['fmt'])
        if out['req'] is not None:
            reqs.append(out['req'])
            gots.append((out['fmt'], out['reffmt'], out['atype'], out['got']))
        R.sample(dict(fmt=out['fmt'], reffmt=out['reffmt'], archive=out['atype'], members=len(out['got'] or [])))
    if ctx.model_ok and reqs:
        ans = drive(reqs)
        for a, (fmt, reffmt, atype, got) in zip(ans, gots):
            if 'drv_error' in a:
                raise DriverError(a['drv_error'])
            if a['members'] != got:
                extra = [m[0] for m in got if m not in a['members']][:3]
                missing = [m[0] for m in a['members'] if m not in got][:3]
                R.disagree('bundle_members', dict(fmt=fmt, reffmt=reffmt, archive=atype), 'model-only: %s' % missing, 'archive-only: %s' % extra, note='member list (names, order, content hashes)')
        R.extra['traces_validated_against_model'] = len(reqs)
    return R


def replay(ctx, payload):
    print('witness:', jdump(payload.get('witness'))[:500])
    return False
