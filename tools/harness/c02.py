"""C02 — re-contraction operations preserve the set of basis functions exactly.
Per element: (1) the Lean model of the operation must give the same shell list as the
implementation, (2) the verified checker `sameFuncs` must accept (input, implementation output),
(3) ECP data untouched, (4) the operation's shape promise."""
import itertools
from common import *
from harness.shells import *

LEVEL = 'proof'
RULE = ('store basis/versions (seed-chosen sample: 45 in quick, 400 in thorough, the corpus first) and generated valid dictionaries (fused sp/spd, shared exponents, '
        'block-general, zero padding, mixed notations, l up to 12, ECP-only) x {prune_basis, uncontract_general, uncontract_spdf k=0..3, '
        'make_general skip/no-skip, sort_basis} + the 8 subsets of the three get_basis flags on store entries; one case = (basis, element, op). '
        'Non-trivial = the operation changed the shell list of that element (distinct by content hash).')
ASSUMPTIONS = ['Faithful: float equality == exact decimal equality on the numbers of each input (measured every run, reported as unfaithful_numbers)',
               'sort_basis: the <r^2> float keys are taken from the implementation and passed to the model as ranks']
TRUSTED = ['ints.py float integrals (sort keys only)']

DIRECT = [('prune_basis', {}), ('uncontract_general', {}), ('uncontract_spdf', {'k': 0}), ('uncontract_spdf', {'k': 1}),
          ('uncontract_spdf', {'k': 2}), ('uncontract_spdf', {'k': 3}), ('make_general', {'skip': False}), ('make_general', {'skip': True}),
          ('sort_basis', {})]
FLAGS = ['uncontract_general', 'uncontract_spdf', 'make_general']


def apply_direct(bse, b, op, args):
    from basis_set_exchange import manip, sort
    if op == 'prune_basis':
        return manip.prune_basis(b)
    if op == 'uncontract_general':
        return manip.uncontract_general(b)
    if op == 'uncontract_spdf':
        return manip.uncontract_spdf(b, args['k'])
    if op == 'make_general':
        return manip.make_general(b, args['skip'])
    if op == 'sort_basis':
        return sort.sort_basis(b)
    raise ValueError(op)


def shape_ok(op, args, el_in, el_out):
    f = shape_flags(el_out)
    if op == 'uncontract_general':
        return not f['general_in_single'], 'a single-momentum shell still has several contractions'
    if op == 'uncontract_spdf':
        return f['fused_max'] <= args['k'], 'a fused shell keeps a member above max_am'
    if op == 'make_general':
        if not f['single_am_distinct']:
            return False, 'two single-momentum shells share an angular momentum'
        if not args['skip'] and f['nfused'] > 0:
            return False, 'a fused shell is left'
        return True, ''
    if op == 'pipeline':
        if args.get('make_general'):
            if not f['single_am_distinct']:
                return False, 'make_general flag: two single-momentum shells share an angular momentum'
            if f['nfused'] > 0:
                return False, 'make_general flag: a fused shell is left'
        if args.get('uncontract_spdf') and f['fused_max'] > 0:
            return False, 'uncontract_spdf flag: a fused shell is left'
        if args.get('uncontract_general') and not args.get('make_general') and f['general_in_single']:
            return False, 'uncontract_general flag: a single-momentum shell still has several contractions'
        return True, ''
    if op == 'sort_basis':
        if not f['exps_decreasing']:
            return False, 'exponents not strictly decreasing'
        if not f['am_nondecreasing']:
            return False, 'shells not by increasing angular momentum'
        return True, ''
    return True, ''


def work(item):
    """runs in a worker: all operations on one basis; returns compact case records"""
    bse = import_bse()
    from basis_set_exchange import sort as bsort
    label, src = item
    out = dict(label=label, cases=[], unfaithful=0, error=None)
    try:
        if isinstance(src, dict):
            b = src
            name = None
        else:
            name, ver = src
            b = bse.get_basis(name, version=ver)
    except Exception as e:
        out['error'] = '%s: %s' % (type(e).__name__, str(e)[:100])
        return out
    if not wf_basis(b):
        out['error'] = 'not-WF'
        return out
    out['unfaithful'] = faithful(list(all_numbers(b)))
    b0 = copy.deepcopy(b)
    runs = [(op, args, None) for op, args in DIRECT]
    if name is not None:
        for r in range(0, 4):
            for fl in itertools.combinations(FLAGS, r):
                runs.append(('pipeline', {k: True for k in fl}, None))
    # two-step sequences: the second operation gets the implementation's own output of the first
    # (not a copy: any sharing between its parts is kept)
    import random as _random
    srng = _random.Random(label)
    seqs = []
    if name is None:
        # generated dictionaries are small: all (splitting op, follow-up op) pairs
        for o1 in DIRECT[2:5]:
            for o2 in (DIRECT[8], DIRECT[0], DIRECT[6], DIRECT[1]):
                seqs.append((o1, o2))
    for _ in range(3):
        o1 = srng.choice(DIRECT[:8])
        o2 = srng.choice(DIRECT)
        seqs.append((o1, o2))
    for (o1, a1), (o2, a2) in seqs:
        try:
            mid = apply_direct(bse, b, o1, a1)
        except Exception:
            continue
        runs.append((o2, a2, mid))
    for op, args, base in runs:
        rec = dict(op=op, args=args, els=[], raised=None)
        if base is not None:
            rec['after'] = True
            bsave, b = b, base
            b0save, b0 = b0, copy.deepcopy(base)
        try:
            if op == 'pipeline':
                r = bse.get_basis(name, version=ver, **args)
            else:
                r = apply_direct(bse, b, op, args)
        except Exception as e:
            rec['raised'] = '%s: %s' % (type(e).__name__, str(e)[:120])
            out['cases'].append(rec)
            if base is not None:
                b, b0 = bsave, b0save
            continue
        if b != b0:
            rec['mutated_input'] = True
            b = copy.deepcopy(b0)
        if list(r['elements'].keys()) != list(b['elements'].keys()) and op != 'sort_basis':
            rec['elements_changed'] = True
        if op == 'sort_basis':
            try:
                rec['idempotent'] = (bsort.sort_basis(r) == r)
            except Exception as e:
                rec['idempotent'] = False
        for z, el in b['elements'].items():
            if z not in r['elements']:
                rec['els'].append(dict(z=z, missing=True))
                continue
            el2 = r['elements'][z]
            if op == 'sort_basis':
                # sort_basis may reorder the potentials (its own promise); the terms themselves must be untouched
                p1, p2 = ecp_of(el), ecp_of(el2)
                same = p1[1] == p2[1] and (p1[0] is None) == (p2[0] is None) and \
                    (p1[0] is None or sorted(map(jdump, p1[0])) == sorted(map(jdump, p2[0])))
            else:
                same = ecp_of(el) == ecp_of(el2)
            e = dict(z=z, ecp_same=same, has=('electron_shells' in el), has2=('electron_shells' in el2))
            if 'electron_shells' in el and 'electron_shells' in el2:
                sin, sout = shells_of(el), shells_of(el2)
                e['changed'] = (sin != sout)
                e['py_same'] = (el_funcset(el) == el_funcset(el2))
                ok, why = shape_ok(op, args, el, el2)
                e['shape_ok'], e['shape_why'] = ok, why
                e['in'], e['out'] = sin, sout
                if op == 'sort_basis':
                    keyed = []
                    allk = []
                    for sh in el['electron_shells']:
                        rsq = bsort._spatial_extent(sh)
                        ssh = bsort.sort_shell(sh)
                        mr = min(bsort._spatial_extent(ssh))
                        keyed.append((rsq, mr))
                        allk += list(rsq) + [mr]
                    order = sorted(set(allk))
                    pos = {v: i for i, v in enumerate(order)}
                    e['keys'] = [dict(rsq=[[pos[x], 1] for x in rsq], minrms=[pos[mr], 1]) for rsq, mr in keyed]
            rec['els'].append(e)
        out['cases'].append(rec)
        if base is not None:
            b, b0 = bsave, b0save
    return out


def requests_for(rec, e):
    """driver requests for one (case, element): the model's answer and the verified checker"""
    op, args = rec['op'], rec['args']
    if op == 'sort_basis':
        m = dict(op='sort_shells', keyed=[dict(shell=sh, rsq=k['rsq'], minrms=k['minrms']) for sh, k in zip(e['in'], e['keys'])])
    elif op == 'pipeline':
        m = dict(op='pipeline', opts=args, shells=e['in'])
    else:
        m = dict(op='manip', fn=op, shells=e['in'])
        m.update(args)
    return m, dict(op='same_funcs', a=e['in'], b=e['out'])


def evaluate(ctx, R, results):
    reqs, meta = [], []
    for out in results:
        if out['error']:
            R.count('skip:' + out['error'].split(':')[0])
            continue
        R.extra['unfaithful_numbers'] = R.extra.get('unfaithful_numbers', 0) + out['unfaithful']
        for rec in out['cases']:
            tag = rec['op'] + (jdump(rec['args']) if rec['args'] else '')
            if rec['raised']:
                R.ev()
                R.violation('total_on_wf', 'manip.' + rec['op'], 'operation raises on a well-formed basis: ' + rec['raised'],
                            dict(basis=out['label'], op=rec['op'], args=rec['args']), op=rec['op'])
                continue
            if rec.get('mutated_input'):
                R.count('input-mutated:' + rec['op'])
            if rec.get('elements_changed'):
                R.violation('elements_kept', 'manip.' + rec['op'], 'element keys or their order changed', dict(basis=out['label'], op=rec['op']), op=rec['op'])
            if rec.get('idempotent') is False:
                R.violation('sort_idempotent', 'sort.sort_basis', 'sort_basis is not idempotent', dict(basis=out['label']), op=rec['op'])
            for e in rec['els']:
                R.ev()
                w = dict(basis=out['label'], op=rec['op'], args=rec['args'], element=e['z'])
                if e.get('missing'):
                    R.violation('elements_kept', 'manip.' + rec['op'], 'an element disappeared', w, op=rec['op'])
                    continue
                if not e['ecp_same']:
                    R.violation('ecp_untouched', 'manip.' + rec['op'], 'ECP data changed', w, op=rec['op'])
                if e['has'] != e['has2']:
                    R.violation('funcset_preserved', 'manip.' + rec['op'], 'electron_shells appeared/disappeared', w, op=rec['op'])
                    continue
                if not e['has']:
                    R.count('ecp-only-element')
                    continue
                if not e['py_same']:
                    w2 = dict(w)
                    w2['input_shells'] = e['in']
                    w2['output_shells'] = e['out']
                    R.violation('funcset_preserved', 'manip.' + rec['op'], 'set of contracted functions changed', w2, op=rec['op'])
                if not e['shape_ok']:
                    w2 = dict(w)
                    w2['input_shells'] = e['in']
                    R.violation('shape_promise', 'manip.' + rec['op'], e['shape_why'], w2, op=rec['op'])
                if e['changed']:
                    R.nt(jdump([rec['op'], rec['args'], e['in']]))
                R.count('op:' + tag)
                R.sample(dict(basis=out['label'], op=rec['op'], args=rec['args'], element=e['z'], nshells_in=len(e['in']), nshells_out=len(e['out'])))
                if ctx.model_ok:
                    m, c = requests_for(rec, e)
                    reqs += [m, c]
                    meta += [('model', out['label'], rec, e), ('check', out['label'], rec, e)]
    if ctx.model_ok and reqs:
        ans = drive(reqs)
        for a, (kind, label, rec, e), rq in zip(ans, meta, reqs):
            if 'drv_error' in a:
                raise DriverError(a['drv_error'] + ' on ' + jdump(rq)[:300])
            if kind == 'model':
                if 'raise' in a:
                    R.disagree(rec['op'], dict(basis=label, args=rec['args'], element=e['z'], shells=e['in']), 'raise: ' + a['raise'], 'ok', note='model raises, implementation returns')
                elif a['ok'] != e['out']:
                    R.disagree(rec['op'], dict(basis=label, args=rec['args'], element=e['z'], shells=e['in']), a['ok'], e['out'], note='shell lists differ')
            else:
                if not a['same'] and e['py_same']:
                    R.disagree('same_funcs', dict(basis=label, element=e['z']), False, True, note='Lean checker and Python oracle disagree')
                if not a['same'] and not e['py_same']:
                    pass  # already a violation
        R.extra['traces_validated_against_model'] = R.extra.get('traces_validated_against_model', 0) + len(reqs) // 2


def run(ctx):
    bse = import_bse()
    R = Result('C02')
    items = [('corpus/' + n, b) for n, b in corpus_bases('C02')]
    pairs = sample_pairs(ctx, ctx.n(45, 400))
    items += [('%s/%s' % p, p) for p in pairs]
    rng = ctx.rng
    for i in range(ctx.n(200, 3000)):
        items.append(('gen%d' % i, genbasis.gen_basis(rng)))
    B = 60
    for i in range(0, len(items), B):
        results = pmap(work, items[i:i + B])
        evaluate(ctx, R, results)
    R.exhaustive = False
    R.extra['store_entries'] = len(pairs)
    return R


def replay(ctx, payload):
    bse = import_bse()
    w = payload['witness']
    label = w['basis']
    if '/' in label and not label.startswith(('gen', 'corpus')):
        name, ver = label.rsplit('/', 1)
        b = bse.get_basis(name, version=ver)
    elif 'input_shells' in w:
        b = dict(elements={w['element']: dict(electron_shells=w['input_shells'])}, function_types=[])
    else:
        print('replay needs the store entry or the shells in the witness')
        return False
    try:
        r = bse.get_basis(name, version=ver, **w['args']) if w['op'] == 'pipeline' else apply_direct(bse, b, w['op'], w['args'])
    except Exception as e:
        print('raises', e)
        return False
    z = w['element']
    same = el_funcset(b['elements'][z]) == el_funcset(r['elements'][z])
    ok, why = shape_ok(w['op'], w['args'], b['elements'][z], r['elements'][z])
    print('function set preserved:', same, ' shape promise:', ok, why)
    return same and ok
