"""C08 — every basis handed out is well-formed: get_basis over option combinations, validated three ways:
the library's own validate_data('complete'), the Lean model of the semantic rules (driver), and direct
checks (function_types names every type present, no duplicate shell)."""
import itertools, hashlib
from common import *
from harness.shells import *

LEVEL = 'proof'
RULE = ('store basis/versions (seed-chosen sample: 22 in quick, 300 in thorough, the corpus first) x all 2^6 combinations of the contraction options, plus diffuse/steep '
        'augmentation counts on a third of them, plus element subsets; generated dictionaries pushed through the manip functions directly. '
        'One case = one get_basis call; non-trivial = distinct result dictionary (by content hash) that differs from the plain basis.')
ASSUMPTIONS = ['with remove_free_primitives the rules are applied to the elements that keep at least one function (as the property states)']
TRUSTED = ['jsonschema package (generic schema engine)']

FLAGS = ['uncontract_general', 'uncontract_spdf', 'uncontract_segmented', 'remove_free_primitives', 'make_general', 'optimize_general']


def types_present(b):
    t = set()
    for el in b['elements'].values():
        for sh in el.get('electron_shells', []):
            t.add(sh['function_type'])
        for p in el.get('ecp_potentials', []):
            t.add(p['ecp_type'])
    return sorted(t)


def work(item):
    bse = import_bse()
    from basis_set_exchange import validator
    tmpd = None
    if isinstance(item[1], dict):
        # a generated dictionary: filed in a data directory of its own (add_basis_from_dict), so that the option pipeline that runs is
        # get_basis' own, flags and final pruning included - not a replica of it
        import tempfile, shutil, json
        from basis_set_exchange import curate
        from harness.c17 import component_of
        label, g, combos = item
        tmpd = tempfile.mkdtemp(prefix='bsev_c08_')
        json.dump({'molssi_bse_schema': dict(schema_type='references', schema_version='0.1')}, open(os.path.join(tmpd, 'REFERENCES.json'), 'w'))
        try:
            curate.add_basis_from_dict(component_of(g), tmpd, 'sub', 'gb', 'Gen Basis', 'genfam', 'orbital', 'generated', '0', 'rev', 'source', None)
        except Exception as e:
            shutil.rmtree(tmpd, ignore_errors=True)
            return dict(label=label, cases=[], error='%s: %s' % (type(e).__name__, str(e)[:80]))
        name, ver = 'Gen Basis', '0'
        combos = [dict(c, data_dir=tmpd) for c in combos]
        out = dict(label=label, cases=[], error=None)
    else:
        name, ver, combos = item
        out = dict(label='%s/%s' % (name, ver), cases=[], error=None)
    try:
        return _work(bse, validator, name, ver, combos, out)
    finally:
        if tmpd:
            import shutil
            shutil.rmtree(tmpd, ignore_errors=True)


def _work(bse, validator, name, ver, combos, out):
    from basis_set_exchange import memo
    import random
    try:
        # the reference copy is composed with the memoiser switched off, and the option combinations come in an order of their own: the
        # first call that reaches the cache for this basis may be any of them (a cache that hands out its own object is edited in place
        # by the option pipeline, and the calls after it start from the edited data)
        memo.memoize_enabled = False
        try:
            b0 = bse.get_basis(name, version=ver, **({'data_dir': combos[0]['data_dir']} if combos and 'data_dir' in combos[0] else {}))
        finally:
            memo.memoize_enabled = True
        combos = list(combos)
        random.Random(out['label']).shuffle(combos)
        if 'fit' in out['label'] or 'admm' in out['label']:
            # fitting sets are uncontracted: remove_free_primitives empties whole elements; that call goes first, so that whatever it
            # may have done to shared data is seen by all the others
            combos.sort(key=lambda c: not (c.get('remove_free_primitives') and len([k for k in c if k != 'data_dir']) == 1))
    except Exception as e:
        out['error'] = '%s: %s' % (type(e).__name__, str(e)[:80])
        return out
    h0 = hashlib.sha1(jdump(b0['elements']).encode()).hexdigest()
    shared, respelled = shared_facts(b0)
    seen = {}
    for kw in combos:
        rec = dict(kw={k: v for k, v in kw.items() if k != 'data_dir'}, shared_prims=shared, shared_nonidentical=respelled)
        try:
            r = bse.get_basis(name, version=ver, **kw)
        except Exception as e:
            rec['raised'] = '%s: %s' % (type(e).__name__, str(e)[:160])
            out['cases'].append(rec)
            continue
        h = hashlib.sha1(jdump([r['elements'], r['function_types']]).encode()).hexdigest()
        rec['hash'] = h
        rec['trivial'] = (hashlib.sha1(jdump(r['elements']).encode()).hexdigest() == h0)
        if h in seen:
            rec['same_as'] = seen[h]
            out['cases'].append(rec)
            continue
        seen[h] = len(out['cases'])
        rf = kw.get('remove_free_primitives')
        emptied = [z for z, el in r['elements'].items() if 'electron_shells' in el and not el['electron_shells']]
        rec['emptied'] = len(emptied)
        tgt = r
        if rf and emptied:
            tgt = dict(r)
            tgt['elements'] = {z: el for z, el in r['elements'].items() if z not in emptied}
            # an element that only had free primitives and has an ECP keeps the ECP: still an element
            for z in emptied:
                if 'ecp_potentials' in r['elements'][z]:
                    el = dict(r['elements'][z])
                    del el['electron_shells']
                    tgt['elements'][z] = el
            tgt['function_types'] = types_present(tgt)
        # 'a function_types list naming every type actually present': a superset without repetitions
        rec['ftypes_ok'] = set(types_present(tgt)) <= set(tgt['function_types']) and len(set(tgt['function_types'])) == len(tgt['function_types'])
        if tgt['elements']:
            try:
                validator.validate_data('complete', tgt)
                rec['lib_valid'] = True
            except Exception as e:
                rec['lib_valid'] = False
                rec['lib_err'] = str(e).split('\n')[0][:200]
        else:
            rec['lib_valid'] = True
        rec['els'] = [dict(z=z, shells=shells_of(el) if 'electron_shells' in el else None, pots=el.get('ecp_potentials'),
                           ecp_electrons=el.get('ecp_electrons')) for z, el in tgt['elements'].items()]
        out['cases'].append(rec)
    return out


def gen_work(item):
    """generated dictionaries through the manip functions in get_basis order"""
    bse = import_bse()
    from basis_set_exchange import manip, validator
    label, b0, combos = item
    out = dict(label=label, cases=[], error=None)
    shared, respelled = shared_facts(b0)
    for kw in combos:
        rec = dict(kw=kw, shared_prims=shared, shared_nonidentical=respelled)
        try:
            b = copy.deepcopy(b0)
            if kw.get('direct'):
                # the public function called on its own, with its defaults (use_copy=True): what it hands out must be well-formed too
                b = getattr(manip, kw['direct'])(b)
            elif kw.get('remove_free_primitives'):
                b = manip.remove_free_primitives(b, False)
            if kw.get('optimize_general'):
                b = manip.optimize_general(b, False)
            if kw.get('uncontract_segmented'):
                b = manip.uncontract_segmented(b, False)
                b = manip.prune_basis(b, False)
            elif kw.get('uncontract_general'):
                b = manip.uncontract_general(b, False)
            if kw.get('uncontract_spdf'):
                b = manip.uncontract_spdf(b, 0, False)
            if kw.get('make_general'):
                b = manip.make_general(b, False, False)
            if not kw.get('direct'):
                b = manip.prune_basis(b, False)
        except Exception as e:
            rec['raised'] = '%s: %s' % (type(e).__name__, str(e)[:160])
            out['cases'].append(rec)
            continue
        b['function_types'] = types_present(b)
        rec['hash'] = hashlib.sha1(jdump(b['elements']).encode()).hexdigest()
        rec['trivial'] = (b['elements'] == b0['elements'])
        emptied = [z for z, el in b['elements'].items() if 'electron_shells' in el and not el['electron_shells']]
        rec['emptied'] = len(emptied)
        tgt = b
        if emptied:
            tgt = dict(b)
            tgt['elements'] = {z: el for z, el in b['elements'].items() if z not in emptied}
            tgt['function_types'] = types_present(tgt)
        rec['ftypes_ok'] = True
        if tgt['elements'] and tgt['function_types']:
            try:
                validator.validate_data('complete', tgt)
                rec['lib_valid'] = True
            except Exception as e:
                rec['lib_valid'] = False
                rec['lib_err'] = str(e).split('\n')[0][:200]
        else:
            rec['lib_valid'] = True
        rec['els'] = [dict(z=z, shells=shells_of(el) if 'electron_shells' in el else None, pots=el.get('ecp_potentials'),
                           ecp_electrons=el.get('ecp_electrons')) for z, el in tgt['elements'].items()]
        out['cases'].append(rec)
    return out


def classify(msg):
    m = msg or ''
    for key, rule in (('Duplicate columns', 'dupCol'), ('duplicate exponents', 'dupExp'), ('marked as spherical', 'badTag'), ('not specified', 'needTag'),
                      ('unused', 'unusedPrim'), ('all = 0.0', 'zeroCol'), ('negative exponents', 'nonposExp'), ('non-unique', 'dupShell'),
                      ('has non-unique elements', 'dupShell'), ('too short', 'empty'), ("doesn't match", 'rowLen')):
        if key in m:
            return rule
    return 'other'


def evaluate(ctx, R, results, site):
    reqs, meta = [], []
    for out in results:
        if out['error']:
            R.count('skip:' + out['error'].split(':')[0])
            continue
        for rec in out['cases']:
            R.ev()
            flags = sorted(k for k, v in rec['kw'].items() if v is True)
            w = dict(basis=out['label'], options=rec['kw'])
            common_fields = dict(flags=flags, shared_prims=rec['shared_prims'], shared_nonidentical=rec['shared_nonidentical'],
                                 useg_mg=('uncontract_segmented' in flags and 'make_general' in flags))
            if 'raised' in rec:
                # documented refusals are not violations of well-formedness
                if 'duplicate shells' in rec['raised'] or 'outermost exponents are the same' in rec['raised'] or 'KeyError' in rec['raised'][:9]:
                    R.count('refused')
                    continue
                R.violation('raises', site, 'get_basis raises for an option combination: ' + rec['raised'], w, **common_fields)
                continue
            if 'same_as' in rec:
                R.count('duplicate-result')
                continue
            if not rec['trivial']:
                R.nt(rec['hash'])
            R.count('nflags:%d' % len(flags))
            if rec['emptied']:
                R.count('elements-emptied-by-remove_free', rec['emptied'])
            if not rec['ftypes_ok']:
                R.violation('function_types', site, 'function_types does not name exactly the types present', w, **common_fields)
            if not rec['lib_valid']:
                R.violation('invalid:' + classify(rec.get('lib_err')), site, 'result fails validate_data(complete): ' + rec.get('lib_err', ''), w, **common_fields)
            R.sample(dict(basis=out['label'], options=rec['kw'], elements=len(rec['els'])))
            if ctx.model_ok:
                for e in rec['els']:
                    rq = dict(op='validate_el')
                    if e['shells'] is not None:
                        rq['shells'] = e['shells']
                    if e['pots'] is not None:
                        rq['pots'] = e['pots']
                    if e['ecp_electrons'] is not None:
                        rq['ecp_electrons'] = e['ecp_electrons']
                    reqs.append(rq)
                    meta.append((out['label'], rec, e, common_fields))
    if ctx.model_ok and reqs:
        ans = drive(reqs)
        bad_by_case = {}
        for a, (label, rec, e, cf) in zip(ans, meta):
            if 'drv_error' in a:
                raise DriverError(a['drv_error'])
            key = (label, jdump(rec['kw']))
            if 'err' in a:
                bad_by_case.setdefault(key, []).append((e['z'], a['err']))
        # the Lean rules and the library's validator must agree on every result
        for (label, rec, e, cf) in meta:
            pass
        seen = set()
        for (label, rec, e, cf) in meta:
            key = (label, jdump(rec['kw']))
            if key in seen:
                continue
            seen.add(key)
            lean_bad = bad_by_case.get(key)
            if lean_bad and rec['lib_valid']:
                R.disagree('validate_el', dict(basis=label, options=rec['kw'], element=lean_bad[0][0]), 'rejects: ' + lean_bad[0][1], 'accepts',
                           note='Lean rules reject a result the library validates')
            if not lean_bad and not rec['lib_valid'] and classify(rec.get('lib_err')) not in ('other', 'empty'):
                R.disagree('validate_el', dict(basis=label, options=rec['kw']), 'accepts', 'rejects: ' + rec.get('lib_err', ''),
                           note='library rejects a result the Lean rules accept')
        R.extra['elements_validated_by_lean_rules'] = R.extra.get('elements_validated_by_lean_rules', 0) + len(reqs)


def combos_for(rng, full, aug_frac=0.33):
    out = []
    sets = list(itertools.product([False, True], repeat=6)) if full else rng.sample(list(itertools.product([False, True], repeat=6)), 20)
    for bits in sets:
        kw = {f: True for f, b in zip(FLAGS, bits) if b}
        out.append(kw)
        if rng.random() < aug_frac:
            kw2 = dict(kw)
            if rng.random() < 0.6:
                kw2['augment_diffuse'] = rng.choice([1, 2])
            if rng.random() < 0.5 or 'augment_diffuse' not in kw2:
                kw2['augment_steep'] = rng.choice([1, 2])
            out.append(kw2)
    return out


def run(ctx):
    bse = import_bse()
    R = Result('C08')
    rng = ctx.rng
    pairs = sample_pairs(ctx, ctx.n(22, 300))
    items = []
    for (n, v) in pairs:
        cs = combos_for(rng, True)
        # element subsets for a few
        if rng.random() < 0.3:
            try:
                els = list(bse.get_metadata()[n]['versions'][v]['elements'])
                sub = rng.sample(els, min(len(els), rng.randrange(1, 4)))
                cs += [dict(c, elements=sub) for c in rng.sample(cs, 6)]
            except Exception:
                pass
        items.append((n, v, cs))
    for i in range(0, len(items), 30):
        evaluate(ctx, R, pmap(work, items[i:i + 30]), 'api.get_basis')
    gitems = []
    for i in range(ctx.n(60, 600)):
        gitems.append(('gen%d' % i, genbasis.gen_basis(rng), [c for c in combos_for(rng, False, 0)] + [dict(direct=f) for f in ('make_general', 'uncontract_general', 'optimize_general', 'prune_basis')]))
    for i in range(0, len(gitems), 60):
        evaluate(ctx, R, pmap(gen_work, gitems[i:i + 60]), 'manip.pipeline')
    # the same dictionaries through the real get_basis (each filed in a data directory of its own)
    def fused_zero(g):
        return any(frac(x) == 0 for el in g['elements'].values() for sh in el.get('electron_shells', []) if len(sh['angular_momentum']) > 1
                   for c in sh['coefficients'] for x in c)
    # every one of the 64 flag combinations (the flags interact inside get_basis: which steps schedule the final pruning), the dictionaries
    # with a structural zero inside a fused shell first
    # planted: a zero for one member of a fused shell on a primitive the other members use (legal: no empty row, no empty column)
    for i in range(ctx.n(12, 120)):
        g = genbasis.gen_basis(rng, kinds=['pople', 'plain'])
        for el in g['elements'].values():
            for sh in el.get('electron_shells', []):
                if len(sh['angular_momentum']) > 1 and len(sh['exponents']) > 1:
                    m, k = rng.randrange(len(sh['coefficients'])), rng.randrange(len(sh['exponents']))
                    others_use = any(frac(c[k]) != 0 for j, c in enumerate(sh['coefficients']) if j != m)
                    column_lives = any(frac(x) != 0 for j, x in enumerate(sh['coefficients'][m]) if j != k)
                    if others_use and column_lives:
                        sh['coefficients'][m][k] = rng.choice(['0.0', '0.0000000E+00'])
        if wf_basis(g):
            gitems.append(('genz%d' % i, g, []))
    all64 = [{f: True for f, b in zip(FLAGS, bits) if b} for bits in itertools.product([False, True], repeat=6)]
    chosen = sorted(gitems, key=lambda it: not fused_zero(it[1]))[:ctx.n(30, 400)]
    ditems = [(lab, g, all64) for lab, g, cs in chosen]
    R.extra['generated_through_get_basis_with_fused_zero'] = sum(1 for _, g, _ in chosen if fused_zero(g))
    for i in range(0, len(ditems), 60):
        evaluate(ctx, R, pmap(work, ditems[i:i + 60]), 'api.get_basis')
    R.exhaustive = False
    R.extra['store_entries'] = len(pairs)
    return R


def replay(ctx, payload):
    bse = import_bse()
    from basis_set_exchange import validator
    w = payload['witness']
    name, ver = w['basis'].rsplit('/', 1)
    try:
        r = bse.get_basis(name, version=ver, **w['options'])
        validator.validate_data('complete', r)
    except Exception as e:
        print('fails:', str(e).split('\n')[0][:300])
        return False
    print('valid')
    return True
