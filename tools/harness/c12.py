"""C12 — augmentation only adds, calendarisation only removes, by the documented rules."""
from common import *
from harness.shells import *
from decimal import Decimal

LEVEL = 'proof'
RULE = ('orbital store basis/versions (sample in quick, all in thorough) x n in 1..4 x diffuse/steep through manip.geometric_augmentation and '
        'get_basis(augment_*); aug-* basis sets x the seven months; generated dictionaries with contracted outer primitives, single-primitive momenta, '
        'fused shells, unsorted primitives. One case = (basis, element, n, side) or (basis, element, month). Non-trivial = something was added / removed.')
ASSUMPTIONS = ['the new exponents are produced in floating point and printed with {:.6e}: the check demands that the printed decimal is within 1 unit of the '
               '7th significant digit of the exact rational x*(x/y)^i', 'Faithful numbers']
TRUSTED = ['python fractions / decimal']

MONTHS = ['jul', 'jun', 'may', 'apr', 'mar', 'feb', 'jan']


def by_am_primitives(el):
    """per angular momentum: set of exponent values, and the set of exponents that are free (some single-term function)"""
    ex, free = {}, {}
    for l, terms in el_funcs_multiset(el):
        for e, c in terms:
            ex.setdefault(l, set()).add(e)
        if len(terms) == 1:
            free.setdefault(l, set()).add(terms[0][0])
    # primitives with all-zero coefficients do not occur in valid data
    return ex, free


def expected_new(el, n, steep):
    ex, free = by_am_primitives(el)
    out = {}
    for l, s in ex.items():
        v = sorted(s)
        if len(v) < 2:
            continue
        x, y = (v[-1], v[-2]) if steep else (v[0], v[1])
        if x in free.get(l, ()) and y in free.get(l, ()):
            out[l] = [x * (x / y) ** i for i in range(1, n + 1)]
    return out


def close(printed, exact):
    """printed decimal string vs exact rational: 1 unit in the 7th significant digit"""
    p = frac(printed)
    if exact == 0:
        return p == 0
    import math
    e = math.floor(math.log10(float(exact)))
    return abs(p - exact) <= Fraction(10) ** (e - 6) * Fraction(11, 10)


def judge_aug(el0, el1, n, steep):
    bad = []
    s0 = shells_of(el0)
    s1 = shells_of(el1)
    if s1[:len(s0)] != s0:
        bad.append(('originals_kept', 'the original shells are not kept unchanged at the front'))
        return bad, 0
    new = s1[len(s0):]
    want = expected_new(el0, n, steep)
    got = {}
    for sh in new:
        if len(sh['exponents']) != 1 or len(sh['coefficients']) != 1 or len(sh['coefficients'][0]) != 1 or frac(sh['coefficients'][0][0]) != 1:
            bad.append(('new_are_unit_primitives', 'an added shell is not a single unit-coefficient primitive'))
            continue
        if len(sh['angular_momentum']) != 1:
            bad.append(('new_are_unit_primitives', 'an added shell is fused'))
            continue
        got.setdefault(sh['angular_momentum'][0], []).append(sh['exponents'][0])
        ft = sh['function_type']
        if (max(sh['angular_momentum']) > 1) != ('_' in ft):
            bad.append(('new_are_unit_primitives', 'function type tag of an added shell does not fit its momentum'))
    if set(got) != set(want):
        bad.append(('which_momenta', 'functions added for momenta %s, the rule gives %s' % (sorted(got), sorted(want))))
        return bad, len(new)
    ex, _ = by_am_primitives(el0)
    for l in want:
        if len(got[l]) != n:
            bad.append(('count', 'l=%d: %d functions added instead of %d' % (l, len(got[l]), n)))
            continue
        for pr, exact in zip(sorted(got[l], key=frac), sorted(want[l])):
            if not close(pr, exact):
                bad.append(('formula', 'l=%d: added exponent %s is not x*(x/y)^i = %s' % (l, pr, float(exact))))
        lo, hi = min(ex[l]), max(ex[l])
        for pr in got[l]:
            v = frac(pr)
            if (steep and not v > hi) or (not steep and not (0 < v < lo)):
                bad.append(('strictly_outside', 'l=%d: added exponent %s is not strictly outside the original range' % (l, pr)))
    return bad, len(new)


def prim_multiset(el):
    out = []
    for sh in el.get('electron_shells', []):
        for l in sh['angular_momentum']:
            for e in sh['exponents']:
                out.append((l, frac(e)))
    return out


def judge_truhlar(z, el0, el1, offset):
    """el0 = general-contracted original (funcs), el1 = result"""
    bad = []
    ex0, _ = by_am_primitives(el0)
    ex1, _ = by_am_primitives(el1) if el1.get('electron_shells') else ({}, {})
    m = max(ex0)
    n = m + 1 if z in ('1', '2') else offset
    target = [l for l in range(m, m - n, -1) if l >= 0]
    for l in ex0:
        want = set(ex0[l])
        if l in target:
            want = want - {min(want)}
        if ex1.get(l, set()) != want:
            bad.append(('truhlar_removes_most_diffuse', 'l=%d: primitives left %s, the rule gives %s' %
                        (l, sorted(map(float, ex1.get(l, set())))[:4], sorted(map(float, want))[:4])))
    if set(ex1) - set(ex0):
        bad.append(('truhlar_only_removes', 'a momentum appeared'))
    # functions: every remaining function is an old one restricted to the primitives left
    f0 = set(el_funcset(el0))
    for l, terms in el_funcset(el1) if el1.get('electron_shells') else []:
        ok = False
        for l0, t0 in f0:
            if l0 == l and tuple((e, c) for e, c in t0 if e in ex1.get(l, ())) == terms:
                ok = True
                break
        if not ok:
            bad.append(('truhlar_only_removes', 'l=%d: a function of the result is not an original function minus the removed primitive' % l))
            break
    return bad


def work(item):
    bse = import_bse()
    from basis_set_exchange import manip
    label, src, mode = item
    out = dict(label=label, cases=[], error=None)
    try:
        if isinstance(src, dict):
            b, name = src, None
        else:
            name, ver = src
            b = bse.get_basis(name, version=ver)
    except Exception as e:
        out['error'] = type(e).__name__
        return out
    if not wf_basis(b) or not any('electron_shells' in el for el in b['elements'].values()):
        out['error'] = 'not-WF-or-no-shells'
        return out
    if mode == 'aug':
        for n in (1, 2, 3, 4):
            for steep in (False, True):
                rec = dict(kind='aug', n=n, steep=steep, els=[])
                via = 'manip'
                try:
                    b0 = copy.deepcopy(b)
                    if name is not None and n <= 2:
                        via = 'get_basis'
                        r = bse.get_basis(name, version=ver, **({'augment_steep': n} if steep else {'augment_diffuse': n}))
                    else:
                        r = manip.geometric_augmentation(b, n, steep=steep)
                    if b != b0:
                        rec['mutated'] = True
                        b = b0
                except Exception as e:
                    rec['raised'] = '%s: %s' % (type(e).__name__, str(e)[:100])
                    out['cases'].append(rec)
                    continue
                rec['via'] = via
                for z, el in b['elements'].items():
                    if 'electron_shells' not in el:
                        continue
                    el1 = r['elements'][z]
                    if via == 'get_basis' and steep:
                        # get_basis sorts after steep augmentation: compare as sets of shells
                        s0 = shells_of(el)
                        s1 = shells_of(el1)
                        from basis_set_exchange import sort as bsort
                        new = [s for s in s1 if len(s['exponents']) == 1 and s['region'] == '' and not any(canon(s) == canon(t) for t in s0)]
                        el1 = dict(electron_shells=s0 + new) if len(new) + len(s0) == len(s1) else dict(electron_shells=s1)
                    bad, nnew = judge_aug(el, el1, n, steep)
                    # get_basis(augment_steep) ends with sort_basis, which may reorder the potentials: compared as a multiset on that path
                    e = dict(z=z, bad=bad, nnew=nnew, ecp_same=(ecp_multiset(el) == ecp_multiset(r['elements'][z])) if via == 'get_basis'
                             else (ecp_of(el) == ecp_of(r['elements'][z])))
                    if via == 'manip':
                        e['in'] = shells_of(el)
                        e['new'] = [(s['angular_momentum'], s['exponents'][0]) for s in shells_of(el1)[len(shells_of(el)):]]
                    rec['els'].append(e)
                out['cases'].append(rec)
    else:
      import random
      trng = random.Random(label)
      zs_all = list(b['elements'])
      subsets = [None]
      if len(zs_all) > 2:
          # He without H, one element, a random pair: the rule for H and He is per element, not per basis
          subsets += [[z for z in zs_all if z != '1'][:3], [trng.choice(zs_all)], trng.sample(zs_all, 2)]
          if '2' in zs_all:
              subsets.append(['2', trng.choice([z for z in zs_all if z not in ('1', '2')])])
      whole = b
      for sub in subsets:
        b = whole if sub is None else dict(whole, elements={z: whole['elements'][z] for z in zs_all if z in sub})
        if not any('electron_shells' in el for el in b['elements'].values()):
            continue
        gen = manip.make_general(b)
        bmax = max(max(max(sh['angular_momentum']) for sh in el['electron_shells']) for el in gen['elements'].values() if 'electron_shells' in el)
        prev = None
        for off, month in enumerate(MONTHS):
            rec = dict(kind='truhlar', month=month, offset=off, els=[], subset=sub)
            try:
                r = manip.truhlar_calendarize(b, month)
            except Exception as e:
                rec['raised'] = '%s: %s' % (type(e).__name__, str(e)[:100])
                rec['must_refuse'] = off > bmax
                out['cases'].append(rec)
                continue
            rec['must_refuse'] = off > bmax
            for z, el in gen['elements'].items():
                if 'electron_shells' not in el:
                    continue
                el1 = r['elements'].get(z, {})
                bad = judge_truhlar(z, el, el1, off)
                e = dict(z=z, bad=bad, ecp_same=ecp_of(b['elements'][z]) == ecp_of(el1), in_=shells_of(b['elements'][z]),
                         out=shells_of(el1) if 'electron_shells' in el1 else [], nremove=None if z in ('1', '2') else off)
                if prev is not None:
                    p0 = prim_multiset(prev['elements'].get(z, {}))
                    p1 = prim_multiset(el1)
                    if not set(p1) <= set(p0):
                        e['bad'].append(('truhlar_chain', 'primitives of %s are not a subset of those of the previous month' % month))
                rec['els'].append(e)
            prev = r
            out['cases'].append(rec)
    return out


def canon(s):
    return (tuple(s['angular_momentum']), tuple(sorted((frac(e), tuple(frac(c[i]) for c in s['coefficients'])) for i, e in enumerate(s['exponents']))))


def run(ctx):
    bse = import_bse()
    R = Result('C12')
    md = bse.get_metadata()
    orbital = lambda p: md[p[0]]['role'] == 'orbital' and 'scalar_ecp' not in md[p[0]]['function_types'][:0]
    items = [('%s/%s' % p, p, 'aug') for p in sample_pairs(ctx, ctx.n(30, 10 ** 6), orbital)]
    augs = lambda p: p[0].startswith(('aug-', 'jul-', 'jun-')) is True and p[0].startswith('aug-')
    items += [('%s/%s' % p, p, 'truhlar') for p in sample_pairs(ctx, ctx.n(14, 10 ** 6), augs)]
    for i in range(ctx.n(120, 2000)):
        g = genbasis.gen_basis(ctx.rng, kinds=['general', 'plain', 'pople', 'shared', 'ecp'])
        if i % 4 == 1:
            # a hole in the momenta of an element (p, d without s; s, d without p - CRENBL Z >= 95 is of that kind): the shells of one
            # momentum below the highest are taken out
            for el in g['elements'].values():
                shs = el.get('electron_shells', [])
                ls = sorted(set(l for sh in shs for l in sh['angular_momentum']))
                single = [l for l in ls[:-1] if all(len(sh['angular_momentum']) == 1 for sh in shs if l in sh['angular_momentum'])]
                if len(ls) >= 2 and single:
                    drop = ctx.rng.choice(single)
                    el['electron_shells'] = [sh for sh in shs if sh['angular_momentum'] != [drop]]
        items.append(('gen%d' % i, g, 'aug'))
        if i % 3 == 0:
            items.append(('gent%d' % i, genbasis.gen_basis(ctx.rng, kinds=['general', 'plain', 'ecp']), 'truhlar'))
    reqs, meta = [], []
    for i in range(0, len(items), 90):
        for out in pmap(work, items[i:i + 90]):
            if out['error']:
                R.count('skip:' + out['error'])
                continue
            for rec in out['cases']:
                w0 = dict(basis=out['label'], **{k: rec[k] for k in ('n', 'steep', 'month', 'subset') if k in rec})
                if 'raised' in rec:
                    R.ev()
                    if rec['kind'] == 'truhlar':
                        if rec['must_refuse']:
                            R.count('truhlar:refused-as-documented')
                        elif 'fused shell' in rec['raised']:
                            R.count('truhlar:refused-fused')
                        else:
                            R.violation('truhlar_raises', 'manip.truhlar_calendarize', 'raises: ' + rec['raised'], w0)
                    else:
                        if 'outermost exponents are the same' in rec['raised']:
                            R.count('aug:refused-equal-outer-exponents')
                        else:
                            R.violation('aug_raises', 'manip.geometric_augmentation', 'raises: ' + rec['raised'], w0)
                    continue
                if rec['kind'] == 'truhlar' and rec['must_refuse']:
                    R.violation('truhlar_refuses', 'manip.truhlar_calendarize', 'does not refuse to strip every diffuse function of the whole basis', w0)
                if rec.get('mutated'):
                    R.violation('input_untouched', 'manip.geometric_augmentation', 'the input basis was modified', w0)
                for e in rec['els']:
                    R.ev()
                    w = dict(w0, element=e['z'])
                    site = 'manip.truhlar_calendarize' if rec['kind'] == 'truhlar' else ('api.get_basis' if rec.get('via') == 'get_basis' else 'manip.geometric_augmentation')
                    if not e['ecp_same']:
                        R.violation('ecp_untouched', site, 'ECP data changed', w)
                    for rule, what in e['bad']:
                        R.violation(rule, site, what, w)
                    if rec['kind'] == 'aug':
                        if e['nnew']:
                            R.nt(jdump([out['label'], e['z'], rec['n'], rec['steep']]))
                        R.count('aug:%s:%s' % ('steep' if rec['steep'] else 'diffuse', 'added' if e['nnew'] else 'nothing'))
                        if ctx.model_ok and 'in' in e:
                            reqs.append(dict(op='augment_plan', shells=e['in'], nadd=rec['n'], steep=rec['steep']))
                            meta.append(('aug', w, e))
                    else:
                        R.nt(jdump([out['label'], e['z'], rec['month']]))
                        R.count('truhlar:' + rec['month'])
                        if ctx.model_ok:
                            rq = dict(op='truhlar_el', shells=e['in_'])
                            if e['nremove'] is not None:
                                rq['nremove'] = e['nremove']
                            reqs.append(rq)
                            meta.append(('truhlar', w, e))
                    R.sample(dict(w, added=e.get('nnew')))
    if ctx.model_ok and reqs:
        ans = drive(reqs)
        for a, (kind, w, e) in zip(ans, meta):
            if 'drv_error' in a:
                raise DriverError(a['drv_error'])
            if kind == 'aug':
                if 'raise' in a:
                    R.disagree('augment_plan', w, 'raise ' + a['raise'], 'ok')
                    continue
                plan = [(p['am'], x) for p in a['ok'] for x in p['new']]
                got = e['new']
                ok = len(plan) == len(got) and all(pa == ga and close(gx, Fraction(px)) for (pa, px), (ga, gx) in zip(plan, got))
                if not ok:
                    R.disagree('augment_plan', w, str(plan)[:200], str(got)[:200], note='new primitives differ (model exact, implementation printed)')
            else:
                if 'raise' in a:
                    R.disagree('truhlar_el', w, 'raise ' + a['raise'], 'ok')
                elif a['ok'] != e['out']:
                    R.disagree('truhlar_el', w, '(shells)', '(shells)', note='shell lists differ')
        R.extra['traces_validated_against_model'] = len(reqs)
    return R


def replay(ctx, payload):
    print('witness:', jdump(payload.get('witness'))[:800])
    return False
