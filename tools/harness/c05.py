"""C05 — all spellings of a query select the same data (names, aliases, element notations, versions)."""
import json
from common import *

LEVEL = 'proof'
RULE = ('index entries (seed-chosen sample in quick, all in thorough): three capitalisations of the display name, every alias; element selections '
        'drawn over Z in 1..118 written as ints, numeric strings, symbols in any case, ranges (also crossing undefined elements), comma lists and '
        'mixes, empty and None; versions None / str / int / unknown; the same through get_references. Non-trivial = distinct (entry, selection set).')
ASSUMPTIONS = ['names are ASCII (all 748 index names are; re-checked every run)', '"highest version" is the maximum in the order the index builder uses (string order; store versions are 0,1,2)']
TRUSTED = []


def cls(e):
    return type(e).__name__


def strip_name(b):
    b = dict(b)
    b.pop('name', None)
    return b


def notations(rng, lut, misc, sel):
    """the same selection set written in many ways"""
    ints = [int(z) for z in sel]
    syms = [lut.element_sym_from_Z(z) for z in ints]
    shuffled = list(ints)
    rng.shuffle(shuffled)
    forms = [ints, [str(z) for z in ints], [s.upper() for s in syms], [s.capitalize() for s in syms], ','.join(s.capitalize() for s in syms),
             ','.join(str(z) for z in shuffled), misc.compact_elements(ints), [misc.compact_elements(ints)], shuffled + shuffled[:1],
             [rng.choice([z, str(z), s, s.upper()]) for z, s in zip(ints, syms)], ' , '.join(str(z) for z in ints)]
    if len(ints) == 1:
        forms += [ints[0], str(ints[0]), syms[0]]
    return forms


def enc(x):
    """ordered-object wire form of the Lean driver"""
    if isinstance(x, dict):
        return {'$o': [[k, enc(v)] for k, v in x.items()]}
    if isinstance(x, list):
        return [enc(v) for v in x]
    return x


def dec(x):
    if isinstance(x, dict) and '$o' in x:
        return {k: dec(v) for k, v in x['$o']}
    if isinstance(x, list):
        return [dec(v) for v in x]
    return x


def slim(b):
    """a basis dictionary reduced to what the front end of get_basis looks at: every top-level field, the element keys in order, and per
    element the function / ECP types (the model of `_whole_basis_types` reads nothing else)"""
    r = {k: v for k, v in b.items() if k in ('name', 'names', 'description', 'family', 'role', 'version', 'function_types', 'molssi_bse_schema')}
    r['elements'] = {z: dict(([('electron_shells', [dict(function_type=sh['function_type']) for sh in el['electron_shells']])] if 'electron_shells' in el else []) +
                             ([('ecp_potentials', [dict(ecp_type=p['ecp_type']) for p in el['ecp_potentials']])] if 'ecp_potentials' in el else []))
                     for z, el in b['elements'].items()}
    return {k: r[k] for k in b if k in r}


def work(item):
    bse = import_bse()
    from basis_set_exchange import lut, misc, compose
    import random
    key, seed = item
    rng = random.Random(seed)
    md = bse.get_metadata()
    e = md[key]
    out = dict(key=key, bad=[], n=0, nt=[], reqs=[], error=None)

    def bad(rule, what, **w):
        out['bad'].append((rule, what, dict(w, name=key)))
    try:
        full = bse.get_basis(key)
    except Exception as ex:
        out['error'] = cls(ex)
        return out
    disp = e['display_name']
    try:
        composed = slim(compose.compose_table_basis(e['versions'][e['latest_version']]['file_relpath'], bse.api.fix_data_dir(None)))
    except Exception as ex:
        composed = None
        bad('selection_is_restriction', 'compose_table_basis raises %s although get_basis answers' % cls(ex))
    if composed is not None:
        out['reqs'].append((dict(op='apply_selection', basis=enc(composed), display=disp), ('ok', slim(full))))
        out['reqs'].append((dict(op='apply_selection', basis=enc(composed), display=disp, sel=[]), ('ok', slim(full))))
    # default version = highest listed
    if full['version'] != e['latest_version'] or e['latest_version'] != max(e['versions']):
        bad('default_is_latest', 'default version is not the highest one listed', got=full['version'], versions=sorted(e['versions']))
    out['reqs'].append((dict(op='resolve_version', latest=e['latest_version'], versions=sorted(e['versions'])), ('ok', full['version'])))
    # capitalisations and aliases
    for sp in (disp.upper(), disp.lower(), disp.swapcase(), key):
        out['n'] += 1
        try:
            r = bse.get_basis(sp)
            if r != full or list(r['elements']) != list(full['elements']):
                bad('name_spelling', 'another capitalisation of the name gives another result', spelling=sp)
        except Exception as ex:
            bad('name_spelling', 'another capitalisation of the name raises ' + cls(ex), spelling=sp)
    for on in e['other_names']:
        out['n'] += 1
        try:
            r = bse.get_basis(on)
            if strip_name(r) != strip_name(full):
                bad('alias', 'a registered alias gives other data', alias=on)
            if bse.get_references(on) != bse.get_references(key):
                bad('alias', 'a registered alias gives other references', alias=on)
        except Exception as ex:
            bad('alias', 'a registered alias raises ' + cls(ex), alias=on)
    # versions
    for v in e['versions']:
        out['n'] += 1
        try:
            rs = bse.get_basis(key, version=v)
            if rs['version'] != v:
                bad('version_select', 'version field of the result is not the requested version', version=v, got=rs['version'])
            if v.isdecimal():
                ri = bse.get_basis(key, version=int(v))
                if ri != rs:
                    bad('version_int_str', 'version as int and as str give different data', version=v)
                out['reqs'].append((dict(op='resolve_version', latest=e['latest_version'], versions=sorted(e['versions']), v=int(v)), ('ok', ri['version'])))
            if v == e['latest_version'] and rs != full:
                bad('default_is_latest', 'explicit latest version differs from the default', version=v)
        except Exception as ex:
            if (key, v) not in work.emptied:
                bad('version_select', 'listed version raises ' + cls(ex), version=v)
    for v in ('99', 7, '', 'latest'):
        out['n'] += 1
        try:
            bse.get_basis(key, version=v)
            bad('unknown_version', 'unknown version does not raise', version=v)
        except KeyError:
            pass
        except Exception as ex:
            bad('unknown_version', 'unknown version raises %s, not KeyError' % cls(ex), version=v)
    out['reqs'].append((dict(op='resolve_version', latest=e['latest_version'], versions=sorted(e['versions']), v='99'), ('err', 'KeyError')))
    # element selections
    els = list(full['elements'])
    for t in range(3):
        sel = sorted(rng.sample(els, min(len(els), rng.randrange(1, 7))), key=int)
        exp = copy.deepcopy(full)
        exp['elements'] = {z: v for z, v in full['elements'].items() if z in sel}
        exp['function_types'] = compose._whole_basis_types(exp)
        want_order = [z for z in full['elements'] if z in sel]
        out['nt'].append((key, tuple(sel)))
        refs_want = None
        for f in notations(rng, lut, misc, sel):
            out['n'] += 1
            try:
                r = bse.get_basis(key, elements=f)
            except Exception as ex:
                bad('element_notation', 'an accepted notation raises ' + cls(ex), selection=f)
                continue
            if r != exp or list(r['elements']) != want_order:
                why = 'per-element data' if any(r['elements'].get(z) != full['elements'][z] for z in sel) else \
                    ('element order' if list(r['elements']) != want_order else 'function_types / other fields')
                bad('selection_is_restriction', 'result is not the full basis restricted to the selection (%s)' % why, selection=f)
            if sorted(r['function_types']) != r['function_types'] or set(r['function_types']) != set(compose._whole_basis_types(r)):
                bad('selection_is_restriction', 'function_types not recomputed for the subset', selection=f)
            try:
                rr = bse.get_references(key, elements=f)
                if refs_want is None:
                    refs_want = rr
                elif rr != refs_want:
                    bad('element_notation', 'get_references differs between notations of one selection', selection=f)
            except Exception as ex:
                bad('element_notation', 'get_references raises %s on an accepted notation' % cls(ex), selection=f)
        out['reqs'].append((dict(op='select', keys=els, sel=[str(z) for z in sel]), ('ok', want_order)))
        if composed is not None:
            try:
                out['reqs'].append((dict(op='apply_selection', basis=enc(composed), display=disp, sel=misc.expand_elements(sel, True)),
                                    ('ok', slim(bse.get_basis(key, elements=sel)))))
            except Exception as ex:
                bad('element_notation', 'an accepted selection raises ' + cls(ex), selection=sel)
    # empty / None
    for f in (None, [], '', ',', [''], ' '):
        out['n'] += 1
        try:
            r = bse.get_basis(key, elements=f)
            if r != full:
                bad('empty_selection_is_all', 'empty selection / None does not give all elements', selection=f)
        except Exception as ex:
            bad('empty_selection_is_all', 'empty selection raises ' + cls(ex), selection=f)
    # missing elements (ranges crossing undefined elements included)
    missing = [z for z in range(1, 119) if str(z) not in full['elements']]
    if missing:
        m = rng.choice(missing)
        have = int(rng.choice(els))
        lo, hi = min(m, have), max(m, have)
        for f in ([m], str(m), [have, m], '%d-%d' % (lo, hi), lut.element_sym_from_Z(m).upper(), [str(have), lut.element_sym_from_Z(m)]):
            out['n'] += 1
            try:
                r = bse.get_basis(key, elements=f)
                bad('missing_element_keyerror', 'a selection containing an undefined element returns data', selection=f, got=list(r['elements'])[:8])
            except KeyError:
                pass
            except Exception as ex:
                bad('missing_element_keyerror', 'undefined element raises %s, not KeyError' % cls(ex), selection=f)
            try:
                bse.get_references(key, elements=f)
                bad('missing_element_keyerror', 'get_references with an undefined element returns data', selection=f)
            except KeyError:
                pass
            except Exception as ex:
                bad('missing_element_keyerror', 'get_references: undefined element raises %s' % cls(ex), selection=f)
        out['reqs'].append((dict(op='select', keys=els, sel=[str(have), str(m)]), ('err', 'KeyError')))
        if composed is not None:
            out['reqs'].append((dict(op='apply_selection', basis=enc(composed), display=disp, sel=[str(have), str(m)]), ('err', 'KeyError')))
    for f in ('H-', '1-2-3', 'Xx', '-3', 'H,,-He'):
        out['n'] += 1
        try:
            bse.get_basis(key, elements=f)
            bad('malformed_rejected', 'a malformed element string returns data', selection=f)
        except Exception:
            pass
    return out


work.emptied = set()


def run(ctx):
    bse = import_bse()
    R = Result('C05')
    md = bse.get_metadata()
    nonascii = [k for k, e in md.items() if not (k.isascii() and e['display_name'].isascii())]
    R.extra['non_ascii_names'] = len(nonascii)
    # versions that cannot be composed in this sandbox (emptied data files)
    emptied = set()
    for f in open('/root/.vp/EMPTIED_FILES.txt') if os.path.isfile('/root/.vp/EMPTIED_FILES.txt') else []:
        b = os.path.basename(f.strip()).split('.')[0].lower()
        emptied.add(b)
    work.emptied = set((k, v) for k, e in md.items() for v in e['versions'] if any(x in k for x in emptied))
    keys = sorted(md)
    if not ctx.thorough:
        keys = sorted(ctx.rng.sample(keys, ctx.n(110, 0)))
    items = [(k, '%s-%d' % (k, ctx.seed)) for k in keys]
    reqs, want = [], []
    for i in range(0, len(items), 120):
        for out in pmap(work, items[i:i + 120]):
            if out['error']:
                R.count('skip:' + out['error'])
                continue
            R.ev(out['n'])
            for k in out['nt']:
                R.nt(k)
            for rule, what, w in out['bad']:
                R.violation(rule, 'api.get_basis', what, w)
            for rq, wa in out['reqs']:
                reqs.append(rq)
                want.append((out['key'], wa))
            R.sample(dict(name=out['key'], calls=out['n']))
    if ctx.model_ok and reqs:
        ans = drive(reqs)
        for a, rq, (key, wa) in zip(ans, reqs, want):
            if 'drv_error' in a:
                raise DriverError(a['drv_error'])
            got = ('ok', dec(a['ok'])) if 'ok' in a else ('err', a['raise'])
            if got != wa or (got[0] == 'ok' and isinstance(wa[1], dict) and (list(got[1]) != list(wa[1]) or list(got[1]['elements']) != list(wa[1]['elements']))):
                R.disagree(rq['op'], dict(name=key, request={k: v for k, v in rq.items() if k not in ('keys', 'basis')}), str(got)[:300], str(wa)[:300])
        R.extra['traces_validated_against_model'] = len(reqs)
    R.extra['entries'] = len(keys)
    return R


def replay(ctx, payload):
    bse = import_bse()
    w = payload['witness']
    out = work((w['name'], 'replay'))
    for rule, what, ww in out['bad']:
        print(rule, what, ww)
    return not out['bad']
