"""C14 — the information header can never change or corrupt the payload."""
import io, contextlib
from common import *

LEVEL = 'proof'
RULE = ('all writer formats x store basis/versions (a sample: 14 entries in quick, 50 in thorough) with their own descriptions / revision texts, and the same bases with '
        'generated descriptions, revision texts and names containing newlines, Unicode line separators, comment markers, section keywords and long words; '
        'one case = (basis, format, description variant). Non-trivial = distinct headed text.')
ASSUMPTIONS = ['textwrap.fill is a parameter of the theorem (any function); that it keeps the characters of the name/role/version is validated here, not proved']
TRUSTED = ['CPython textwrap, str.splitlines']

NASTY = ['plain description', 'line one\nline two\n\nline four', 'unicode sep after ls after ps\x85after nel', 'form\x0cfeed and \x0bvt and \x1cfs \x1dgs \x1ers',
         '$end\n$basis\n****\nEND\nH 0\n', '! # * c comment markers ! # *', 'x' * 200, 'word ' * 60, 'tab\tseparated\r\ncrlf\rcr', 'trailing newline\n', '', 'ünïcödé naïve café ∑∫',
         '-' * 70, ' leading and trailing spaces  ']


def variants(rng, b):
    yield 'stored', b
    for k in range(3):
        v = dict(b)
        v['description'] = rng.choice(NASTY)
        v['revision_description'] = rng.choice(NASTY)
        if rng.random() < 0.3:
            v['name'] = b['name'] + rng.choice([' (x)', ' y', ' #1'])
        yield 'generated%d' % k, v


def first_data_line_index(lines, marker):
    for i, l in enumerate(lines):
        if l.strip() and not l.startswith(marker):
            return i
    return len(lines)


def work(item):
    bse = import_bse()
    from basis_set_exchange import api, writers, readers
    import random
    name, ver, seed = item
    rng = random.Random(seed)
    out = dict(label='%s/%s' % (name, ver), cases=[], error=None)
    try:
        b0 = bse.get_basis(name, version=ver)
    except Exception as e:
        out['error'] = type(e).__name__
        return out
    fmts = bse.get_formats()
    rfmts = set(bse.get_reader_formats())
    wm = writers.write._writer_map
    cart = 'gto_cartesian' in b0['function_types']
    for vname, b in variants(rng, b0):
        b_before = copy.deepcopy(b)
        hdr = api._header_string(b)
        if b != b_before:
            out['cases'].append(dict(fmt='(all)', variant=vname, bad=[('header_changes_basis', 'building the header changed the basis dictionary that is then written')]))
            b = b_before
        for fmt in fmts:
            rec = dict(fmt=fmt, variant=vname, bad=[])
            try:
                bare = writers.write_formatted_basis_str(copy.deepcopy(b), fmt, None)
            except Exception as e:
                rec['unsupported'] = type(e).__name__
                out['cases'].append(rec)
                continue
            try:
                headed = writers.write_formatted_basis_str(copy.deepcopy(b), fmt, hdr)
            except Exception as e:
                rec['bad'].append(('header_breaks_writer', 'writing with a header raises %s' % type(e).__name__))
                out['cases'].append(rec)
                continue
            marker = wm[fmt]['comment']
            rec['hash'] = hashlib.sha1(headed.encode()).hexdigest()
            if marker is None:
                if headed != bare:
                    rec['bad'].append(('no_comment_no_header', 'a format without comment syntax got a header'))
            else:
                # headed = pre + block + sep + rest where bare = pre + rest
                pre = ''
                if fmt == 'psi4':
                    pre = bare[:bare.index('\n\n') + 2]
                rest = bare[len(pre):]
                if not (headed.startswith(pre) and headed.endswith(rest)):
                    rec['bad'].append(('payload_unchanged', 'the bare text is not a suffix of the headed text (payload changed)'))
                else:
                    block = headed[len(pre):len(headed) - len(rest)]
                    for ln in block.splitlines():
                        if ln.strip() and not ln.startswith(marker):
                            rec['bad'].append(('header_lines_marked', 'an added line does not begin with the comment marker: %r' % ln[:60]))
                            break
                    if fmt == 'gaussian94lib' and block.endswith('\n\n'):
                        rec['bad'].append(('header_lines_marked', 'gaussian94lib got a blank line after the header'))
                    # the payload must start on a line of its own: the block ends with a line boundary
                    if block and block[-1] not in '\n\r\x0b\x0c\x1c\x1d\x1e\x85\u2028\u2029':
                        rec['bad'].append(('header_lines_marked', 'the last header line is not terminated: the first line of the data is glued to it (%r)'
                                           % headed[len(pre) + len(block) - 20:len(pre) + len(block) + 12]))
                # header states name, role, version, library version
                # the text of the header with the per-line markers and all white space (incl. line separators) removed
                flat = ''.join(''.join(ln[len(marker):] if ln.startswith(marker) else ln for ln in headed.splitlines()).split())
                for what, val in (('name', b['name']), ('role', b['role']), ('version', b['version']), ('library version', api.version())):
                    if ''.join(val.split()) not in flat:
                        rec['bad'].append(('header_states', 'the header does not state the %s' % what))
            # reading back
            rfmt = 'gaussian94' if fmt == 'gaussian94lib' else fmt      # the Gaussian reader accepts the system-library form too
            if rfmt in rfmts:
                def rd(t):
                    try:
                        return ('ok', readers.read_formatted_basis_str(t, rfmt))
                    except Exception as e:
                        return ('err', type(e).__name__)
                rb, rh = rd(bare), rd(headed)
                if rb[0] == 'ok' and rh != rb:
                    rec['bad'].append(('readback_same', 'reading the headed text gives %s, the bare text reads fine' % (rh[1] if rh[0] == 'err' else 'other data')))
                rec['read'] = rb[0]
            # the public path: get_basis(..., header=True) against header=False
            if vname == 'stored':
                try:
                    pub_h = bse.get_basis(name, version=ver, fmt=fmt, header=True)
                    pub_b = bse.get_basis(name, version=ver, fmt=fmt, header=False)
                    if pub_b != bare or pub_h != headed:
                        rec['bad'].append(('payload_unchanged', 'get_basis(header=True/False) does not give the bare text / the bare text plus the header block'))
                except Exception as e:
                    rec['bad'].append(('payload_unchanged', 'get_basis with fmt raises %s although the writer accepts the basis' % type(e).__name__))
            # ... and with a generated auxiliary basis: the header in front of it must be the header of the dictionary the same call returns
            if vname == 'stored' and marker is not None and rng.random() < 0.15:
                g = rng.choice([1, 2])
                try:
                    with contextlib.redirect_stdout(io.StringIO()), contextlib.redirect_stderr(io.StringIO()):
                        ad = bse.get_basis(name, version=ver, get_aux=g)
                        want_aux = writers.write_formatted_basis_str(copy.deepcopy(ad), fmt, api._header_string(ad))
                        got_aux = bse.get_basis(name, version=ver, fmt=fmt, get_aux=g, header=True)
                except Exception:
                    want_aux = got_aux = None
                if want_aux != got_aux:
                    rec['bad'].append(('header_states', 'get_basis(get_aux=%d, header=True): the header is not that of the auxiliary basis returned by the same call' % g))
            rec['req'] = dict(op='assemble', fmt=fmt, body=(bare[len('cartesian\n\n' if cart else 'spherical\n\n'):] if fmt == 'psi4' else bare), header=hdr, cartesian=cart)
            rec['headed'] = headed
            out['cases'].append(rec)
    return out


def run(ctx):
    bse = import_bse()
    R = Result('C14')
    pairs = sample_pairs(ctx, ctx.n(14, 50), heavy=False)      # thorough: 50 entries x their descriptions x 30 formats (the whole store takes hours and tens of GB of text)
    items = [(n, v, '%s-%d' % (n, ctx.seed)) for n, v in pairs]
    reqs, meta = [], []
    ntraces = 0
    B = 12      # the texts of one batch are all in memory at once (thirty formats, bare and headed, several descriptions per basis)
    for i in range(0, len(items), B):
        for out in pmap(work, items[i:i + B]):
            if out['error']:
                R.count('skip:' + out['error'])
                continue
            for rec in out['cases']:
                R.ev()
                if 'unsupported' in rec:
                    R.count('format-refuses-basis')
                    continue
                R.count('fmt:' + rec['fmt'])
                if 'hash' in rec:
                    R.nt(rec['hash'])
                w = dict(basis=out['label'], fmt=rec['fmt'], description=rec['variant'])
                for rule, what in rec['bad']:
                    R.violation(rule, 'writers.write_formatted_basis_str', what, w, fmt=rec['fmt'])
                if 'read' in rec:
                    R.count('readback:' + rec['read'])
                if ctx.model_ok and 'req' in rec:
                    reqs.append(rec['req'])
                    meta.append((w, rec['headed']))
            R.sample(dict(basis=out['label'], cases=len(out['cases'])))
        # the assembled texts are large (the whole store in 30 formats is tens of GB): compared batch by batch, not kept
        if ctx.model_ok and reqs:
            ans = drive(reqs)
            for a, (w, headed) in zip(ans, meta):
                if 'drv_error' in a:
                    raise DriverError(a['drv_error'])
                if a.get('text') != headed:
                    R.disagree('assemble', w, (a.get('text') or a.get('raise'))[:120], headed[:120], note='assembled text differs')
            # what the reader goes on with: the model of prune_lines(text.splitlines(), skipchars) against helpers.prune_lines on the headed texts
            # (a sample of them: the comparison ships the text twice)
            from basis_set_exchange.readers import helpers as rh
            pick = [(w, headed) for (w, headed) in meta if len(headed) < 60000][:(40 if ctx.thorough else 5)]
            for skip in (('#', '!', '!#$', '*#$') if ctx.thorough else ('#', '!#$')):
                rl = drive([dict(op='reader_lines', s=headed, skip=skip) for _, headed in pick])
                for a, (w, headed) in zip(rl, pick):
                    if 'drv_error' in a:
                        raise DriverError(a['drv_error'])
                    want = rh.prune_lines(headed.splitlines(), skip)
                    R.ev()
                    if a.get('lines') != want:
                        k = next((i for i, (x, y) in enumerate(zip(a.get('lines') or [], want)) if x != y), min(len(a.get('lines') or []), len(want)))
                        R.disagree('reader_lines', dict(w, skip=skip), str((a.get('lines') or [])[k:k + 2])[:160], str(want[k:k + 2])[:160], note='pruned lines differ at %d' % k)
            ntraces += len(reqs)
            reqs, meta = [], []
    if ctx.model_ok:
        # splitlines on the nasty strings
        sl = drive([dict(op='splitlines', s=s) for s in NASTY])
        for a, s in zip(sl, NASTY):
            if a.get('lines') != s.splitlines(True):
                R.disagree('splitlines', dict(s=s[:40]), a.get('lines'), s.splitlines(True))
        # and on the nasty strings, where white space and line boundaries are unusual
        from basis_set_exchange.readers import helpers as rh
        rl = drive([dict(op='reader_lines', s='# a\n' + s + '\n  ! b \n', skip='#!') for s in NASTY])
        for a, s in zip(rl, NASTY):
            want = rh.prune_lines(('# a\n' + s + '\n  ! b \n').splitlines(), '#!')
            if a.get('lines') != want:
                R.disagree('reader_lines', dict(s=s[:40]), str(a.get('lines'))[:160], str(want)[:160])
        R.extra['traces_validated_against_model'] = ntraces + 2 * len(NASTY)
    return R


def replay(ctx, payload):
    print('witness:', jdump(payload.get('witness'))[:800])
    return False
