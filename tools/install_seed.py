#!/venv/bin/python
"""usage: install_seed.py <seed id> <detecting check(s)> <how it was reported>  — copies a confirmed seeded change into /verif/seeded/<id>/"""
import sys, os, json, shutil
sid, checks, how = sys.argv[1], sys.argv[2], sys.argv[3]
src = os.environ.get('SEED_SRC', '/tmp/seed/out') + '/' + sid
dst = '/verif/seeded/' + os.environ.get('SEED_PREFIX', '') + sid
os.makedirs(dst, exist_ok=True)
patch = 'patch_rebased.diff' if os.path.isfile(src + '/patch_rebased.diff') else 'patch.diff'
shutil.copy(os.path.join(src, patch), dst + '/patch.diff')
shutil.copy(src + '/demo.py', dst + '/demo.py')
meta = json.load(open(src + '/meta.json'))
conf = open(src + '/confirm.txt').read() if os.path.isfile(src + '/confirm.txt') else ''
meta.update(dict(
    breaks_property=sid.split('_')[0],
    written_by='independent sub-agent given only the property text and a scratch worktree',
    confirmed_by_main_session=conf.strip().split('\n'),
    rebased=(patch != 'patch.diff'),
    ran='git -C /repo apply seeded/%s/patch.diff ; ./check %s ; git -C /repo checkout -- .' % (os.environ.get('SEED_PREFIX', '') + sid, checks.replace(',', ' ; ./check ')),
    detected_by=checks.split(','), detection=how))
json.dump(meta, open(dst + '/meta.json', 'w'), indent=1)
print('installed', sid)
