"""Shared services of the /verif checks: context, driver access, result accumulation, store access,
exact decimal arithmetic.  Stdlib only; runs under /venv/bin/python (the library's interpreter)."""
import os, sys, json, random, subprocess, time, hashlib, copy, tempfile, shutil, re
from fractions import Fraction
from decimal import Decimal

VERIF = os.path.dirname(os.path.dirname(os.path.abspath(__file__)))
LEAN = os.path.join(VERIF, 'lean')
DRV = os.path.join(LEAN, '.lake', 'build', 'bin', 'bsedrv')
NPROC = int(os.environ.get('VERIF_NPROC', '15'))


def repo_path():
    return os.path.abspath(os.environ.get('BSE_VERIF_REPO', '/repo'))


def import_bse():
    """import the library from the working tree under test (never from an installed copy)"""
    rp = repo_path()
    if sys.path[0] != rp:
        sys.path.insert(0, rp)
    import basis_set_exchange as bse
    got = os.path.dirname(os.path.dirname(os.path.abspath(bse.__file__)))
    if got != rp:
        raise RuntimeError('library imported from %s, expected %s' % (got, rp))
    return bse


# ------------------------------------------------------------------------------------------------
# exact numbers
# ------------------------------------------------------------------------------------------------
_num_re = re.compile(r'^\s*[-+]?(\d+\.?\d*|\.\d+)([eE][-+]?\d+)?\s*$')


def frac(s):
    """exact value of a number string as Python's float() reads it (decimal syntax only)"""
    if not isinstance(s, str):
        s = str(s)
    if not _num_re.match(s):
        raise ValueError('not a decimal number string: %r' % (s,))
    return Fraction(Decimal(s.strip()))


def frac_d(s):
    """same, but accepts a Fortran D exponent marker"""
    return frac(s.replace('D', 'E').replace('d', 'e'))


def faithful(nums):
    """number of pairs in `nums` on which float equality and exact equality disagree, plus
    float-zero vs exact-zero disagreements"""
    bad = 0
    byf = {}
    for s in nums:
        f = float(s)
        q = frac(s)
        if (f == 0.0) != (q == 0):
            bad += 1
        if f in byf and byf[f] != q:
            bad += 1
        byf.setdefault(f, q)
    return bad


# ------------------------------------------------------------------------------------------------
# canonical contracted functions (Python twin of BSE.canonFuncs; used for search and triage —
# the verified evaluation is the driver's)
# ------------------------------------------------------------------------------------------------
def shell_funcs(sh):
    am = sh['angular_momentum']
    ex = [frac(x) for x in sh['exponents']]
    out = []
    for j, col in enumerate(sh['coefficients']):
        l = am[j] if len(am) > 1 else am[0]
        d = {}
        for e, c in zip(ex, col):
            d[e] = d.get(e, 0) + frac(c)
        out.append((l, tuple(sorted((e, c) for e, c in d.items() if c != 0))))
    return out


def el_funcset(el):
    s = set()
    for sh in el.get('electron_shells', []):
        s.update(shell_funcs(sh))
    return s


def el_funcs_multiset(el):
    out = []
    for sh in el.get('electron_shells', []):
        out.extend(shell_funcs(sh))
    return sorted(out)


def fmt_func(f):
    return [f[0], [[str(e), str(c)] for e, c in f[1]]]


# ------------------------------------------------------------------------------------------------
# driver
# ------------------------------------------------------------------------------------------------
class DriverError(Exception):
    pass


def driver_available():
    return os.path.isfile(DRV) and os.access(DRV, os.X_OK)


def _drive_chunk(lines):
    p = subprocess.run([DRV], input=('\n'.join(lines) + '\n').encode(), stdout=subprocess.PIPE,
                       stderr=subprocess.PIPE, timeout=3600)
    if p.returncode != 0:
        raise DriverError('driver exit %d: %s' % (p.returncode, p.stderr.decode()[-2000:]))
    out = p.stdout.decode().split('\n')
    if out and out[-1] == '':
        out.pop()
    if len(out) != len(lines):
        raise DriverError('driver answered %d lines for %d requests: %s' % (len(out), len(lines), p.stderr.decode()[-500:]))
    return out


def drive(requests, nproc=None):
    """send request dicts to the compiled Lean driver, return response dicts (same order)"""
    if not requests:
        return []
    if not driver_available():
        raise DriverError('driver binary missing: ' + DRV)
    lines = [json.dumps(r, separators=(',', ':')) for r in requests]
    nproc = nproc or NPROC
    nchunk = min(nproc, max(1, len(lines) // 20))
    if nchunk <= 1:
        outs = _drive_chunk(lines)
    else:
        from concurrent.futures import ThreadPoolExecutor
        size = (len(lines) + nchunk - 1) // nchunk
        chunks = [lines[i:i + size] for i in range(0, len(lines), size)]
        with ThreadPoolExecutor(len(chunks)) as ex:
            outs = [o for part in ex.map(_drive_chunk, chunks) for o in part]
    res = []
    for o in outs:
        try:
            res.append(json.loads(o))
        except Exception:
            raise DriverError('driver wrote non-JSON: ' + o[:300])
    return res


# ------------------------------------------------------------------------------------------------
# result accumulation
# ------------------------------------------------------------------------------------------------
class Result:
    def __init__(self, pid):
        self.pid = pid
        self.evaluations = 0
        self.nontrivial = set()
        self.samples = []
        self.violations = []      # property fails on the real code: dict(rule, site, fields, witness, what)
        self.disagreements = []   # model and implementation differ: dict(op, input, model, impl)
        self.hist = {}
        self.notes = []
        self.exhaustive = None
        self.extra = {}

    def ev(self, n=1):
        self.evaluations += n

    def nt(self, key):
        """count a distinct non-trivial case (key = anything hashable/serialisable)"""
        if not isinstance(key, (str, int, tuple)):
            key = json.dumps(key, sort_keys=True, default=str)
        if isinstance(key, str) and len(key) > 64:
            key = hashlib.sha1(key.encode()).hexdigest()
        self.nontrivial.add(key)

    def sample(self, x, cap=6):
        if len(self.samples) < cap:
            self.samples.append(x)

    def count(self, k, n=1):
        self.hist[k] = self.hist.get(k, 0) + n

    def violation(self, rule, site, what, witness, **fields):
        self.violations.append(dict(rule=rule, site=site, what=what, witness=witness, fields=fields))

    def disagree(self, op, inp, model, impl, note=''):
        self.disagreements.append(dict(op=op, input=inp, model=model, impl=impl, note=note))

    def merge(self, other):
        self.evaluations += other.evaluations
        self.nontrivial |= other.nontrivial
        for s in other.samples:
            self.sample(s)
        self.violations += other.violations
        self.disagreements += other.disagreements
        for k, v in other.hist.items():
            self.count(k, v)
        self.notes += other.notes
        for k, v in other.extra.items():
            if isinstance(v, (int, float)) and isinstance(self.extra.get(k, 0), (int, float)):
                self.extra[k] = self.extra.get(k, 0) + v
            else:
                self.extra[k] = v


class Ctx:
    def __init__(self, pid, tier, seed):
        self.pid = pid
        self.tier = tier
        self.seed = seed
        self.rng = random.Random('%s-%d' % (pid, seed))
        self.repo = repo_path()
        self.thorough = (tier == 'thorough')
        self.tmp = None
        self.model_ok = True        # False when the Lean side could not be built: harness runs impl-only
        self.search_boost = 1       # >1 when a proof / the correspondence broke: widen the search

    def tmpdir(self):
        if self.tmp is None:
            self.tmp = tempfile.mkdtemp(prefix='bsev_')
        return self.tmp

    def cleanup(self):
        if self.tmp and os.path.isdir(self.tmp):
            shutil.rmtree(self.tmp, ignore_errors=True)

    def n(self, quick, thorough):
        """budget helper"""
        v = thorough if self.thorough else quick
        return v * self.search_boost if self.search_boost > 1 and not self.thorough else v


# ------------------------------------------------------------------------------------------------
# the shipped store
# ------------------------------------------------------------------------------------------------
_store_cache = {}


def store_pairs():
    """all (index key, version) pairs of the shipped store, sorted"""
    if 'pairs' not in _store_cache:
        bse = import_bse()
        md = bse.get_metadata()
        _store_cache['pairs'] = sorted((k, v) for k, e in md.items() for v in e['versions'])
    return _store_cache['pairs']


def corpus_pairs(heavy=True):
    """store entries with an unusual feature that a past failure needed (corpus/store_corner_cases.json): always taken first"""
    f = os.path.join(VERIF, 'corpus', 'store_corner_cases.json')
    if not os.path.isfile(f):
        return []
    have = set(store_pairs())
    return [(e['name'], e['version']) for e in json.load(open(f))['entries'] if (e['name'], e['version']) in have and (heavy or not e.get('heavy'))]


def sample_pairs(ctx, k, pred=None, heavy=True):
    pairs = store_pairs()
    if pred:
        pairs = [p for p in pairs if pred(p)]
    if k >= len(pairs):
        return list(pairs)
    first = [p for p in corpus_pairs(heavy) if p in set(pairs)]
    rest = [p for p in pairs if p not in set(first)]
    return first + sorted(ctx.rng.sample(rest, min(len(rest), max(k // 2, k - len(first)))))


def get_basis_raw(name, version, **kw):
    bse = import_bse()
    return bse.get_basis(name, version=version, **kw)


def pmap(fn, items, nproc=None, chunksize=1):
    """parallel map with fork workers (the library is imported in the parent first)"""
    import multiprocessing as mp
    items = list(items)
    nproc = min(nproc or NPROC, max(1, len(items)))
    if nproc <= 1:
        return [fn(x) for x in items]
    ctxm = mp.get_context('fork')
    with ctxm.Pool(nproc) as pool:
        return pool.map(fn, items, chunksize)


def jdump(x):
    return json.dumps(x, sort_keys=True, default=str)
