"""Generator of synthetic data directories (component / element / table / metadata files + index),
for the properties that quantify over data directories (C01, C05, C09, C11, C15, C17)."""
import os, json, copy
import genbasis

SCHEMA = {'component': dict(schema_type='component', schema_version='0.1'), 'element': dict(schema_type='element', schema_version='0.1'),
          'table': dict(schema_type='table', schema_version='0.1'), 'metadata': dict(schema_type='metadata', schema_version='0.1')}


def component_from(rng, desc, zs, harm, kinds, refkeys):
    els = {}
    for z in zs:
        el = genbasis.gen_element(rng, harm, kind=rng.choice(kinds))
        el['references'] = list(rng.sample(refkeys, rng.randrange(0, min(3, len(refkeys)) + 1)))
        els[str(z)] = el
    return dict(molssi_bse_schema=dict(SCHEMA['component']), description=desc, data_source='generated', elements=els)


def gen_dir(rng, nbases=None, defect=None):
    """returns (files: path -> json, index: dict, info).  `defect` plants one inconsistency."""
    files = {}
    refkeys = ['ref%d' % i for i in range(6)]
    nbases = nbases or rng.randrange(1, 4)
    harm = rng.choice(['spherical', 'cartesian'])
    index = {}
    info = dict(bases=[], defect=defect, defect_at=None)
    # shared pool of components
    pool = []
    for ci in range(rng.randrange(2, 6)):
        zs = sorted(rng.sample(range(1, 40), rng.randrange(1, 6)))
        kinds = rng.choice([['plain'], ['plain', 'pople'], ['general'], ['ecponly'], ['plain', 'ecp']])
        p = 'fam%d/comp%d.0.json' % (ci % 2, ci)
        files[p] = component_from(rng, 'component %d description' % ci, zs, harm, kinds, refkeys)
        pool.append((p, zs, kinds))
    for bi in range(nbases):
        # file bases of which one is a proper prefix of another in the same sub-directory ('basis' / 'basis20' in fam0): the index
        # builder must tell their files apart by the full 'base.' prefix
        base = ['basis', 'basis2', 'basis20', 'basis1'][bi] if bi < 4 else 'basis%d' % bi
        if bi == 1 and rng.random() < 0.4:
            # the same file base as the first basis, in the other sub-directory (fam1/basis.* next to fam0/basis.*): the index builder
            # must go by directory and file base, not by file base alone
            base = 'basis'
        nm = rng.choice(['Gen-%d' % bi, 'gen/%d*' % bi, 'GEN %d (x)' % bi])
        fam = 'fam%d' % (bi % 2)
        versions = sorted(set(rng.sample(['0', '1', '2'], rng.randrange(1, 3))))
        entry_versions = {}
        for v in versions:
            # element file: each element gets 1..3 components that contain it (orbital ones + at most one ECP one)
            els = {}
            allz = sorted(set(z for _, zs, _ in pool for z in zs))
            chosen = sorted(rng.sample(allz, rng.randrange(1, min(6, len(allz)) + 1)))
            for z in chosen:
                cands = [(p, k) for p, zs, k in pool if z in zs]
                rng.shuffle(cands)
                comps = []
                have_ecp = False
                for p, k in cands[:rng.randrange(1, 4)]:
                    is_ecp = 'ecp_potentials' in files[p]['elements'][str(z)]
                    if is_ecp and have_ecp:
                        continue
                    have_ecp = have_ecp or is_ecp
                    comps.append(p)
                els[str(z)] = dict(components=comps)
            if rng.random() < 0.5:
                order = list(els)
                rng.shuffle(order)
                els = {z: els[z] for z in order}
            ep = '%s/%s.%s.element.json' % (fam, base, v)
            files[ep] = dict(molssi_bse_schema=dict(SCHEMA['element']), name=base, description='element file', elements=els)
            tp = '%s/%s.%s.table.json' % (fam, base, v)
            tels = {z: ep for z in els}
            if rng.random() < 0.5:
                order = list(tels)
                rng.shuffle(order)
                tels = {z: tels[z] for z in order}
            files[tp] = dict(molssi_bse_schema=dict(SCHEMA['table']), revision_description='revision %s of %s' % (v, base),
                             revision_date='2026-0%d-01' % (int(v) + 1), elements=tels)
            entry_versions[v] = dict(file_relpath=tp, revdesc='revision %s of %s' % (v, base), revdate='2026-0%d-01' % (int(v) + 1),
                                     elements=sorted(tels, key=int))
        mp = '%s/%s.metadata.json' % (fam, base)
        files[mp] = dict(molssi_bse_schema=dict(SCHEMA['metadata']), names=[nm], tags=[], family=fam, description='Description of ' + nm,
                         role='orbital', auxiliaries={})
        key = nm.lower().replace('/', '_sl_').replace('*', '_st_')
        index[key] = dict(display_name=nm, other_names=[], description='Description of ' + nm, latest_version=max(entry_versions),
                          tags=[], basename=base, relpath=fam, family=fam, role='orbital', function_types=[], auxiliaries={},
                          versions=entry_versions)
        info['bases'].append((key, sorted(entry_versions)))
    # auxiliaries: the first basis names one or two of the others (a name, or a list of names) for a fitting role
    if not defect and len(info['bases']) >= 2 and rng.random() < 0.6:
        k0 = info['bases'][0][0]
        others = [k for k, _ in info['bases'][1:]]
        role = rng.choice(['jkfit', 'rifit', 'admmfit'])
        aux = {role: others[0] if len(others) == 1 or rng.random() < 0.5 else list(others)}
        index[k0]['auxiliaries'] = aux
        files['%s/%s.metadata.json' % (index[k0]['relpath'], index[k0]['basename'])]['auxiliaries'] = aux
    # two elements whose components carry the same descriptions and, taken together, the same keys - split differently between the
    # components (41: [] + [k], 42: [k] + []): their reference groups differ although descriptions and flattened keys agree
    if not defect and rng.random() < 0.6 and info['bases']:
        key, vers = info['bases'][0]
        tp = index[key]['versions'][vers[0]]['file_relpath']
        ep = next(iter(files[tp]['elements'].values()))
        k = rng.choice(refkeys)
        for nm, r41, r42 in (('twinA', [], [k]), ('twinB', [k], [])):
            els = {}
            for z, r in (('41', r41), ('42', r42)):
                el = genbasis.gen_element(rng, harm, kind='plain')
                el['references'] = list(r)
                els[z] = el
            files['fam0/%s.0.json' % nm] = dict(molssi_bse_schema=dict(SCHEMA['component']), description='twin component ' + nm[-1], data_source='generated', elements=els)
        for z in ('41', '42'):
            files[ep]['elements'][z] = dict(components=['fam0/twinA.0.json', 'fam0/twinB.0.json'])
            files[tp]['elements'][z] = ep
        index[key]['versions'][vers[0]]['elements'] = sorted(files[tp]['elements'], key=int)
    # notes: of some basis sets and of the families, mentioning reference keys of every shape (plain text files next to the JSON files)
    allkeys = refkeys + ODD_KEYS
    basenames = [index[key]['basename'] for key, _ in info['bases']]
    for key, vers in info['bases']:
        # the library looks for `<data_dir>/<file base>.notes` (the store keeps everything in one directory)
        if rng.random() < 0.6 and basenames.count(index[key]['basename']) == 1:
            ks = rng.sample(allkeys, rng.randrange(0, 3))
            files['%s.notes' % index[key]['basename']] = 'Notes for %s\n\nsee %s and others.\n' % (index[key]['display_name'], ', '.join(ks))
    for fam in sorted(set(e['family'] for e in index.values())):
        if rng.random() < 0.6:
            ks = rng.sample(allkeys, rng.randrange(1, 4))
            files['NOTES.' + fam] = 'Family %s\n\nas described in %s\n' % (fam, ' '.join(ks))
    if defect:
        plant(rng, files, index, info, defect)
    return files, index, info


# reference keys that do not look like authorYEARletter (the store has such keys: dyallXXXXa, ccrepo, gaussian09e01)
ODD_KEYS = ['oddXXXXa', 'ccodd', 'program09e01']

DEFECTS = ['missing_element_in_component', 'two_ecps', 'missing_component_file', 'missing_metadata_file', 'table_element_not_in_element_file',
           'component_without_references', 'element_without_components']


def plant(rng, files, index, info, defect):
    key, vers = rng.choice(info['bases'])
    v = rng.choice(vers)
    tp = index[key]['versions'][v]['file_relpath']
    t = files[tp]
    z = rng.choice(list(t['elements']))
    ep = t['elements'][z]
    e = files[ep]
    info['defect_at'] = (key, v, z)
    if defect == 'missing_element_in_component':
        newz = str(max(int(x) for x in e['elements']) + 50)
        e['elements'][newz] = dict(components=list(e['elements'][z]['components']))
        t['elements'][newz] = ep
    elif defect == 'two_ecps':
        # two fresh ECP components for the element
        import random
        for i in range(2):
            p = 'fam0/ecpdup%d.0.json' % i
            pots, ne = genbasis.gen_ecp(rng)
            files[p] = dict(molssi_bse_schema=dict(SCHEMA['component']), description='ecp dup %d' % i, data_source='generated',
                            elements={z: dict(ecp_potentials=pots, ecp_electrons=ne, references=[])})
        e['elements'][z]['components'] = [c for c in e['elements'][z]['components'] if 'ecp_potentials' not in files[c]['elements'][z]] + \
            ['fam0/ecpdup0.0.json', 'fam0/ecpdup1.0.json']
    elif defect == 'missing_component_file':
        e['elements'][z]['components'].append('fam0/does-not-exist.0.json')
    elif defect == 'missing_metadata_file':
        mp = '%s/%s.metadata.json' % (index[key]['relpath'], index[key]['basename'])
        del files[mp]
    elif defect == 'table_element_not_in_element_file':
        newz = str(max(int(x) for x in t['elements']) + 60)
        t['elements'][newz] = ep
    elif defect == 'component_without_references':
        c = e['elements'][z]['components'][0]
        del files[c]['elements'][z]['references']
    elif defect == 'element_without_components':
        del e['elements'][z]['components']


def write_dir(path, files, index, references=None):
    for p, js in files.items():
        fp = os.path.join(path, p)
        os.makedirs(os.path.dirname(fp), exist_ok=True)
        with open(fp, 'w', encoding='utf-8') as fh:
            if isinstance(js, str):
                fh.write(js)          # a notes file
            else:
                json.dump(js, fh, indent=2, ensure_ascii=False)
    with open(os.path.join(path, 'METADATA.json'), 'w', encoding='utf-8') as fh:
        json.dump(index, fh, indent=2, ensure_ascii=False)
    refs = references if references is not None else default_references()
    with open(os.path.join(path, 'REFERENCES.json'), 'w', encoding='utf-8') as fh:
        json.dump(refs, fh, indent=2, ensure_ascii=False)


def default_references():
    refs = {'molssi_bse_schema': dict(schema_type='references', schema_version='0.1')}
    for i, odd in enumerate(ODD_KEYS):
        refs[odd] = dict(_entry_type='misc', authors=['Odd, K. %d' % i], title='Entry with the unusual key %s' % odd, year=str(2001 + i),
                         note='key shape %d' % i)
    for i in range(6):
        refs['ref%d' % i] = dict(_entry_type='article', authors=['Author %d, A.' % i, 'Other, B. C.'], title='Title of reference %d' % i,
                                 journal='J. Gen. Chem.', volume=str(10 + i), pages='%d-%d' % (100 * i, 100 * i + 9), year=str(1990 + i),
                                 doi='10.0000/gen.%d' % i)
    return refs
