"""Translator section: which characters the reader of every format prunes before it parses (`helpers.prune_lines(lines, '<chars>')`,
first call in the reader function registered in readers/read.py) — used by C14 (the header block must be invisible to the reader)."""
import ast
from translate import GenError, lstr


def gen_reader_prune(S, info):
    rm = S.assign('readers/read.py', '_reader_map')
    rimports = {}
    for n in S.tree('readers/read.py').body:
        if isinstance(n, ast.ImportFrom) and n.level == 1:
            for al in n.names:
                rimports[al.asname or al.name] = (n.module, al.name)
    rows = []
    for k, v in zip(rm.keys, rm.values):
        fmt = ast.literal_eval(k)
        d = {ast.literal_eval(kk): vv for kk, vv in zip(v.keys, v.values)}
        fn = ast.unparse(d['reader'])
        if fn not in rimports:
            raise GenError('reader function %s not imported in readers/read.py' % fn)
        mod, name = rimports[fn]
        f = S.func('readers/%s.py' % mod, name)
        skip = None
        calls = sorted((n for n in ast.walk(f) if isinstance(n, ast.Call) and ast.unparse(n.func).endswith('prune_lines')), key=lambda n: (n.lineno, n.col_offset))
        if calls:
            c = calls[0]
            arg = c.args[1] if len(c.args) > 1 else next((kw.value for kw in c.keywords if kw.arg == 'skipchars'), None)
            if arg is None:
                skip = ''
            else:
                try:
                    skip = ast.literal_eval(arg)
                except Exception:
                    raise GenError('readers/%s.py:%s: skipchars of prune_lines is not a literal' % (mod, name))
                # the pruned lines must be what the parser goes on with
            blank = next((kw.value for kw in c.keywords if kw.arg == 'prune_blank'), None)
            if blank is not None and ast.literal_eval(blank) is not True:
                skip = None
        rows.append((fmt, skip))
    info['reader_prune'] = len(rows)
    out = ['/-! generated from readers/read.py and the reader modules — do not edit -/', 'namespace BSE.Gen.ReaderPrune', '',
           '/-- (format, the characters whose lines the reader prunes first; `none`: it does not start with a blank-pruning `prune_lines`) -/',
           'def readerSkip : List (String × Option String) := [']
    out.append(',\n'.join('  (%s, %s)' % (lstr(f), 'none' if s is None else '(some %s)' % lstr(s)) for f, s in rows))
    out += [']', '', 'end BSE.Gen.ReaderPrune', '']
    return '\n'.join(out)


SECTIONS = [('ReaderPrune', gen_reader_prune)]
