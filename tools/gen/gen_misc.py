"""Translator section: which characters the reader of every format prunes before it parses (`helpers.prune_lines(lines, '<chars>')`,
first call in the reader function registered in readers/read.py) — used by C14 (the header block must be invisible to the reader)."""
import ast
from translate import GenError, lstr


def gen_reader_prune(S, info):
    rm = S.assign('readers/read.py', '_reader_map')
    rimports = {}
    for n in S.tree('readers/read.py').body:
        if isinstance(n, ast.ImportFrom) and n.level == 1:
            for al in n.names:
                rimports[al.asname or al.name] = (n.module, al.name)
    rows = []
    for k, v in zip(rm.keys, rm.values):
        fmt = ast.literal_eval(k)
        d = {ast.literal_eval(kk): vv for kk, vv in zip(v.keys, v.values)}
        fn = ast.unparse(d['reader'])
        if fn not in rimports:
            raise GenError('reader function %s not imported in readers/read.py' % fn)
        mod, name = rimports[fn]
        f = S.func('readers/%s.py' % mod, name)
        skip = None
        calls = sorted((n for n in ast.walk(f) if isinstance(n, ast.Call) and ast.unparse(n.func).endswith('prune_lines')), key=lambda n: (n.lineno, n.col_offset))
        if calls:
            c = calls[0]
            arg = c.args[1] if len(c.args) > 1 else next((kw.value for kw in c.keywords if kw.arg == 'skipchars'), None)
            if arg is None:
                skip = ''
            else:
                try:
                    skip = ast.literal_eval(arg)
                except Exception:
                    raise GenError('readers/%s.py:%s: skipchars of prune_lines is not a literal' % (mod, name))
                # the pruned lines must be what the parser goes on with
            blank = next((kw.value for kw in c.keywords if kw.arg == 'prune_blank'), None)
            if blank is not None and ast.literal_eval(blank) is not True:
                skip = None
        rows.append((fmt, skip))
    info['reader_prune'] = len(rows)
    out = ['/-! generated from readers/read.py and the reader modules — do not edit -/', 'namespace BSE.Gen.ReaderPrune', '',
           '/-- (format, the characters whose lines the reader prunes first; `none`: it does not start with a blank-pruning `prune_lines`) -/',
           'def readerSkip : List (String × Option String) := [']
    out.append(',\n'.join('  (%s, %s)' % (lstr(f), 'none' if s is None else '(some %s)' % lstr(s)) for f, s in rows))
    out += [']', '', 'end BSE.Gen.ReaderPrune', '']
    return '\n'.join(out)


def gen_memo_shape(S, info):
    """the shape of `BSEMemoize.__call__`: what is filed in the cache after a miss, what a hit returns, what a miss returns, and the two
    ways round the cache (memoisation disabled, arguments that do not bind).  Anything the patterns below do not recognise is `other`."""
    cls = next((n for n in S.tree('memo.py').body if isinstance(n, ast.ClassDef) and n.name == 'BSEMemoize'), None)
    if cls is None:
        raise GenError('memo.py: class BSEMemoize not found')
    call = next((n for n in cls.body if isinstance(n, ast.FunctionDef) and n.name == '__call__'), None)
    if call is None:
        raise GenError('memo.py: BSEMemoize.__call__ not found')
    body = [n for n in call.body if not (isinstance(n, ast.Expr) and isinstance(n.value, ast.Constant))]
    u = ast.unparse
    direct = 'self.__f(*args, **kwargs)'

    def is_ret(n, text):
        return isinstance(n, ast.Return) and n.value is not None and u(n.value) == text
    store, hit, miss, by_dis, by_key = 'other', 'other', 'other', False, False
    if len(body) == 7:
        a, b, c, d, e, f, g = body
        by_dis = isinstance(a, ast.If) and u(a.test) == 'not memoize_enabled' and len(a.body) == 1 and is_ret(a.body[0], direct) and not a.orelse
        keyed = isinstance(b, ast.Assign) and u(b.targets[0]) == 'arg_key' and u(b.value) == '_make_key(self.args_spec, *args, **kwargs)'
        by_key = isinstance(c, ast.If) and u(c.test) == 'arg_key is None' and len(c.body) == 1 and is_ret(c.body[0], direct) and not c.orelse
        if keyed and isinstance(d, ast.If) and u(d.test) == 'arg_key in self.__memo' and len(d.body) == 1 and not d.orelse and isinstance(d.body[0], ast.Return):
            hit = {'pickle.loads(self.__memo[arg_key])': 'unpickled', 'self.__memo[arg_key]': 'stored'}.get(u(d.body[0].value), 'other')
        computed = isinstance(e, ast.Assign) and u(e.targets[0]) == 'ret' and u(e.value) == direct
        if keyed and computed and isinstance(f, ast.Assign) and u(f.targets[0]) == 'self.__memo[arg_key]':
            store = {'pickle.dumps(ret)': 'pickled', 'ret': 'live'}.get(u(f.value), 'other')
        if computed and is_ret(g, 'ret'):
            miss = 'computed'
    info['memo_shape'] = dict(store=store, hit=hit, miss=miss)
    b2 = lambda x: 'true' if x else 'false'
    return '\n'.join(['import BSEModel.MemoHeap', '/-! generated from memo.py (BSEMemoize.__call__) — do not edit -/', 'namespace BSE.Gen.MemoShape', '',
                      'def callShape : BSE.MemoHeap.Shape := ⟨.%s, .%s, .%s, %s, %s⟩' % (store, hit, miss, b2(by_dis), b2(by_key)), '',
                      'end BSE.Gen.MemoShape', ''])


SECTIONS = [('MemoShape', gen_memo_shape), ('ReaderPrune', gen_reader_prune)]
