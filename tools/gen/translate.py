"""Tie A: regenerate lean/BSEGen/*.lean from the *current* source of basis_set_exchange.

Only declarative facts are extracted (tables, literals, signatures, defaults, call sites with their
literal arguments, dispatch maps).  Everything is read with `ast` from the files on disk — the
library is never imported here.  If something the model depends on can no longer be found the
translator raises GenError; the check treats that as a broken tie (DESIGN.md section 4)."""
import ast, os, json, re


class GenError(Exception):
    pass


# ------------------------------------------------------------------------------------------------
# Lean rendering
# ------------------------------------------------------------------------------------------------
def lstr(s):
    out = ['"']
    for ch in s:
        o = ord(ch)
        if ch == '"':
            out.append('\\"')
        elif ch == '\\':
            out.append('\\\\')
        elif ch == '\n':
            out.append('\\n')
        elif ch == '\t':
            out.append('\\t')
        elif o < 32 or o == 127:
            out.append('\\x%02x' % o)
        else:
            out.append(ch)
    out.append('"')
    return ''.join(out)


def lean(v):
    """render a Python literal as a Lean term"""
    if v is None:
        return 'none'
    if isinstance(v, bool):
        return 'true' if v else 'false'
    if isinstance(v, int):
        return str(v) if v >= 0 else '(%d)' % v
    if isinstance(v, str):
        return lstr(v)
    if isinstance(v, (list,)):
        return '[' + ', '.join(lean(x) for x in v) + ']'
    if isinstance(v, tuple):
        return '(' + ', '.join(lean(x) for x in v) + ')'
    raise GenError('cannot render %r' % (v,))


def lchars(t):
    """a Python string as a Lean `List Char` literal (the kernel evaluates these much faster than `String`)"""
    return '[' + ', '.join("'\\%s'" % c if c in "'\\" else ("'%s'" % c if 32 <= ord(c) < 127 else "'\\u{%x}'" % ord(c)) for c in t) + ']'


def opt(v):
    return 'none' if v is None else '(some %s)' % lean(v)


class Src:
    def __init__(self, repo):
        self.root = os.path.join(repo, 'basis_set_exchange')
        self.cache = {}

    def tree(self, rel):
        if rel not in self.cache:
            p = os.path.join(self.root, rel)
            if not os.path.isfile(p):
                raise GenError('source file missing: ' + rel)
            self.cache[rel] = ast.parse(open(p, encoding='utf-8').read())
        return self.cache[rel]

    def assign(self, rel, name):
        for n in ast.walk(self.tree(rel)):
            if isinstance(n, ast.Assign) and len(n.targets) == 1 and isinstance(n.targets[0], ast.Name) and n.targets[0].id == name:
                return n.value
        raise GenError('%s: assignment to %s not found' % (rel, name))

    def func(self, rel, name):
        for n in ast.walk(self.tree(rel)):
            if isinstance(n, ast.FunctionDef) and n.name == name:
                return n
        raise GenError('%s: function %s not found' % (rel, name))

    def funcs(self, rel):
        return [n for n in self.tree(rel).body if isinstance(n, ast.FunctionDef)]


def lit(node, what=''):
    try:
        return ast.literal_eval(node)
    except Exception:
        raise GenError('expected a literal for %s, found `%s`' % (what, ast.unparse(node)[:80]))


def lit_or_src(node):
    try:
        return ast.literal_eval(node)
    except Exception:
        return ast.unparse(node)


def signature(fn):
    a = fn.args
    if a.vararg or a.kwarg or a.kwonlyargs or a.posonlyargs:
        raise GenError('signature of %s uses */**/kw-only/pos-only parameters' % fn.name)
    return [x.arg for x in a.args], [lit_or_src(d) for d in a.defaults]


# ------------------------------------------------------------------------------------------------
# sections
# ------------------------------------------------------------------------------------------------
def gen_lut(S, info):
    tab = lit(S.assign('lut.py', '_data_table'), 'lut._data_table')
    for r in tab:
        if not (isinstance(r, tuple) and len(r) == 3 and isinstance(r[0], str) and isinstance(r[1], int) and isinstance(r[2], str)):
            raise GenError('lut._data_table row has unexpected shape: %r' % (r,))
    hik = lit(S.assign('lut.py', '_amchar_map_hik'))
    hij = lit(S.assign('lut.py', '_amchar_map_hij'))
    f = S.func('lut.py', 'electron_shells_start')
    aminfo = special = None
    for n in ast.walk(f):
        if isinstance(n, ast.Assign) and isinstance(n.targets[0], ast.Name):
            if n.targets[0].id == 'aminfo':
                aminfo = lit(n.value)
            if n.targets[0].id == 'special_am':
                special = lit(n.value)
    if aminfo is None or special is None:
        raise GenError('lut.electron_shells_start: aminfo/special_am literals not found')
    # which of the three maps keeps which row on a clash is decided by the dict comprehensions
    for nm, idx in (('_element_Z_map', 1), ('_element_sym_map', 0), ('_element_name_map', 2)):
        v = S.assign('lut.py', nm)
        if ast.unparse(v).replace(' ', '') != '{x[%d]:xforxin_data_table}' % idx:
            raise GenError('lut.%s is no longer {x[%d]: x for x in _data_table}' % (nm, idx))
    info['lut_rows'] = len(tab)
    out = ['/-! generated from basis_set_exchange/lut.py — do not edit -/', 'namespace BSE.Gen.Lut', '',
           '/-- `_data_table` rows (symbol, Z, name), in source order -/',
           'def dataTable : List (List Char × Nat × List Char) := [']
    out.append(',\n'.join('  (%s, %d, %s)' % (lchars(s), z, lchars(nm)) for s, z, nm in tab))
    out.append(']')
    out.append('def amcharHik : List Char := %s' % lchars(hik))
    out.append('def amcharHij : List Char := %s' % lchars(hij))
    out.append('def aminfo : List (Nat × Nat) := %s' % lean([tuple(x) for x in aminfo]))
    out.append('def specialAm : List (Nat × List Nat) := %s' % lean(sorted((k, v) for k, v in special.items())))
    out += ['', 'end BSE.Gen.Lut', '']
    return '\n'.join(out)


def manip_calls(fn, mods=('manip', 'sort')):
    """ordered manip.* / sort.* calls in a function body with literal arguments"""
    calls = []
    for n in ast.walk(fn):
        if isinstance(n, ast.Call) and isinstance(n.func, ast.Attribute) and isinstance(n.func.value, ast.Name) \
                and n.func.value.id in mods:
            calls.append((n.lineno, n.col_offset, n.func.value.id + '.' + n.func.attr,
                          [lit_or_src(x) for x in n.args], {k.arg: lit_or_src(k.value) for k in n.keywords}))
    calls.sort()
    return [(c[2], c[3], c[4]) for c in calls]


# parameter names of the manip / sort functions the pipelines call (read from the source)
def param_table(S):
    tab = {}
    for rel, mod in (('manip.py', 'manip'), ('sort.py', 'sort')):
        for fn in S.funcs(rel):
            names, defaults = signature(fn) if not (fn.args.vararg or fn.args.kwarg) else ([], [])
            tab[mod + '.' + fn.name] = (names, defaults)
    return tab


def bind(ptab, name, args, kw):
    """bind a call's literal arguments to parameter names -> dict"""
    if name not in ptab:
        raise GenError('call to unknown function ' + name)
    names, defaults = ptab[name]
    b = {}
    nd = len(defaults)
    for i, p in enumerate(names):
        if i >= len(names) - nd:
            b[p] = defaults[i - (len(names) - nd)]
    for p, v in zip(names, args):
        b[p] = v
    for k, v in kw.items():
        b[k] = v
    return b


STEP_CTORS = {
    'manip.uncontract_general': ('uncontractGeneral', []),
    'manip.uncontract_spdf': ('uncontractSpdf', ['max_am']),
    'manip.uncontract_segmented': ('uncontractSegmented', []),
    'manip.make_general': ('makeGeneral', ['skip_spdf']),
    'manip.optimize_general': ('optimizeGeneral', []),
    'manip.prune_basis': ('pruneBasis', []),
    'manip.remove_free_primitives': ('removeFree', []),
    'sort.sort_basis': ('sortBasis', []),
}


def step_term(ptab, call):
    name, args, kw = call
    if name not in STEP_CTORS:
        return None
    ctor, ps = STEP_CTORS[name]
    b = bind(ptab, name, args, kw)
    vals = []
    for p in ps:
        v = b.get(p)
        if not isinstance(v, (bool, int)):
            raise GenError('%s: argument %s is not a literal (%r)' % (name, p, v))
        vals.append(lean(v))
    uc = b.get('use_copy')
    if not isinstance(uc, bool):
        raise GenError('%s: use_copy is not a literal bool (%r)' % (name, uc))
    return '⟨.%s%s, %s⟩' % (ctor, ''.join(' ' + v for v in vals), lean(uc))


def gen_writers(S, info):
    ptab = param_table(S)
    wm = S.assign('writers/write.py', '_writer_map')
    if not isinstance(wm, ast.Dict):
        raise GenError('_writer_map is not a dict literal')
    # which module does each write_* function come from
    imports = {}
    for n in S.tree('writers/write.py').body:
        if isinstance(n, ast.ImportFrom) and n.level == 1:
            for al in n.names:
                imports[al.asname or al.name] = n.module
    rows = []
    pipes = []
    for k, v in zip(wm.keys, wm.values):
        fmt = lit(k)
        d = {lit(kk): vv for kk, vv in zip(v.keys, v.values)}
        for need in ('display', 'extension', 'comment', 'valid', 'function'):
            if need not in d:
                raise GenError('_writer_map[%s] lacks %s' % (fmt, need))
        comment = lit(d['comment'])
        vn = d['valid']
        if isinstance(vn, ast.Call) and ast.unparse(vn.func) == 'set' and len(vn.args) == 1:
            vn = vn.args[0]
        valid = lit(vn, '_writer_map[%s].valid' % fmt)
        valid = None if valid is None else sorted(valid)
        ext = lit(d['extension'])
        fname = ast.unparse(d['function'])
        rows.append((fmt, comment, valid, ext, fname))
        mod = imports.get(fname)
        if mod is None:
            raise GenError('writer function %s is not imported in writers/write.py' % fname)
        fn = S.func('writers/%s.py' % mod, fname)
        calls = manip_calls(fn)
        # helper writers (g94lib -> write_g94 etc.) : follow one level of local calls
        if not calls:
            for n in ast.walk(fn):
                if isinstance(n, ast.Call) and isinstance(n.func, ast.Name) and n.func.id.startswith(('write_', '_write_')):
                    try:
                        calls = manip_calls(S.func('writers/%s.py' % mod, n.func.id))
                    except GenError:
                        pass
                    if calls:
                        break
        steps = []
        for c in calls:
            t = step_term(ptab, c)
            if t is None:
                raise GenError('writer %s calls %s, which the model does not know' % (fname, c[0]))
            steps.append(t)
        pipes.append((fmt, fname, steps))
    info['writers'] = len(rows)
    out = ['import BSEModel.Pipeline', '/-! generated from basis_set_exchange/writers/*.py — do not edit -/', 'namespace BSE.Gen.Writers', 'open BSE', '',
           '/-- `_writer_map`: (format, comment marker, valid function types (sorted; none = anything), extension) -/',
           'def writerMap : List (String × Option String × Option (List String) × String) := [']
    out.append(',\n'.join('  (%s, %s, %s, %s)' % (lstr(f), opt(c), opt(v), lstr(e)) for f, c, v, e, _ in rows))
    out.append(']')
    out.append('')
    out.append('/-- per format: the ordered normalisation calls of its writer, with their `use_copy` literal -/')
    out.append('def pipelines : List (String × List PStep) := [')
    out.append(',\n'.join('  (%s, [%s])' % (lstr(f), ', '.join(st)) for f, _, st in pipes))
    out.append(']')
    # the header assembly of write_formatted_basis_str: formats treated specially and the separator
    wf = S.func('writers/write.py', 'write_formatted_basis_str')
    special = []
    for n in ast.walk(wf):
        if isinstance(n, ast.Compare) and ast.unparse(n.left) == 'fmt' and len(n.ops) == 1 and isinstance(n.ops[0], ast.Eq):
            special.append((n.lineno, lit(n.comparators[0], 'fmt == ...')))
    special = [x for _, x in sorted(special)]
    joins = [ast.unparse(n) for n in ast.walk(wf) if isinstance(n, ast.Assign) and ast.unparse(n.targets[0]) == 'header_str']
    if len(joins) != 1:
        raise GenError('write_formatted_basis_str: header_str assignment not found uniquely')
    out.append('')
    out.append('/-- formats with a special case in the header assembly, in source order -/')
    out.append('def fmtSpecial : List String := %s' % lean(special))
    out.append('/-- source text of the comment prefixing -/')
    out.append('def headerPrefixing : String := %s' % lstr(joins[0]))
    out += ['', 'end BSE.Gen.Writers', '']
    return '\n'.join(out)


def gen_api(S, info):
    ptab = param_table(S)
    fn = S.func('api.py', 'get_basis')
    names, defaults = signature(fn)
    info['get_basis_params'] = len(names)
    # the option blocks of get_basis: `if <flag>:` (or elif) followed by `basis_dict = manip.X(basis_dict, ...)`
    blocks = []

    def walk_if(node, is_elif):
        cond = ast.unparse(node.test)
        calls = manip_calls(ast.Module(body=node.body, type_ignores=[]))
        sets_prune = any(isinstance(s, ast.Assign) and ast.unparse(s.targets[0]) == 'needs_pruning' and ast.unparse(s.value) == 'True'
                         for s in node.body)
        if calls and all(c[0] in STEP_CTORS or c[0] in ('manip.geometric_augmentation', 'manip.autoaux_basis', 'manip.autoabs_basis') for c in calls):
            blocks.append((cond, is_elif, calls, sets_prune))
        if len(node.orelse) == 1 and isinstance(node.orelse[0], ast.If):
            walk_if(node.orelse[0], True)

    for st in fn.body:
        if isinstance(st, ast.If):
            walk_if(st, False)
    if not blocks:
        raise GenError('get_basis: no option blocks found')
    out = ['import BSEModel.Pipeline', '/-! generated from basis_set_exchange/api.py — do not edit -/', 'namespace BSE.Gen.Api', 'open BSE', '',
           'def getBasisParams : List String := %s' % lean(names),
           '/-- defaults of the trailing parameters, rendered as source text -/',
           'def getBasisDefaults : List String := %s' % lean([repr(d) for d in defaults]), '']
    terms = []
    for cond, is_elif, calls, sp in blocks:
        steps = []
        for c in calls:
            if c[0] in STEP_CTORS:
                steps.append(step_term(ptab, c))
            elif c[0] == 'manip.geometric_augmentation':
                b = bind(ptab, c[0], c[1], c[2])
                if not isinstance(b.get('steep'), bool) or not isinstance(b.get('use_copy'), bool) or not isinstance(b.get('as_component'), bool):
                    raise GenError('get_basis: geometric_augmentation call has non-literal flags')
                steps.append('⟨.augment %s %s, %s⟩' % (lean(b['steep']), lean(b['as_component']), lean(b['use_copy'])))
            else:
                steps.append('⟨.aux %s, true⟩' % lstr(c[0].split('.')[1]))
        terms.append('  { cond := %s, isElif := %s, steps := [%s], setsPrune := %s }' % (lstr(cond), lean(is_elif), ', '.join(steps), lean(sp)))
    out.append('/-- the option blocks of `get_basis`, in source order -/')
    out.append('def optionBlocks : List OptBlock := [')
    out.append(',\n'.join(terms))
    out.append(']')
    out += ['', 'end BSE.Gen.Api', '']
    return '\n'.join(out)


def gen_memo(S, info):
    sigs = []
    for rel in ('api.py', 'compose.py', 'references.py', 'notes.py', 'fileio.py', 'bundle.py', 'misc.py', 'manip.py'):
        try:
            t = S.tree(rel)
        except GenError:
            continue
        for n in ast.walk(t):
            if isinstance(n, ast.FunctionDef) and any('BSEMemoize' in ast.unparse(d) for d in n.decorator_list):
                names, defaults = signature(n)
                sigs.append((rel[:-3] + '.' + n.name, names, [repr(d) for d in defaults]))
    if not sigs:
        raise GenError('no @memo.BSEMemoize sites found')
    info['memo_sites'] = len(sigs)
    out = ['/-! generated from the @memo.BSEMemoize sites — do not edit -/', 'namespace BSE.Gen.Memo', '',
           '/-- (function, parameter names, source text of the trailing defaults) -/',
           'def signatures : List (String × List String × List String) := [']
    out.append(',\n'.join('  (%s, %s, %s)' % (lstr(f), lean(a), lean(d)) for f, a, d in sigs))
    out.append(']')
    out += ['', 'end BSE.Gen.Memo', '']
    return '\n'.join(out)


def find_str_consts(fn):
    return [n.value for n in ast.walk(fn) if isinstance(n, ast.Constant) and isinstance(n.value, str)]


def gen_manip(S, info):
    ptab = param_table(S)
    out = ['import BSEModel.Pipeline', '/-! generated from basis_set_exchange/manip.py — do not edit -/', 'namespace BSE.Gen.Manip', 'open BSE', '']
    # make_general: zero literal + inner calls
    mg = S.func('manip.py', 'make_general')
    zero = None
    for n in ast.walk(mg):
        if isinstance(n, ast.Assign) and ast.unparse(n.targets[0]) == 'zero':
            zero = lit(n.value, 'make_general zero')
    if zero is None:
        raise GenError('make_general: `zero = <literal>` not found')
    out.append('def mgZero : String := %s' % lstr(zero))

    def inner(fname):
        fn = S.func('manip.py', fname)
        res = []
        for n in ast.walk(fn):
            if isinstance(n, ast.Call) and isinstance(n.func, ast.Name) and ('manip.' + n.func.id) in STEP_CTORS:
                res.append((n.lineno, 'manip.' + n.func.id, [lit_or_src(x) for x in n.args], {k.arg: lit_or_src(k.value) for k in n.keywords}))
        res.sort()
        return [step_term(ptab, (c[1], c[2], c[3])) for c in res]

    for fname, lname in (('make_general', 'makeGeneralCalls'), ('optimize_general', 'optimizeGeneralCalls'),
                         ('uncontract_general', 'uncontractGeneralCalls'), ('remove_free_primitives', 'removeFreeCalls'),
                         ('geometric_augmentation', 'augmentCalls'), ('uncontract_segmented', 'uncontractSegmentedCalls')):
        out.append('/-- calls to other manipulation functions inside `%s`, in order -/' % fname)
        out.append('def %s : List PStep := [%s]' % (lname, ', '.join(inner(fname))))
    # optimize_general zero literal
    og = S.func('manip.py', 'optimize_general')
    zs = [n for n in ast.walk(og) if isinstance(n, ast.Assign) and isinstance(n.targets[0], ast.Subscript)
          and ast.unparse(n.targets[0]) == 'col[row_idx]']
    if len(zs) != 1:
        raise GenError('optimize_general: the zeroing assignment col[row_idx] = <literal> not found')
    out.append('def ogZero : String := %s' % lstr(lit(zs[0].value, 'optimize_general zero')))
    # uncontract_segmented unit literal
    us = S.func('manip.py', 'uncontract_segmented')
    units = [s for s in find_str_consts(us) if re.match(r'^\s*[-+]?\d', s) and '\n' not in s]
    if len(units) != 1:
        raise GenError('uncontract_segmented: unit coefficient literal not found uniquely (%r)' % units)
    out.append('def usegOne : String := %s' % lstr(units[0]))
    # geometric_augmentation: unit literal + format
    ga = S.func('manip.py', 'geometric_augmentation')
    consts = find_str_consts(ga)
    gunits = [s for s in consts if re.match(r'^\d+\.\d+$', s)]
    gfmt = [s for s in consts if re.match(r'^\{:[^}]*\}$', s)]
    if len(gunits) != 1 or len(gfmt) != 1:
        raise GenError('geometric_augmentation: unit literal / format literal not found uniquely (%r, %r)' % (gunits, gfmt))
    out.append('def augOne : String := %s' % lstr(gunits[0]))
    out.append('def augFormat : String := %s' % lstr(gfmt[0]))
    # truhlar months
    tc = S.func('manip.py', 'truhlar_calendarize')
    months = None
    for n in ast.walk(tc):
        if isinstance(n, (ast.List, ast.Tuple)) and len(n.elts) >= 6 and all(isinstance(e, ast.Constant) and isinstance(e.value, str) for e in n.elts):
            months = [e.value for e in n.elts]
            break
    if months is None:
        for n in ast.walk(tc):
            if isinstance(n, ast.Dict) and len(n.keys) >= 6:
                try:
                    d = lit(n)
                    months = [k for k, _ in sorted(d.items(), key=lambda kv: kv[1])]
                    out.append('def monthOffsets : List (String × Int) := %s' % lean(sorted(((k, v) for k, v in d.items()), key=lambda kv: kv[1])))
                except Exception:
                    pass
                break
    if months is None:
        raise GenError('truhlar_calendarize: month table not found')
    out.append('def months : List String := %s' % lean(months))
    # AutoAux / AutoABS constants
    def thresholds(fn, var):
        out = []
        for n in ast.walk(fn):
            if isinstance(n, ast.If) and isinstance(n.test, ast.Compare) and ast.unparse(n.test.left) == 'Z' and len(n.test.ops) == 1 \
                    and isinstance(n.test.ops[0], ast.Gt) and len(n.body) == 1 and isinstance(n.body[0], ast.Assign) \
                    and ast.unparse(n.body[0].targets[0]) == var:
                out.append((lit(n.test.comparators[0]), lit(n.body[0].value)))
        return sorted(out)

    def decimal_rat(x):
        from fractions import Fraction
        f = Fraction(repr(x)) if not isinstance(x, int) else Fraction(x)
        return '(%d / %d : Rat)' % (f.numerator, f.denominator)

    def float_list(fn, name):
        for n in ast.walk(fn):
            if isinstance(n, ast.Assign) and ast.unparse(n.targets[0]) == name:
                v = lit(n.value, name)
                return v
        raise GenError('%s: %s not found' % (fn.name, name))
    aa = S.func('manip.py', 'autoaux_basis')
    ab = S.func('manip.py', 'autoabs_basis')
    out.append('/-- AutoAux: (Z threshold, lval) and (Z threshold, linc): `if Z > t: var = v` in source order -/')
    out.append('def autoauxLval : List (Nat × Nat) := %s' % lean(thresholds(aa, 'lval')))
    out.append('def autoauxLinc : List (Nat × Nat) := %s' % lean(thresholds(aa, 'linc')))
    out.append('def autoabsLval : List (Nat × Nat) := %s' % lean(thresholds(ab, 'lval')))
    out.append('def flaux : List Rat := [%s]' % ', '.join(decimal_rat(x) for x in float_list(aa, 'flaux')))
    out.append('def blauxBig : List Rat := [%s]' % ', '.join(decimal_rat(x) for x in float_list(aa, 'blaux_big')))
    out.append('def bSmall : Rat := %s' % decimal_rat(float_list(aa, 'b_small')))
    lm = [n for n in ast.walk(aa) if isinstance(n, ast.Assign) and ast.unparse(n.targets[0]) == 'lmax_aux']
    lm2 = [n for n in ast.walk(ab) if isinstance(n, ast.Assign) and ast.unparse(n.targets[0]) == 'lmax_aux']
    if len(lm) != 1 or len(lm2) != 1:
        raise GenError('lmax_aux assignment not found uniquely')
    out.append('def autoauxLmaxExpr : String := %s' % lstr(ast.unparse(lm[0].value)))
    out.append('def autoabsLmaxExpr : String := %s' % lstr(ast.unparse(lm2[0].value)))
    abn, abd = signature(ab)
    out.append('def autoabsDefaults : List (String × String) := %s' % lean(list(zip(abn[len(abn) - len(abd):], [repr(x) for x in abd]))))
    info['manip_literals'] = dict(mgZero=zero, usegOne=units[0], augOne=gunits[0], augFormat=gfmt[0])
    out += ['', 'end BSE.Gen.Manip', '']
    return '\n'.join(out)


def gen_index(S, info):
    p = os.path.join(S.root, 'data', 'METADATA.json')
    if not os.path.isfile(p):
        raise GenError('data/METADATA.json missing')
    md = json.load(open(p, encoding='utf-8'))
    keys = list(md.keys())
    info['index_entries'] = len(keys)
    chars = lchars
    out = ['/-! generated from basis_set_exchange/data/METADATA.json — do not edit -/', 'namespace BSE.Gen.Index', '',
           '/-- index keys, in file order, as character lists (the kernel evaluates those quickly) -/', 'def keys : List (List Char) := [']
    out.append(',\n'.join('  ' + chars(k) for k in keys))
    out.append(']')
    out.append('/-- display names, same order -/')
    out.append('def displayNames : List (List Char) := [')
    out.append(',\n'.join('  ' + chars(md[k]['display_name']) for k in keys))
    out.append(']')
    out += ['', 'end BSE.Gen.Index', '']
    return '\n'.join(out)


def gen_formats(S, info):
    """reader map, shared extensions, and the angular-momentum letter convention each writer / reader module uses"""
    rm = S.assign('readers/read.py', '_reader_map')
    if not isinstance(rm, ast.Dict):
        raise GenError('_reader_map is not a dict literal')
    rimports = {}
    for n in S.tree('readers/read.py').body:
        if isinstance(n, ast.ImportFrom) and n.level == 1:
            for al in n.names:
                rimports[al.asname or al.name] = n.module
    wimports = {}
    for n in S.tree('writers/write.py').body:
        if isinstance(n, ast.ImportFrom) and n.level == 1:
            for al in n.names:
                wimports[al.asname or al.name] = n.module

    def hij_calls(rel, fname):
        try:
            t = S.tree(rel)
        except GenError:
            return []
        res = []
        for n in ast.walk(t):
            if isinstance(n, ast.Call) and ast.unparse(n.func) == 'lut.' + fname:
                h = False
                for k in n.keywords:
                    if k.arg == 'hij':
                        h = lit(k.value, 'hij=')
                if len(n.args) > 1:
                    h = lit(n.args[1], 'hij positional')
                res.append((n.lineno, bool(h)))
        return [h for _, h in sorted(res)]
    readers = []
    for k, v in zip(rm.keys, rm.values):
        fmt = lit(k)
        d = {lit(kk): vv for kk, vv in zip(v.keys, v.values)}
        fn = ast.unparse(d['reader'])
        mod = rimports.get(fn)
        if mod is None:
            raise GenError('reader function %s not imported in readers/read.py' % fn)
        readers.append((fmt, lit(d['extension']), hij_calls('readers/%s.py' % mod, 'amchar_to_int')))
    wm = S.assign('writers/write.py', '_writer_map')
    writers = []
    for k, v in zip(wm.keys, wm.values):
        fmt = lit(k)
        d = {lit(kk): vv for kk, vv in zip(v.keys, v.values)}
        mod = wimports.get(ast.unparse(d['function']))
        writers.append((fmt, lit(d['extension']), hij_calls('writers/%s.py' % mod, 'amint_to_char')))
    info['reader_formats'] = len(readers)
    out = ['/-! generated from readers/read.py, writers/write.py and the reader / writer modules — do not edit -/', 'namespace BSE.Gen.Formats', '',
           '/-- (format, extension, `hij` argument of every `lut.amchar_to_int` call of the reader module, in source order) -/',
           'def readers : List (String × String × List Bool) := [']
    out.append(',\n'.join('  (%s, %s, %s)' % (lstr(f), lstr(e), lean(h)) for f, e, h in readers))
    out.append(']')
    out.append('/-- (format, extension, `hij` argument of every `lut.amint_to_char` call of the writer module, in source order) -/')
    out.append('def writers : List (String × String × List Bool) := [')
    out.append(',\n'.join('  (%s, %s, %s)' % (lstr(f), lstr(e), lean(h)) for f, e, h in writers))
    out.append(']')
    out += ['', 'end BSE.Gen.Formats', '']
    return '\n'.join(out)


SECTIONS = [('Lut', gen_lut), ('Formats', gen_formats), ('Index', gen_index), ('Writers', gen_writers), ('Api', gen_api), ('Memo', gen_memo), ('Manip', gen_manip)]


def run(repo, outdir):
    from importlib import import_module
    S = Src(repo)
    info = {}
    os.makedirs(outdir, exist_ok=True)
    sections = list(SECTIONS)
    # further sections live in their own modules (added as the framework grew)
    for extra in ('gen_cli', 'gen_misc', 'gen_own', 'gen_heap'):
        try:
            m = import_module(extra)
        except ImportError:
            continue
        sections += m.SECTIONS
    changed = []
    for name, fn in sections:
        txt = fn(S, info)
        p = os.path.join(outdir, name + '.lean')
        old = open(p).read() if os.path.isfile(p) else None
        if old != txt:
            with open(p, 'w') as fh:
                fh.write(txt)
            changed.append(name)
    root = ''.join('import BSEGen.%s\n' % n for n, _ in sections)
    rp = os.path.join(os.path.dirname(outdir), 'BSEGen.lean')
    if not os.path.isfile(rp) or open(rp).read() != root:
        open(rp, 'w').write(root)
    info['changed'] = changed
    info['sections'] = [n for n, _ in sections]
    return info


if __name__ == '__main__':
    import sys
    here = os.path.dirname(os.path.abspath(__file__))
    print(json.dumps(run(sys.argv[1] if len(sys.argv) > 1 else '/repo', os.path.join(here, '..', '..', 'lean', 'BSEGen')), indent=1))
