"""Translator section: the command-line wiring (argparse tables, handler map, keyword wiring of the
API calls inside the handlers).  Picked up by translate.run()."""
import ast
from translate import GenError, lstr, lean, lit_or_src, opt


def dest_of(flags, kw):
    if 'dest' in kw:
        return kw['dest']
    longs = [f for f in flags if f.startswith('--')]
    if longs:
        return longs[0][2:].replace('-', '_')
    shorts = [f for f in flags if f.startswith('-')]
    if shorts and not [f for f in flags if not f.startswith('-')]:
        return shorts[0][1:]
    return flags[0]


def gen_cli(S, info):
    fn = S.func('cli/bse_cli.py', 'run_bse_cli')
    subs = {}
    order = []
    glob = []
    cur = None
    # walk statements in source order
    calls = []
    for n in ast.walk(fn):
        if isinstance(n, ast.Call) and isinstance(n.func, ast.Attribute) and n.func.attr in ('add_parser', 'add_argument'):
            calls.append(n)
    calls.sort(key=lambda n: (n.lineno, n.col_offset))
    for n in calls:
        if n.func.attr == 'add_parser':
            cur = lit_or_src(n.args[0])
            subs[cur] = []
            order.append(cur)
        else:
            tgt = ast.unparse(n.func.value)
            flags = [lit_or_src(a) for a in n.args]
            kw = {k.arg: lit_or_src(k.value) for k in n.keywords if k.arg not in ('help', 'metavar')}
            if any(not isinstance(f, str) for f in flags):
                raise GenError('add_argument with a non-literal flag: %s' % ast.unparse(n)[:80])
            rec = (dest_of(flags, kw), not flags[0].startswith('-'), str(kw.get('action', 'store')), str(kw.get('type', '')), repr(kw['default']) if 'default' in kw else '')
            if tgt == 'parser':
                if kw.get('action') == 'version':
                    continue
                glob.append(rec)
            elif tgt == 'subp':
                if cur is None:
                    raise GenError('add_argument on subp before any add_parser')
                subs[cur].append(rec)
            else:
                raise GenError('add_argument on unknown parser object ' + tgt)
    if not order:
        raise GenError('run_bse_cli: no sub-commands found')
    # handler map
    hm = None
    hf = S.func('cli/bse_handlers.py', 'bse_cli_handle_subcmd')
    for n in ast.walk(hf):
        if isinstance(n, ast.Assign) and ast.unparse(n.targets[0]) == 'handler_map' and isinstance(n.value, ast.Dict):
            hm = [(lit_or_src(k), ast.unparse(v)) for k, v in zip(n.value.keys, n.value.values)]
    if hm is None:
        raise GenError('handler_map not found')
    # per handler: args.<x> reads and the wiring of the api call
    reads = {}
    wiring = {}
    for f in S.funcs('cli/bse_handlers.py'):
        if not f.name.startswith('_bse_cli_'):
            continue
        reads[f.name] = sorted(set(n.attr for n in ast.walk(f) if isinstance(n, ast.Attribute) and isinstance(n.value, ast.Name) and n.value.id == 'args'))
        for n in ast.walk(f):
            if isinstance(n, ast.Call) and ast.unparse(n.func) in ('api.get_basis', 'api.get_references'):
                if n.args:
                    raise GenError('%s passes positional arguments to %s' % (f.name, ast.unparse(n.func)))
                wiring[ast.unparse(n.func)] = [(k.arg, ast.unparse(k.value)) for k in n.keywords]
    if 'api.get_basis' not in wiring or 'api.get_references' not in wiring:
        raise GenError('handlers no longer call api.get_basis / api.get_references with keywords')
    # the normaliser: which args attributes cli_check_normalize_args rewrites
    ck = S.func('cli/check.py', 'cli_check_normalize_args')
    norm = []
    for n in ast.walk(ck):
        if isinstance(n, ast.Assign) and isinstance(n.targets[0], ast.Attribute) and ast.unparse(n.targets[0].value) in ('args', 'args_copy'):
            norm.append((n.lineno, n.targets[0].attr, ast.unparse(n.value)))
    norm = [(a, b) for _, a, b in sorted(norm)]
    gr = S.func('api.py', 'get_references')
    from translate import signature
    rnames, rdefaults = signature(gr)
    info['cli_subcommands'] = len(order)
    out = ['/-! generated from cli/bse_cli.py, cli/bse_handlers.py, cli/check.py — do not edit -/', 'namespace BSE.Gen.Cli', '',
           '/-- per sub-command: (dest, positional, action, type, default as source text; "" = none given) -/',
           'def subcommands : List (String × List (String × Bool × String × String × String)) := [']
    out.append(',\n'.join('  (%s, [%s])' % (lstr(s), ', '.join('(%s, %s, %s, %s, %s)' % (lstr(d), lean(p), lstr(a), lstr(t), lstr(df)) for d, p, a, t, df in subs[s])) for s in order))
    out.append(']')
    out.append('def globalArgs : List (String × Bool × String × String × String) := [%s]' %
               ', '.join('(%s, %s, %s, %s, %s)' % (lstr(d), lean(p), lstr(a), lstr(t), lstr(df)) for d, p, a, t, df in glob))
    out.append('def handlerMap : List (String × String) := %s' % lean(hm))
    out.append('/-- `args.<x>` attributes each handler reads -/')
    out.append('def handlerReads : List (String × List String) := %s' % lean(sorted(reads.items())))
    out.append('/-- keyword wiring of the API calls: (parameter, source text of the value) -/')
    out.append('def getBasisWiring : List (String × String) := %s' % lean(wiring['api.get_basis']))
    out.append('def getRefsWiring : List (String × String) := %s' % lean(wiring['api.get_references']))
    out.append('def getRefsParams : List String := %s' % lean(rnames))
    out.append('def getRefsDefaults : List String := %s' % lean([repr(d) for d in rdefaults]))
    out.append('/-- attributes rewritten by cli_check_normalize_args: (attribute, source text) -/')
    out.append('def normalisers : List (String × String) := %s' % lean(norm))
    out += ['', 'end BSE.Gen.Cli', '']
    return '\n'.join(out)


SECTIONS = [('Cli', gen_cli)]
