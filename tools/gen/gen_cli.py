"""Translator section: the command-line wiring (argparse tables, handler map, keyword wiring of the
API calls inside the handlers).  Picked up by translate.run()."""
import ast
from translate import GenError, lstr, lean, lit_or_src, opt, signature


def dest_of(flags, kw):
    if 'dest' in kw:
        return kw['dest']
    longs = [f for f in flags if f.startswith('--')]
    if longs:
        return longs[0][2:].replace('-', '_')
    shorts = [f for f in flags if f.startswith('-')]
    if shorts and not [f for f in flags if not f.startswith('-')]:
        return shorts[0][1:]
    return flags[0]


def gen_cli(S, info):
    fn = S.func('cli/bse_cli.py', 'run_bse_cli')
    subs = {}
    order = []
    glob = []
    cur = None
    # walk statements in source order
    calls = []
    for n in ast.walk(fn):
        if isinstance(n, ast.Call) and isinstance(n.func, ast.Attribute) and n.func.attr in ('add_parser', 'add_argument'):
            calls.append(n)
    calls.sort(key=lambda n: (n.lineno, n.col_offset))
    for n in calls:
        if n.func.attr == 'add_parser':
            cur = lit_or_src(n.args[0])
            subs[cur] = []
            order.append(cur)
        else:
            tgt = ast.unparse(n.func.value)
            flags = [lit_or_src(a) for a in n.args]
            kw = {k.arg: lit_or_src(k.value) for k in n.keywords if k.arg not in ('help', 'metavar')}
            if any(not isinstance(f, str) for f in flags):
                raise GenError('add_argument with a non-literal flag: %s' % ast.unparse(n)[:80])
            rec = (dest_of(flags, kw), not flags[0].startswith('-'), str(kw.get('action', 'store')), str(kw.get('type', '')), repr(kw['default']) if 'default' in kw else '')
            if tgt == 'parser':
                if kw.get('action') == 'version':
                    continue
                glob.append(rec)
            elif tgt == 'subp':
                if cur is None:
                    raise GenError('add_argument on subp before any add_parser')
                subs[cur].append(rec)
            else:
                raise GenError('add_argument on unknown parser object ' + tgt)
    if not order:
        raise GenError('run_bse_cli: no sub-commands found')
    # handler map
    hm = None
    hf = S.func('cli/bse_handlers.py', 'bse_cli_handle_subcmd')
    for n in ast.walk(hf):
        if isinstance(n, ast.Assign) and ast.unparse(n.targets[0]) == 'handler_map' and isinstance(n.value, ast.Dict):
            hm = [(lit_or_src(k), ast.unparse(v)) for k, v in zip(n.value.keys, n.value.values)]
    if hm is None:
        raise GenError('handler_map not found')
    # per handler: args.<x> reads and the wiring of the api call
    reads = {}
    wiring = {}
    for f in S.funcs('cli/bse_handlers.py'):
        if not f.name.startswith('_bse_cli_'):
            continue
        reads[f.name] = sorted(set(n.attr for n in ast.walk(f) if isinstance(n, ast.Attribute) and isinstance(n.value, ast.Name) and n.value.id == 'args'))
        for n in ast.walk(f):
            if isinstance(n, ast.Call) and ast.unparse(n.func) in ('api.get_basis', 'api.get_references'):
                if n.args:
                    raise GenError('%s passes positional arguments to %s' % (f.name, ast.unparse(n.func)))
                wiring[ast.unparse(n.func)] = [(k.arg, ast.unparse(k.value)) for k in n.keywords]
    if 'api.get_basis' not in wiring or 'api.get_references' not in wiring:
        raise GenError('handlers no longer call api.get_basis / api.get_references with keywords')
    # every library call of every handler, with positional arguments resolved to the callee's parameter names
    MODS = {'api': ['api.py'], 'bundle': ['bundle.py'], 'convert': ['convert.py'], 'manip': ['manip.py', 'ints.py'],
            'readers': ['readers/read.py'], 'writers': ['writers/write.py'], 'refconverters': ['refconverters/convert.py']}

    def callee_sig(mod, name):
        for rel in MODS[mod]:
            for g in ast.walk(S.tree(rel)):
                if isinstance(g, ast.FunctionDef) and g.name == name:
                    return signature(g)[0]
        raise GenError('handler calls %s.%s, which is not defined in %s' % (mod, name, MODS[mod]))
    hcalls, hret = {}, {}
    for f in S.funcs('cli/bse_handlers.py'):
        if not f.name.startswith('_bse_cli_'):
            continue
        cl = []
        nodes = [n for n in ast.walk(f) if isinstance(n, ast.Call) and isinstance(n.func, ast.Attribute) and isinstance(n.func.value, ast.Name) and n.func.value.id in MODS]
        nodes.sort(key=lambda n: (n.lineno, n.col_offset))
        for n in nodes:
            mod, name = n.func.value.id, n.func.attr
            params = callee_sig(mod, name)
            if len(n.args) > len(params) or any(isinstance(a, ast.Starred) for a in n.args) or any(k.arg is None for k in n.keywords):
                raise GenError('%s: call of %s.%s cannot be bound to its parameters' % (f.name, mod, name))
            bound = [(params[i], ast.unparse(a)) for i, a in enumerate(n.args)] + [(k.arg, ast.unparse(k.value)) for k in n.keywords]
            if any(k not in params for k, _ in bound) or len(set(k for k, _ in bound)) != len(bound):
                raise GenError('%s: call of %s.%s names a parameter twice or an unknown one' % (f.name, mod, name))
            cl.append(('%s.%s' % (mod, name), bound))
        hcalls[f.name] = cl
        rets = [n for n in ast.walk(f) if isinstance(n, ast.Return)]
        direct = None
        if len(rets) == 1 and isinstance(rets[0].value, ast.Call) and rets[0].value in nodes and len(f.body) <= 2 and f.body[-1] is rets[0]:
            direct = '%s.%s' % (rets[0].value.func.value.id, rets[0].value.func.attr)    # the body is `return <that call>` (after the docstring)
        hret[f.name] = direct
    # the normaliser: which args attributes cli_check_normalize_args rewrites
    ck = S.func('cli/check.py', 'cli_check_normalize_args')
    norm = []
    for n in ast.walk(ck):
        if isinstance(n, ast.Assign) and isinstance(n.targets[0], ast.Attribute) and ast.unparse(n.targets[0].value) in ('args', 'args_copy'):
            norm.append((n.lineno, n.targets[0].attr, ast.unparse(n.value)))
    norm = [(a, b) for _, a, b in sorted(norm)]
    gr = S.func('api.py', 'get_references')
    rnames, rdefaults = signature(gr)
    info['cli_subcommands'] = len(order)
    out = ['/-! generated from cli/bse_cli.py, cli/bse_handlers.py, cli/check.py — do not edit -/', 'namespace BSE.Gen.Cli', '',
           '/-- per sub-command: (dest, positional, action, type, default as source text; "" = none given) -/',
           'def subcommands : List (String × List (String × Bool × String × String × String)) := [']
    out.append(',\n'.join('  (%s, [%s])' % (lstr(s), ', '.join('(%s, %s, %s, %s, %s)' % (lstr(d), lean(p), lstr(a), lstr(t), lstr(df)) for d, p, a, t, df in subs[s])) for s in order))
    out.append(']')
    out.append('def globalArgs : List (String × Bool × String × String × String) := [%s]' %
               ', '.join('(%s, %s, %s, %s, %s)' % (lstr(d), lean(p), lstr(a), lstr(t), lstr(df)) for d, p, a, t, df in glob))
    out.append('def handlerMap : List (String × String) := %s' % lean(hm))
    out.append('/-- `args.<x>` attributes each handler reads -/')
    out.append('def handlerReads : List (String × List String) := %s' % lean(sorted(reads.items())))
    out.append('/-- keyword wiring of the API calls: (parameter, source text of the value) -/')
    out.append('def getBasisWiring : List (String × String) := %s' % lean(wiring['api.get_basis']))
    out.append('def getRefsWiring : List (String × String) := %s' % lean(wiring['api.get_references']))
    out.append('def getRefsParams : List String := %s' % lean(rnames))
    out.append('def getRefsDefaults : List String := %s' % lean([repr(d) for d in rdefaults]))
    out.append('/-- every call into the library a handler makes, in source order: (callee, [(parameter of the callee, source text of the argument)]) -/')
    out.append('def handlerCalls : List (String × List (String × List (String × String))) := %s' % lean(sorted(hcalls.items())))
    out.append('/-- `some callee` when the whole body of the handler is `return <call of callee>` -/')
    out.append('def handlerReturnsCall : List (String × Option String) := [%s]' % ', '.join('(%s, %s)' % (lstr(k), opt(v)) for k, v in sorted(hret.items())))
    out.append('/-- attributes rewritten by cli_check_normalize_args: (attribute, source text) -/')
    out.append('def normalisers : List (String × String) := %s' % lean(norm))
    out += ['', 'end BSE.Gen.Cli', '']
    return '\n'.join(out)


SECTIONS = [('Cli', gen_cli)]
