"""Translator section for C10: how every `use_copy` function protects its argument.

For each function of manip.py / sort.py that has a `use_copy` parameter the first statement that can
touch the first argument is classified:
  deepcopy   `if use_copy: <arg> = copy.deepcopy(<arg>)` comes before any other use of <arg>
  delegates  <arg> is first used as the first argument of another in-scope function that is given
             `use_copy` (by keyword or position) — protection is inherited
  fresh      <arg> is only read to build new objects before ...  (not used: reported as unguarded)
  unguarded  anything else
Also extracted: for every function the calls it makes to other in-scope functions on a value derived
from the argument, with their use_copy literal (after the guard they act on the private copy)."""
import ast
from translate import GenError, lstr, lean, lit_or_src, signature


def mentions(node, name):
    return any(isinstance(n, ast.Name) and n.id == name for n in ast.walk(node))


def is_deepcopy_guard(st, arg):
    if not isinstance(st, ast.If) or ast.unparse(st.test) != 'use_copy' or st.orelse:
        return False
    if len(st.body) != 1 or not isinstance(st.body[0], ast.Assign):
        return False
    a = st.body[0]
    return ast.unparse(a.targets[0]) == arg and ast.unparse(a.value) in ('copy.deepcopy(%s)' % arg,)


def classify(fn, arg, known):
    """first statement mentioning `arg` (docstring skipped)"""
    body = fn.body
    if body and isinstance(body[0], ast.Expr) and isinstance(getattr(body[0], 'value', None), ast.Constant):
        body = body[1:]
    for st in body:
        if not mentions(st, arg):
            continue
        if is_deepcopy_guard(st, arg):
            return 'deepcopy'
        # merge_element_data after its repair: `if dest is not None: ret = copy.deepcopy(dest)`
        if isinstance(st, ast.If) and st.body and ast.unparse(st.body[0]) == 'ret = copy.deepcopy(%s)' % arg:
            return 'deepcopy'
        # merge_element_data: `ret = dest.copy()` and a private copy of each list that is extended later
        if isinstance(st, ast.If) and st.body and ast.unparse(st.body[0]) == 'ret = %s.copy()' % arg:
            copies = [n for n in ast.walk(st) if isinstance(n, ast.Assign) and ast.unparse(n.targets[0]) == 'ret[key]' and ast.unparse(n.value) == 'list(ret[key])']
            keys = [ast.unparse(n.iter) for n in ast.walk(st) if isinstance(n, ast.For)]
            extended = sorted(set(ast.unparse(n.func.value) for n in ast.walk(fn) if isinstance(n, ast.Call) and isinstance(n.func, ast.Attribute)
                                  and n.func.attr in ('extend', 'append') and ast.unparse(n.func.value).startswith('ret[')))
            if copies and keys and all(e.split("'")[1] in keys[0] for e in extended):
                return 'shallow_plus_lists'
            return 'unguarded'
        # a guard that copies a derived local while arg itself is only read afterwards is not recognised
        for n in ast.walk(st):
            if isinstance(n, ast.Call):
                callee = ast.unparse(n.func).split('.')[-1]
                if callee in known and n.args and ast.unparse(n.args[0]) == arg:
                    names, _ = known[callee]
                    passed = None
                    for k in n.keywords:
                        if k.arg == 'use_copy':
                            passed = ast.unparse(k.value)
                    if passed is None and 'use_copy' in names:
                        idx = names.index('use_copy')
                        if len(n.args) > idx:
                            passed = ast.unparse(n.args[idx])
                        else:
                            passed = 'True'      # the callee's default
                    if passed in ('use_copy', 'True'):
                        return 'delegates'
        return 'unguarded'
    return 'unguarded'


def gen_own(S, info):
    known = {}
    fns = []
    for rel in ('manip.py', 'sort.py'):
        for f in S.funcs(rel):
            names = [a.arg for a in f.args.args]
            if 'use_copy' in names:
                _, defaults = signature(f)
                known[f.name] = (names, defaults)
                fns.append((rel[:-3], f))
    if not fns:
        raise GenError('no use_copy functions found in manip.py / sort.py')
    rows = []
    for mod, f in fns:
        names, defaults = known[f.name]
        nd = len(defaults)
        i = names.index('use_copy')
        dflt = defaults[i - (len(names) - nd)] if i >= len(names) - nd else None
        rows.append((mod + '.' + f.name, names[0], classify(f, names[0], known), repr(dflt)))
    # functions that take a basis/shell but have NO use_copy parameter and mutate their argument in place are
    # documented mutators (remove_primitive, create_element_data, _element_remove_diffuse): listed for the record
    info['use_copy_functions'] = len(rows)
    out = ['/-! generated from manip.py / sort.py — do not edit -/', 'namespace BSE.Gen.Own', '',
           '/-- (function, protected argument, how it is protected, default of use_copy) -/',
           'def useCopyFns : List (String × String × String × String) := [']
    out.append(',\n'.join('  (%s, %s, %s, %s)' % (lstr(a), lstr(b), lstr(c), lstr(d)) for a, b, c, d in rows))
    out.append(']')
    # public entry points that receive caller data and have no use_copy parameter: how they are called is checked dynamically;
    # here: the calls convert/compare/diff/validator make into manip/sort with a use_copy literal
    sites = []
    for rel in ('curate/compare.py', 'curate/diff.py', 'convert.py', 'validator.py', 'refconverters/convert.py', 'api.py', 'bundle.py'):
        try:
            t = S.tree(rel)
        except GenError:
            continue
        for f in [n for n in ast.walk(t) if isinstance(n, ast.FunctionDef)]:
            for n in ast.walk(f):
                if isinstance(n, ast.Call):
                    callee = ast.unparse(n.func).split('.')[-1]
                    if callee in known:
                        names, _ = known[callee]
                        passed = None
                        for k in n.keywords:
                            if k.arg == 'use_copy':
                                passed = ast.unparse(k.value)
                        idx = names.index('use_copy')
                        if passed is None and len(n.args) > idx:
                            passed = ast.unparse(n.args[idx])
                        if passed is None:
                            passed = 'default'
                        sites.append((rel[:-3].replace('/', '.') + '.' + f.name, callee, passed))
    out.append('/-- calls from the other public modules into the use_copy functions: (caller, callee, use_copy as written) -/')
    out.append('def callSites : List (String × String × String) := %s' % lean(sites))
    out += ['', 'end BSE.Gen.Own', '']
    return '\n'.join(out)


SECTIONS = [('Own', gen_own)]
