"""Translator section for C10: the *effect skeleton* of every in-scope function, in the statement language of
lean/BSEModel/Heap.lean (deepcopy / derive / alias / sub / store / ret / seq / choice / loop).

What is extracted, from the AST only:
  * every assignment, subscript, iteration, comprehension, container literal, copy / deepcopy, slicing,
    the mutating methods (append extend insert pop remove update sort reverse clear setdefault popitem add discard),
    subscript stores, `del`, augmented assignments, returns;
  * calls to functions defined in the analysed modules are inlined (arguments bound, `use_copy` resolved to the
    literal given at the call site or to its default; recursion is cut: the recursive call is summarised as
    "reads its arguments, returns a new container drawn from them");
  * values that are immutable (strings, numbers, booleans, None: constants, f-strings, arithmetic on them, the
    results of len/float/str/…, of string methods, of lut.* / printing.* / misc.* / ints.* / math.*, and dictionary
    entries whose schema type is string / integer / number) are not tracked: they have no identity that could be shared.

Over-approximations (all on the safe side: they can only make the check refuse more):
  * a statement list after a statement that may leave it early (return / break / continue / raise inside) is
    optional; the body of `try` is statement-wise optional, handlers are optional;
  * `x = y[k]`, iteration, `.get`, `.pop`, `min`/`max`, … give *anything reachable* from y;
  * the value of an inlined call is any of the values it returns.

Assumed (trusted, listed in the evidence): callees outside the analysed modules only read their arguments
(jsonschema, json, re, textwrap, math, lut, printing, misc, ints, …); lambdas and key functions only read;
module-level tables are not caller data."""
import ast, os, json
from translate import GenError, lstr

MUTATORS = {'append', 'extend', 'insert', 'pop', 'remove', 'update', 'sort', 'reverse', 'clear', 'setdefault', 'popitem', 'add', 'discard',
            'move_to_end', 'appendleft'}
RET_SUB = {'pop', 'setdefault', 'popitem', 'get', '__getitem__'}
STR_METHODS = {'format', 'join', 'split', 'rsplit', 'strip', 'lstrip', 'rstrip', 'lower', 'upper', 'replace', 'startswith', 'endswith', 'splitlines',
               'ljust', 'rjust', 'center', 'zfill', 'capitalize', 'title', 'isdigit', 'isalpha', 'isspace', 'find', 'rfind', 'index', 'count', 'encode',
               'decode', 'isnumeric', 'isdecimal', 'casefold', 'partition', 'rpartition', 'expandtabs', 'islower', 'isupper', 'swapcase', 'format_map',
               'is_integer', 'as_integer_ratio', 'hex', 'bit_length', 'total_seconds', 'isoformat', 'strftime'}
LEAF_FUNCS = {'len', 'float', 'int', 'str', 'repr', 'abs', 'sum', 'any', 'all', 'isinstance', 'issubclass', 'range', 'round', 'bool', 'ord', 'chr',
              'format', 'hash', 'type', 'print', 'id', 'callable', 'hasattr', 'getattr', 'divmod', 'pow', 'bytes', 'open', 'input', 'super',
              'RuntimeError', 'KeyError', 'ValueError', 'TypeError', 'NotImplementedError', 'IndexError', 'Exception', 'AssertionError',
              'gamma', 'exp', 'log', 'sqrt', 'pi', 'floor', 'ceil', 'frozenset', 'complex', 'version', 'fabs', 'log10', 'isclose'}
LEAF_MODULES = {'lut', 'printing', 'misc', 'ints', 'math', 're', 'regex', 'textwrap', 'os', 'json', 'datetime', 'hashlib', 'jsonschema', 'string',
                'sys', 'warnings', 'operator', 'functools', 'bz2', 'io', 'codecs', 'fileio', 'api', 'notes', 'references', 'compose', 'memo', 'bs4', 'np', 'numpy'}
FRESH_FUNCS = {'list', 'dict', 'tuple', 'set', 'sorted', 'reversed', 'zip', 'map', 'enumerate', 'filter', 'iter', 'OrderedDict', 'defaultdict', 'deque',
               'chain', 'groupby', 'product', 'zip_longest', 'copy.copy', 'Counter', 'islice'}
FRESH_METHODS = {'items', 'values', 'keys', 'copy', 'fromkeys', 'union', 'intersection', 'difference'}
SUB_FUNCS = {'min', 'max', 'next', 'reduce'}

LEAF = None


class Module:
    def __init__(self, rel, tree):
        self.rel = rel
        self.tree = tree
        self.funcs = {n.name: n for n in tree.body if isinstance(n, ast.FunctionDef)}
        # names this module imports from the package: alias -> module rel (for `from . import manip` / `from .. import manip`,
        # `from .common import f`, `from ..sort import sort_shell`)
        self.mod_alias = {}
        self.func_alias = {}
        for n in tree.body:
            if isinstance(n, ast.ImportFrom) and n.level >= 1:
                for al in n.names:
                    nm = al.asname or al.name
                    if n.module is None:
                        self.mod_alias[nm] = (n.level, al.name)
                    else:
                        self.func_alias[nm] = (n.level, n.module, al.name)


def immutable_keys(root):
    """dictionary keys whose schema type is string / integer / number / boolean everywhere they are declared"""
    good, bad = set(), set()
    sd = os.path.join(root, 'schema')
    for f in sorted(os.listdir(sd)) if os.path.isdir(sd) else []:
        if not f.endswith('.json'):
            continue
        try:
            js = json.load(open(os.path.join(sd, f)))
        except Exception:
            continue

        def walk(x):
            if isinstance(x, dict):
                props = x.get('properties')
                if isinstance(props, dict):
                    for k, v in props.items():
                        t = v.get('type') if isinstance(v, dict) else None
                        if t in ('string', 'integer', 'number', 'boolean'):
                            good.add(k)
                        else:
                            bad.add(k)
                for v in x.values():
                    walk(v)
            elif isinstance(x, list):
                for v in x:
                    walk(v)
        walk(js)
    return good - bad


class Ctx:
    """one skeleton under construction"""

    def __init__(self, world, name):
        self.world = world
        self.name = name
        self.nvars = 0
        self.varnames = []
        self.unknown = set()
        self.notes = set()
        self.nstmts = 0

    def fresh(self, hint):
        v = self.nvars
        self.nvars += 1
        self.varnames.append(hint)
        return v


class Frame:
    """one (possibly inlined) function activation"""

    def __init__(self, ctx, mod, fn, depth, stack):
        self.ctx = ctx
        self.mod = mod
        self.fn = fn
        self.depth = depth
        self.stack = stack           # (rel, name) of the functions being inlined, for recursion
        self.vars = {}               # name -> var id
        self.leafnames = set()
        self.consts = {}             # name -> python constant (use_copy and other literal arguments)
        self.res = None              # result variable when inlined
        self.top = depth == 0

    def var(self, name):
        if name not in self.vars:
            self.vars[name] = self.ctx.fresh('%s%s' % ('' if self.top else self.fn.name + '.', name))
        return self.vars[name]


class World:
    def __init__(self, S):
        self.S = S
        self.mods = {}
        self.imm_keys = immutable_keys(S.root)

    def module(self, rel):
        if rel not in self.mods:
            self.mods[rel] = Module(rel, self.S.tree(rel))
        return self.mods[rel]

    def resolve_rel(self, mod, level, modname):
        base = os.path.dirname(mod.rel)
        for _ in range(level - 1):
            base = os.path.dirname(base)
        cand = os.path.join(base, modname.replace('.', '/') + '.py') if base else modname.replace('.', '/') + '.py'
        if os.path.isfile(os.path.join(self.S.root, cand)):
            return cand
        cand2 = os.path.join(base, modname.replace('.', '/'), '__init__.py') if base else os.path.join(modname.replace('.', '/'), '__init__.py')
        if os.path.isfile(os.path.join(self.S.root, cand2)):
            return cand2
        return None

    def lookup(self, mod, func_expr):
        """definition of the function a call expression refers to, if it lives in the package: (Module, FunctionDef) or None"""
        if isinstance(func_expr, ast.Name):
            nm = func_expr.id
            if nm in mod.funcs:
                return mod, mod.funcs[nm]
            if nm in mod.func_alias:
                level, m, orig = mod.func_alias[nm]
                if m.split('.')[-1] in LEAF_MODULES:
                    return 'leaf'
                rel = self.resolve_rel(mod, level, m)
                if rel and not rel.endswith('__init__.py'):
                    tm = self.module(rel)
                    if orig in tm.funcs:
                        return tm, tm.funcs[orig]
            return None
        if isinstance(func_expr, ast.Attribute) and isinstance(func_expr.value, ast.Name):
            a = func_expr.value.id
            if a in mod.mod_alias:
                level, m = mod.mod_alias[a]
                if m in LEAF_MODULES:
                    return None
                rel = self.resolve_rel(mod, level, m)
                if rel and not rel.endswith('__init__.py'):
                    tm = self.module(rel)
                    if func_expr.attr in tm.funcs:
                        return tm, tm.funcs[func_expr.attr]
        return None


MAX_DEPTH = 6


def S_seq(stmts):
    stmts = [s for s in stmts if s != ('skip',)]
    if not stmts:
        return ('skip',)
    if len(stmts) == 1:
        return stmts[0]
    return ('block', stmts)


def may_jump(node):
    for n in ast.walk(node):
        if isinstance(n, (ast.Return, ast.Break, ast.Continue, ast.Raise)):
            return True
    return False


class Tr:
    def __init__(self, frame):
        self.f = frame
        self.ctx = frame.ctx
        self.world = frame.ctx.world

    # ---------------------------------------------------------------- leaf typing of local names
    def compute_leafnames(self, params_leaf):
        fn = self.f.fn
        assigned = {}

        def add(name, kind, val):
            assigned.setdefault(name, []).append((kind, val))

        def targets(t, kind, val):
            if isinstance(t, ast.Name):
                add(t.id, kind, val)
            elif isinstance(t, (ast.Tuple, ast.List)):
                if kind == 'expr' and isinstance(val, (ast.Tuple, ast.List)) and len(val.elts) == len(t.elts):
                    for a, b in zip(t.elts, val.elts):
                        targets(a, 'expr', b)
                elif kind == 'iter' and len(t.elts) == 2 and self.first_is_key(val):
                    targets(t.elts[0], 'leaf', None)
                    targets(t.elts[1], 'elem', val)
                else:
                    for a in t.elts:
                        targets(a, 'elem' if kind in ('iter', 'elem') else 'part', val)
            elif isinstance(t, ast.Starred):
                targets(t.value, 'part', val)

        for n in ast.walk(fn):
            if isinstance(n, ast.Assign):
                for t in n.targets:
                    targets(t, 'expr', n.value)
            elif isinstance(n, ast.AnnAssign) and n.value is not None:
                targets(n.target, 'expr', n.value)
            elif isinstance(n, ast.AugAssign):
                targets(n.target, 'expr', n.value)
            elif isinstance(n, (ast.For, ast.comprehension)):
                targets(n.target, 'iter', n.iter)
            elif isinstance(n, ast.withitem) and n.optional_vars is not None:
                targets(n.optional_vars, 'nonleaf', None)
            elif isinstance(n, ast.ExceptHandler) and n.name:
                add(n.name, 'leaf', None)
            elif isinstance(n, ast.NamedExpr):
                targets(n.target, 'expr', n.value)
        leaf = set(assigned) | set(params_leaf)
        changed = True
        while changed:
            changed = False
            for name, lst in assigned.items():
                if name not in leaf:
                    continue
                for kind, val in lst:
                    ok = True
                    if kind == 'leaf':
                        ok = True
                    elif kind == 'nonleaf':
                        ok = False
                    elif kind == 'expr':
                        ok = self.static_leaf(val, leaf)
                    elif kind in ('iter', 'elem', 'part'):
                        ok = self.static_leaf_iter(val, leaf)
                    if not ok:
                        leaf.discard(name)
                        changed = True
                        break
        self.f.leafnames = leaf

    def first_is_key(self, it):
        return isinstance(it, ast.Call) and ((isinstance(it.func, ast.Attribute) and it.func.attr == 'items' and not it.args)
                                             or (isinstance(it.func, ast.Name) and it.func.id == 'enumerate'))

    def static_leaf_iter(self, e, leaf):
        """are the *elements* of e immutable?"""
        if isinstance(e, ast.Call):
            if isinstance(e.func, ast.Name) and e.func.id == 'range':
                return True
            if isinstance(e.func, ast.Attribute) and e.func.attr == 'keys' and not e.args:
                return True
            if isinstance(e.func, ast.Attribute) and e.func.attr in ('split', 'splitlines', 'rsplit'):
                return True
            if isinstance(e.func, ast.Name) and e.func.id in ('sorted', 'reversed', 'list', 'set', 'tuple') and e.args:
                return self.static_leaf_iter(e.args[0], leaf)
        if isinstance(e, ast.Constant) and isinstance(e.value, (str, bytes)):
            return True
        if isinstance(e, (ast.List, ast.Tuple, ast.Set)):
            return all(self.static_leaf(x, leaf) for x in e.elts)
        return self.static_leaf(e, leaf)

    def static_leaf(self, e, leaf):
        if isinstance(e, (ast.Constant, ast.JoinedStr, ast.Compare, ast.Lambda)):
            return True
        if isinstance(e, ast.UnaryOp):
            return isinstance(e.op, ast.Not) or self.static_leaf(e.operand, leaf)
        if isinstance(e, ast.Name):
            if e.id in self.f.consts:
                return True
            if e.id in leaf:
                return True
            if e.id in self.f.vars or e.id in [a.arg for a in self.f.fn.args.args]:
                return e.id in leaf
            # not assigned in this function and not a parameter: a global / builtin
            return not self.assigned_here(e.id)
        if isinstance(e, ast.BoolOp):
            return all(self.static_leaf(x, leaf) for x in e.values)
        if isinstance(e, ast.BinOp):
            if isinstance(e.left, (ast.Constant, ast.JoinedStr)) and isinstance(getattr(e.left, 'value', ''), (str,)) and not isinstance(e.op, ast.Mult):
                return True
            return self.static_leaf(e.left, leaf) and self.static_leaf(e.right, leaf)
        if isinstance(e, ast.IfExp):
            return self.static_leaf(e.body, leaf) and self.static_leaf(e.orelse, leaf)
        if isinstance(e, ast.Subscript):
            if self.static_leaf(e.value, leaf):
                return True
            k = e.slice
            return isinstance(k, ast.Constant) and k.value in self.world.imm_keys
        if isinstance(e, ast.Attribute):
            return True
        if isinstance(e, ast.Call):
            return self.call_kind(e, leaf)[0] == 'leaf'
        if isinstance(e, ast.NamedExpr):
            return self.static_leaf(e.value, leaf)
        return False

    def assigned_here(self, name):
        if not hasattr(self, '_assigned'):
            s = set(a.arg for a in self.f.fn.args.args)
            for n in ast.walk(self.f.fn):
                if isinstance(n, ast.Name) and isinstance(n.ctx, (ast.Store, ast.Del)):
                    s.add(n.id)
                elif isinstance(n, ast.ExceptHandler) and n.name:
                    s.add(n.name)
            self._assigned = s
        return name in self._assigned

    def call_kind(self, e, leaf):
        """('leaf',) | ('fresh',) | ('sub',) | ('deepcopy',) | ('inline', mod, fn) | ('mutator', name) | ('unknown',)"""
        fsrc = ast.unparse(e.func)
        if fsrc == 'copy.deepcopy':
            return ('deepcopy',)
        if isinstance(e.func, ast.Name):
            nm = e.func.id
            hit = self.world.lookup(self.f.mod, e.func)
            if hit == 'leaf':
                return ('leaf',)
            if hit is not None:
                return ('inline',) + hit
            if nm in LEAF_FUNCS:
                return ('leaf',)
            if nm in FRESH_FUNCS:
                return ('fresh',)
            if nm in SUB_FUNCS:
                return ('sub',)
            if nm in self.f.leafnames or nm in leaf:
                return ('leaf',)
            return ('unknown',)
        if isinstance(e.func, ast.Attribute):
            at = e.func.attr
            base = e.func.value
            if fsrc in FRESH_FUNCS:
                return ('fresh',)
            if isinstance(base, ast.Name) and not self.assigned_here(base.id):
                hit = self.world.lookup(self.f.mod, e.func)
                if hit is not None:
                    return ('inline',) + hit
                if base.id in LEAF_MODULES or base.id in self.f.mod.mod_alias or base.id in ('copy', 'itertools', 'collections'):
                    if base.id in ('itertools', 'collections'):
                        return ('fresh',)
                    return ('leaf',)
            if isinstance(base, ast.Attribute) and isinstance(base.value, ast.Name) and not self.assigned_here(base.value.id):
                return ('leaf',)          # os.path.join(...) and the like
            if at in STR_METHODS:
                return ('leaf',)
            if isinstance(base, (ast.Constant, ast.JoinedStr)):
                return ('leaf',)
            if self.static_leaf(base, leaf):
                return ('leaf',)
            if at in MUTATORS:
                return ('mutator', at)
            if at in FRESH_METHODS:
                return ('fresh',)
            if at in RET_SUB:
                return ('sub',)
            return ('unknown',)
        return ('unknown',)

    # ---------------------------------------------------------------- expressions
    def ev(self, e, out):
        """emit the statements evaluating e into out; return the variable holding its value or LEAF"""
        f = self.f
        if e is None or isinstance(e, (ast.Constant, ast.JoinedStr, ast.Lambda)):
            if isinstance(e, ast.JoinedStr):
                for v in e.values:
                    if isinstance(v, ast.FormattedValue):
                        self.ev(v.value, out)
            return LEAF
        if isinstance(e, ast.Name):
            if e.id in f.consts or e.id in f.leafnames:
                return LEAF
            if e.id in f.vars:
                return f.vars[e.id]
            if self.assigned_here(e.id):
                return f.var(e.id)
            return LEAF               # global / builtin / module
        if isinstance(e, ast.Compare):
            self.ev(e.left, out)
            for c in e.comparators:
                self.ev(c, out)
            return LEAF
        if isinstance(e, ast.UnaryOp):
            v = self.ev(e.operand, out)
            return LEAF
        if isinstance(e, ast.BoolOp):
            vs = [self.ev(x, out) for x in e.values]
            nz = [v for v in vs if v is not LEAF]
            if not nz:
                return LEAF
            t = self.ctx.fresh('bool')
            alts = [('alias', t, v) for v in nz]
            if len(nz) < len(vs):
                alts.append(('derive', t, []))
            out.append(self.choices(alts))
            return t
        if isinstance(e, ast.BinOp):
            if isinstance(e.left, (ast.Constant, ast.JoinedStr)) and isinstance(getattr(e.left, 'value', ''), str) and not isinstance(e.op, ast.Mult):
                self.ev(e.right, out)
                return LEAF
            a = self.ev(e.left, out)
            b = self.ev(e.right, out)
            nz = [v for v in (a, b) if v is not LEAF]
            if not nz:
                return LEAF
            t = self.ctx.fresh('binop')
            out.append(('derive', t, nz))
            return t
        if isinstance(e, ast.IfExp):
            self.ev(e.test, out)
            o1, o2 = [], []
            a = self.ev(e.body, o1)
            b = self.ev(e.orelse, o2)
            if a is LEAF and b is LEAF:
                out.append(('choice', S_seq(o1), S_seq(o2)))
                return LEAF
            t = self.ctx.fresh('ifexp')
            o1.append(('alias', t, a) if a is not LEAF else ('derive', t, []))
            o2.append(('alias', t, b) if b is not LEAF else ('derive', t, []))
            out.append(('choice', S_seq(o1), S_seq(o2)))
            return t
        if isinstance(e, ast.Subscript):
            base = self.ev(e.value, out)
            if isinstance(e.slice, ast.Slice):
                for p in (e.slice.lower, e.slice.upper, e.slice.step):
                    if p is not None:
                        self.ev(p, out)
                if base is LEAF:
                    return LEAF
                t = self.ctx.fresh('slice')
                out.append(('derive', t, [base]))
                return t
            self.ev(e.slice, out)
            if base is LEAF:
                return LEAF
            if isinstance(e.slice, ast.Constant) and e.slice.value in self.world.imm_keys:
                return LEAF
            t = self.ctx.fresh('item')
            out.append(('sub', t, base))
            return t
        if isinstance(e, ast.Attribute):
            self.ev(e.value, out)
            return LEAF
        if isinstance(e, ast.Starred):
            v = self.ev(e.value, out)
            if v is LEAF:
                return LEAF
            t = self.ctx.fresh('star')
            out.append(('sub', t, v))
            return t
        if isinstance(e, (ast.List, ast.Tuple, ast.Set)):
            vs = [self.ev(x, out) for x in e.elts]
            nz = [v for v in vs if v is not LEAF]
            t = self.ctx.fresh('lit')
            out.append(('derive', t, nz))
            return t
        if isinstance(e, ast.Dict):
            vs = []
            for k, v in zip(e.keys, e.values):
                if k is not None:
                    self.ev(k, out)
                vs.append(self.ev(v, out))
            nz = [v for v in vs if v is not LEAF]
            t = self.ctx.fresh('dict')
            out.append(('derive', t, nz))
            return t
        if isinstance(e, (ast.ListComp, ast.SetComp, ast.GeneratorExp, ast.DictComp)):
            return self.comp(e, out)
        if isinstance(e, ast.NamedExpr):
            v = self.ev(e.value, out)
            self.assign_name(e.target.id, v, out)
            return v
        if isinstance(e, ast.Call):
            return self.call(e, out)
        if isinstance(e, (ast.Await, ast.Yield, ast.YieldFrom)):
            self.ctx.notes.add('yield/await in %s' % f.fn.name)
            return LEAF
        self.ctx.notes.add('expression %s not handled in %s' % (type(e).__name__, f.fn.name))
        return LEAF

    def choices(self, alts):
        r = alts[-1]
        for a in reversed(alts[:-1]):
            r = ('choice', a, r)
        return r

    def comp(self, e, out):
        t = self.ctx.fresh('comp')
        out.append(('derive', t, []))

        def level(i, o):
            if i == len(e.generators):
                if isinstance(e, ast.DictComp):
                    self.ev(e.key, o)
                    v = self.ev(e.value, o)
                else:
                    v = self.ev(e.elt, o)
                if v is not LEAF:
                    o.append(('store', t, [v]))
                return
            g = e.generators[i]
            it = self.ev(g.iter, o)
            body = []
            self.bind_iter(g.target, g.iter, it, body)
            for c in g.ifs:
                self.ev(c, body)
            inner = []
            level(i + 1, inner)
            if g.ifs:
                body.append(('choice', S_seq(inner), ('skip',)))
            else:
                body += inner
            o.append(('loop', S_seq(body)))
        level(0, out)
        return t

    def bind_iter(self, target, iter_expr, it, out):
        """target := an element of the iterable held in `it`"""
        if isinstance(target, ast.Name):
            self.assign_name(target.id, self.sub_of(it, out), out)
        elif isinstance(target, (ast.Tuple, ast.List)):
            if len(target.elts) == 2 and self.first_is_key(iter_expr):
                self.bind_iter_leaf(target.elts[0], out)
                self.bind_iter(target.elts[1], None, it, out)
            else:
                for a in target.elts:
                    self.bind_iter(a.value if isinstance(a, ast.Starred) else a, None, it, out)
        else:
            # subscript / attribute as loop target: treat as a store
            self.store_target(target, self.sub_of(it, out), out)

    def bind_iter_leaf(self, target, out):
        for n in ast.walk(target):
            if isinstance(n, ast.Name):
                self.assign_name(n.id, LEAF, out)

    def sub_of(self, v, out):
        if v is LEAF:
            return LEAF
        t = self.ctx.fresh('elem')
        out.append(('sub', t, v))
        return t

    def assign_name(self, name, v, out):
        f = self.f
        if name in f.leafnames or name in f.consts:
            if name in f.consts:
                del f.consts[name]
                f.leafnames.add(name)
            return
        x = f.var(name)
        if v is LEAF:
            out.append(('derive', x, []))
        elif v != x:
            out.append(('alias', x, v))

    def store_target(self, target, v, out):
        if isinstance(target, ast.Name):
            self.assign_name(target.id, v, out)
        elif isinstance(target, (ast.Tuple, ast.List)):
            for a in target.elts:
                self.store_target(a.value if isinstance(a, ast.Starred) else a, self.sub_of(v, out), out)
        elif isinstance(target, ast.Subscript):
            base = self.ev(target.value, out)
            self.ev(target.slice if not isinstance(target.slice, ast.Slice) else None, out)
            if base is LEAF:
                self.ctx.notes.add('store into an untracked value in %s: %s' % (self.f.fn.name, ast.unparse(target)[:60]))
                return
            if isinstance(target.slice, ast.Slice) and v is not LEAF:
                v = self.sub_of(v, out)
            out.append(('store', base, [] if v is LEAF else [v]))
        elif isinstance(target, ast.Attribute):
            base = self.ev(target.value, out)
            if base is not LEAF:
                out.append(('store', base, [] if v is LEAF else [v]))
        else:
            self.ctx.notes.add('assignment target %s not handled' % type(target).__name__)

    def call(self, e, out):
        f = self.f
        kind = self.call_kind(e, f.leafnames)
        # evaluate the receiver and the arguments first (in source order)
        recv = LEAF
        if isinstance(e.func, ast.Attribute) and kind[0] in ('mutator', 'fresh', 'sub', 'unknown', 'leaf') and ast.unparse(e.func) not in FRESH_FUNCS \
                and ast.unparse(e.func) != 'copy.deepcopy':
            recv = self.ev(e.func.value, out)
        if kind[0] == 'inline':
            return self.inline(e, kind[1], kind[2], out)
        args = []
        for a in e.args:
            args.append(self.ev(a, out))
        kwv = []
        for k in e.keywords:
            kwv.append(self.ev(k.value, out))
        allv = [v for v in [recv] + args + kwv if v is not LEAF]
        if kind[0] == 'leaf':
            return LEAF
        if kind[0] == 'deepcopy':
            if not args or args[0] is LEAF:
                return LEAF
            t = self.ctx.fresh('copy')
            out.append(('deepcopy', t, args[0]))
            return t
        if kind[0] == 'fresh':
            t = self.ctx.fresh('new')
            out.append(('derive', t, allv))
            return t
        if kind[0] == 'sub':
            if not allv:
                return LEAF
            t = self.ctx.fresh('pick')
            out.append(self.choices([('sub', t, v) for v in allv]))
            return t
        if kind[0] == 'mutator':
            if recv is LEAF:
                return LEAF
            name = kind[1]
            stored = [v for v in args + kwv if v is not LEAF]
            if name in ('extend', 'update'):
                stored = [self.sub_of(v, out) for v in stored]
            out.append(('store', recv, stored))
            if name in RET_SUB:
                t = self.ctx.fresh('popped')
                out.append(self.choices([('sub', t, v) for v in [recv] + stored]))
                return t
            return LEAF
        # unknown callee: assumed to read only; it may hand back anything reachable from what it was given
        self.ctx.unknown.add(ast.unparse(e.func)[:60])
        if not allv:
            return LEAF
        t = self.ctx.fresh('ext')
        out.append(self.choices([('sub', t, v) for v in allv] + [('derive', t, allv)]))
        return t

    def inline(self, e, mod, fn, out):
        f = self.f
        key = (mod.rel, fn.name)
        args = [self.ev(a, out) for a in e.args if not isinstance(a, ast.Starred)]
        star = [self.ev(a.value, out) for a in e.args if isinstance(a, ast.Starred)]
        kws = {}
        for k in e.keywords:
            if k.arg is None:
                star.append(self.ev(k.value, out))
            else:
                kws[k.arg] = (k.value, self.ev(k.value, out))
        names = [a.arg for a in fn.args.args]
        if key in f.stack:
            # recursion: the recursive call is assumed to satisfy what is being checked of this very function (it only reads
            # its arguments and what it returns shares nothing with them) - induction on the depth of the recursion
            self.ctx.notes.add('recursive call to %s.%s assumed to satisfy the property being checked (induction on call depth)' % (mod.rel, fn.name))
            t = self.ctx.fresh('rec')
            out.append(('derive', t, []))
            return t
        if f.depth >= MAX_DEPTH:
            # too deep: summarised as a reader that returns a new container drawn from its arguments
            self.ctx.notes.add('call to %s.%s summarised (depth)' % (mod.rel, fn.name))
            allv = [v for v in args + star + [v for _, v in kws.values()] if v is not LEAF]
            if not allv:
                return LEAF
            t = self.ctx.fresh('deep')
            out.append(('derive', t, allv))
            return t
        g = Frame(self.ctx, mod, fn, f.depth + 1, f.stack + [key])
        tr = Tr(g)
        # bind parameters
        bound = {}
        consts = {}
        defaults = fn.args.defaults
        dnames = names[len(names) - len(defaults):] if defaults else []
        for i, nm in enumerate(names):
            if i < len(args):
                bound[nm] = args[i]
                src = [a for a in e.args if not isinstance(a, ast.Starred)][i]
                c = self.const_of(src)
                if c is not None:
                    consts[nm] = c[0]
            elif nm in kws:
                bound[nm] = kws[nm][1]
                c = self.const_of(kws[nm][0])
                if c is not None:
                    consts[nm] = c[0]
            elif nm in dnames:
                d = defaults[dnames.index(nm)]
                try:
                    consts[nm] = ast.literal_eval(d)
                except Exception:
                    pass
                bound[nm] = LEAF
            else:
                # filled from *args / **kwargs or missing: anything reachable from the starred values
                bound[nm] = ('star', star)
        if fn.args.vararg:
            bound[fn.args.vararg.arg] = ('pack', [a for a in args[len(names):] if a is not LEAF] + star)
        if fn.args.kwarg:
            bound[fn.args.kwarg.arg] = ('pack', [v for k, (_, v) in kws.items() if k not in names and v is not LEAF])
        params_leaf = set()
        pre = []
        for nm, v in bound.items():
            if isinstance(v, tuple):
                srcs = [s for s in v[1] if s is not LEAF]
                if not srcs:
                    params_leaf.add(nm)
                    continue
                x = g.var(nm)
                if v[0] == 'pack':
                    pre.append(('derive', x, srcs))
                else:
                    pre.append(self.choices([('sub', x, s) for s in srcs]))
            elif v is LEAF:
                params_leaf.add(nm)
            else:
                x = g.var(nm)
                pre.append(('alias', x, v))
        # only booleans / None are propagated as constants (they decide `if use_copy:` and similar tests)
        g.consts = {k: v for k, v in consts.items() if (isinstance(v, bool) or v is None) and k in params_leaf}
        tr.compute_leafnames(params_leaf)
        g.res = self.ctx.fresh(fn.name + '.result')
        body = [('derive', g.res, [])]
        body += pre
        tr.block(fn.body, body)
        out.append(S_seq(body))
        if not any(isinstance(n, ast.Return) and n.value is not None and not tr.static_leaf(n.value, g.leafnames) for n in ast.walk(fn)):
            return LEAF
        return g.res

    def const_of(self, node):
        if isinstance(node, ast.Constant):
            return (node.value,)
        if isinstance(node, ast.Name) and node.id in self.f.consts:
            return (self.f.consts[node.id],)
        return None

    # ---------------------------------------------------------------- statements
    def block(self, stmts, out):
        for i, st in enumerate(stmts):
            self.stmt(st, out)
            if may_jump(st) and not isinstance(st, (ast.Return, ast.Raise)) and i + 1 < len(stmts):
                rest = []
                self.block(stmts[i + 1:], rest)
                out.append(('choice', S_seq(rest), ('skip',)))
                return
            if isinstance(st, (ast.Return, ast.Raise, ast.Break, ast.Continue)):
                return                                   # the rest of this list is unreachable

    def test_const(self, test):
        """value of a test that is decided by a propagated constant (use_copy, skip_spdf, …), else None"""
        if isinstance(test, ast.Name) and test.id in self.f.consts:
            return bool(self.f.consts[test.id])
        if isinstance(test, ast.UnaryOp) and isinstance(test.op, ast.Not):
            v = self.test_const(test.operand)
            return None if v is None else (not v)
        if isinstance(test, ast.Compare) and len(test.ops) == 1 and isinstance(test.left, ast.Name) and test.left.id in self.f.consts \
                and isinstance(test.comparators[0], ast.Constant) and test.comparators[0].value is None:
            c = self.f.consts[test.left.id]
            if isinstance(test.ops[0], ast.Is):
                return c is None
            if isinstance(test.ops[0], ast.IsNot):
                return c is not None
        return None

    def stmt(self, st, out):
        f = self.f
        self.ctx.nstmts += 1
        if isinstance(st, ast.Expr):
            self.ev(st.value, out)
        elif isinstance(st, ast.Assign):
            if len(st.targets) == 1 and isinstance(st.targets[0], (ast.Tuple, ast.List)) and isinstance(st.value, (ast.Tuple, ast.List)) \
                    and len(st.targets[0].elts) == len(st.value.elts) and not any(isinstance(x, ast.Starred) for x in st.targets[0].elts + st.value.elts):
                vals = [self.ev(x, out) for x in st.value.elts]
                tmp = []
                for v in vals:
                    if v is LEAF:
                        tmp.append(LEAF)
                    else:
                        t = self.ctx.fresh('tmp')
                        out.append(('alias', t, v))
                        tmp.append(t)
                for t, v in zip(st.targets[0].elts, tmp):
                    self.store_target(t, v, out)
            else:
                v = self.ev(st.value, out)
                for t in st.targets:
                    self.store_target(t, v, out)
        elif isinstance(st, ast.AnnAssign):
            if st.value is not None:
                self.store_target(st.target, self.ev(st.value, out), out)
        elif isinstance(st, ast.AugAssign):
            v = self.ev(st.value, out)
            t = st.target
            if isinstance(t, ast.Name):
                if t.id in f.leafnames or t.id in f.consts:
                    return
                x = f.var(t.id)
                out.append(('store', x, [] if v is LEAF else [self.sub_of(v, out), v]))
            elif isinstance(t, ast.Subscript):
                base = self.ev(t.value, out)
                self.ev(t.slice if not isinstance(t.slice, ast.Slice) else None, out)
                if base is not LEAF:
                    inner = self.sub_of(base, out)
                    extra = [] if v is LEAF else [self.sub_of(v, out), v]
                    out.append(('choice', ('store', inner, extra), ('skip',)))
                    out.append(('store', base, extra))
            elif isinstance(t, ast.Attribute):
                base = self.ev(t.value, out)
                if base is not LEAF:
                    out.append(('store', base, [] if v is LEAF else [v]))
        elif isinstance(st, ast.Delete):
            for t in st.targets:
                if isinstance(t, ast.Subscript):
                    base = self.ev(t.value, out)
                    if base is not LEAF:
                        out.append(('store', base, []))
                elif isinstance(t, ast.Name):
                    pass
        elif isinstance(st, ast.Return):
            if st.value is None:
                return
            v = self.ev(st.value, out)
            if v is LEAF:
                return
            if f.top:
                out.append(('ret', v))
            else:
                out.append(('choice', ('alias', f.res, v), ('skip',)))
        elif isinstance(st, ast.If):
            c = self.test_const(st.test)
            if c is True:
                self.block(st.body, out)
                return
            if c is False:
                self.block(st.orelse, out)
                return
            self.ev(st.test, out)
            a, b = [], []
            self.block(st.body, a)
            self.block(st.orelse, b)
            out.append(('choice', S_seq(a), S_seq(b)))
        elif isinstance(st, (ast.For, ast.AsyncFor)):
            it = self.ev(st.iter, out)
            body = []
            self.bind_iter(st.target, st.iter, it, body)
            self.block(st.body, body)
            out.append(('loop', S_seq(body)))
            if st.orelse:
                o = []
                self.block(st.orelse, o)
                out.append(('choice', S_seq(o), ('skip',)))
        elif isinstance(st, ast.While):
            body = []
            self.ev(st.test, body)
            self.block(st.body, body)
            out.append(('loop', S_seq(body)))
            self.ev(st.test, out)
            if st.orelse:
                o = []
                self.block(st.orelse, o)
                out.append(('choice', S_seq(o), ('skip',)))
        elif isinstance(st, (ast.With, ast.AsyncWith)):
            for it in st.items:
                v = self.ev(it.context_expr, out)
                if it.optional_vars is not None:
                    self.store_target(it.optional_vars, v, out)
            self.block(st.body, out)
        elif isinstance(st, ast.Try) or type(st).__name__ == 'TryStar':
            for s in st.body:
                o = []
                self.block([s], o)
                out.append(('choice', S_seq(o), ('skip',)))
            for h in st.handlers:
                o = []
                self.block(h.body, o)
                out.append(('choice', S_seq(o), ('skip',)))
            for part in (st.orelse, st.finalbody):
                o = []
                self.block(part, o)
                out.append(('choice', S_seq(o), ('skip',)))
        elif isinstance(st, ast.Raise):
            if st.exc is not None:
                self.ev(st.exc, out)
        elif isinstance(st, ast.Assert):
            self.ev(st.test, out)
        elif isinstance(st, (ast.Pass, ast.Break, ast.Continue, ast.Import, ast.ImportFrom, ast.Global, ast.Nonlocal)):
            if isinstance(st, (ast.Global, ast.Nonlocal)):
                self.ctx.notes.add('global/nonlocal in %s' % f.fn.name)
        elif isinstance(st, (ast.FunctionDef, ast.ClassDef, ast.AsyncFunctionDef)):
            self.ctx.notes.add('nested definition %s in %s not analysed' % (st.name, f.fn.name))
        elif isinstance(st, ast.Match):
            for c in st.cases:
                o = []
                self.block(c.body, o)
                out.append(('choice', S_seq(o), ('skip',)))
        else:
            self.ctx.notes.add('statement %s not handled in %s' % (type(st).__name__, f.fn.name))


def skeleton(world, rel, fname, tracked=None, consts=None, label=None):
    """skeleton of function `fname` of module `rel`: the parameters named in `tracked` (default: all parameters without a
    default value) hold caller containers; the other parameters are immutable; `consts` fixes boolean parameters"""
    mod = world.module(rel)
    if fname not in mod.funcs:
        raise GenError('%s: function %s not found' % (rel, fname))
    fn = mod.funcs[fname]
    names = [a.arg for a in fn.args.args]
    nd = len(fn.args.defaults)
    if tracked is None:
        tracked = names[:len(names) - nd]
    ctx = Ctx(world, label or '%s.%s' % (rel[:-3].replace('/', '.'), fname))
    fr = Frame(ctx, mod, fn, 0, [(rel, fname)])
    tr = Tr(fr)
    for nm in tracked:
        fr.var(nm)
    if fn.args.vararg:
        fr.var(fn.args.vararg.arg)
        tracked = list(tracked) + [fn.args.vararg.arg]
    cs = {}
    dnames = names[len(names) - nd:] if nd else []
    for nm, d in zip(dnames, fn.args.defaults):
        try:
            v = ast.literal_eval(d)
        except Exception:
            continue
        if isinstance(v, bool) or v is None:
            cs[nm] = v
    cs.update(consts or {})
    fr.consts = {k: v for k, v in cs.items() if k not in tracked}
    tr.compute_leafnames([n for n in names if n not in tracked])
    body = []
    tr.block(fn.body, body)
    params = [fr.vars[nm] for nm in tracked]
    return ctx, params, S_seq(body)


def render(s, ind=2):
    k = s[0]
    pad = ' ' * ind
    if k == 'skip':
        return pad + '.skip'
    if k == 'ref':
        return pad + s[1]
    if k == 'deepcopy':
        return pad + '.deepcopy %d %d' % (s[1], s[2])
    if k == 'derive':
        return pad + '.derive %d %s' % (s[1], '[' + ', '.join(map(str, s[2])) + ']')
    if k == 'alias':
        return pad + '.alias %d %d' % (s[1], s[2])
    if k == 'sub':
        return pad + '.sub %d %d' % (s[1], s[2])
    if k == 'store':
        return pad + '.store %d %s' % (s[1], '[' + ', '.join(map(str, s[2])) + ']')
    if k == 'ret':
        return pad + '.ret %d' % s[1]
    if k == 'choice':
        return pad + '.choice\n' + wrap(s[1], ind + 2) + '\n' + wrap(s[2], ind + 2)
    if k == 'loop':
        return pad + '.loop\n' + wrap(s[1], ind + 2)
    if k == 'block':
        return pad + 'blk [\n' + ',\n'.join(render(x, ind + 2) for x in s[1]) + ']'
    raise GenError('render: ' + repr(s)[:80])


def wrap(s, ind):
    r = render(s, ind)
    pad = ' ' * ind
    return pad + '(' + r[len(pad):] + ')'


def count_shallow(s):
    """size of a statement, hoisted parts counting as one"""
    k = s[0]
    if k == 'choice':
        return 1 + count_shallow(s[1]) + count_shallow(s[2])
    if k == 'loop':
        return 1 + count_shallow(s[1])
    if k == 'block':
        return sum(count_shallow(x) for x in s[1])
    return 1


def count(s):
    k = s[0]
    if k in ('choice',):
        return 1 + count(s[1]) + count(s[2])
    if k == 'loop':
        return 1 + count(s[1])
    if k == 'block':
        return sum(count(x) for x in s[1])
    return 1


def targets(S):
    """the functions in the scope of C10 that are analysed statically: (module file, function, tracked parameters or None)"""
    T = []
    for rel in ('manip.py', 'sort.py'):
        for f in S.funcs(rel):
            if f.name.startswith('_'):
                continue
            T.append((rel, f.name, None))
    for rel in ('curate/compare.py', 'curate/diff.py'):
        for f in S.funcs(rel):
            if f.name.startswith('_') or f.name in ('diff_json_files',):
                continue
            T.append((rel, f.name, None))
    # writers: the function registered for each format
    wm = S.assign('writers/write.py', '_writer_map')
    wimports = {}
    for n in S.tree('writers/write.py').body:
        if isinstance(n, ast.ImportFrom) and n.level == 1:
            for al in n.names:
                wimports[al.asname or al.name] = (n.module, al.name)
    seen = set()
    for k, v in zip(wm.keys, wm.values):
        d = {ast.literal_eval(kk): vv for kk, vv in zip(v.keys, v.values)}
        fn = ast.unparse(d['function'])
        if fn in wimports and fn not in seen:
            seen.add(fn)
            T.append(('writers/%s.py' % wimports[fn][0], wimports[fn][1], None))
    T.append(('writers/write.py', 'write_formatted_basis_str', ['basis']))
    T.append(('validator.py', 'validate_data', ['data']))
    T.append(('refconverters/convert.py', 'convert_references', ['ref_data']))
    # the retrieval API: the element selection is the only container a caller hands in
    T.append(('api.py', 'get_basis', ['elements']))
    T.append(('api.py', 'get_references', ['elements']))
    T.append(('api.py', 'filter_basis_sets', ['elements']))
    return T


# functions that say in their documentation that they work in place on what they are given
DOCUMENTED_MUTATORS = {'manip.create_element_data', 'manip.remove_primitive'}


def gen_ownskel(S, info):
    world = World(S)
    rows = []
    rep = {}
    for rel, fname, tracked in targets(S):
        label = '%s.%s' % (rel[:-3].replace('/', '.'), fname)
        if label in DOCUMENTED_MUTATORS:
            continue
        try:
            ctx, params, body = skeleton(world, rel, fname, tracked)
        except RecursionError:
            raise GenError('skeleton of %s: recursion' % label)
        rows.append((label, params, body))
        rep[label] = dict(vars=ctx.nvars, nodes=count(body), unknown_callees=sorted(ctx.unknown), notes=sorted(ctx.notes))
    info['own_skeletons'] = len(rows)
    info['own_report'] = rep
    out = ['import BSEModel.Heap', '/-! generated from the function bodies of manip, sort, writers, curate.compare, curate.diff, validator, refconverters — do not edit -/',
           'set_option maxRecDepth 8192', 'namespace BSE.Gen.OwnSkel', 'open BSE.Heap', '',
           'def blk : List Stmt → Stmt', '  | [] => .skip', '  | [s] => s', '  | s :: rest => .seq s (blk rest)', '']
    names = []
    aux = [0]

    def hoist(st, prefix, defs):
        """large sub-statements become definitions of their own (the elaborator does not like very deep terms)"""
        k = st[0]
        if k == 'choice':
            st = ('choice', hoist(st[1], prefix, defs), hoist(st[2], prefix, defs))
        elif k == 'loop':
            st = ('loop', hoist(st[1], prefix, defs))
        elif k == 'block':
            st = ('block', [hoist(x, prefix, defs) for x in st[1]])
        if k in ('choice', 'loop', 'block') and count_shallow(st) > 120:
            aux[0] += 1
            nm = '%s_p%d' % (prefix, aux[0])
            defs.append('def %s : Stmt :=\n%s\n' % (nm, wrap(st, 2)))
            return ('ref', nm)
        return st

    for i, (label, params, body) in enumerate(rows):
        nm = 'sk_' + label.replace('.', '_')
        names.append(nm)
        defs = []
        body = hoist(body, nm, defs)
        out += defs
        out.append('def %s : Skel := { name := %s, params := [%s], body :=' % (nm, lstr(label), ', '.join(map(str, params))))
        out.append(wrap(body, 2) + ' }')
        out.append('')
    out.append('def all : List Skel := [' + ', '.join(names) + ']')
    out += ['', 'end BSE.Gen.OwnSkel', '']
    return '\n'.join(out)


SECTIONS = [('OwnSkel', gen_ownskel)]

if __name__ == '__main__':
    import sys
    from translate import Src
    S = Src(sys.argv[1] if len(sys.argv) > 1 else '/repo')
    info = {}
    txt = gen_ownskel(S, info)
    if len(sys.argv) > 2:
        open(sys.argv[2], 'w').write(txt)
    print(json.dumps(info, indent=1))
