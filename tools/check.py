#!/venv/bin/python
"""./check Cxx [--tier quick|thorough] [--replay FILE]   |   ./check --setup

Decision protocol of DESIGN.md section 4:
 1 regenerate BSEGen from the working tree      2 lake build model, driver, Props.Cxx
 3 axiom / forbidden-token audit                 4 correspondence + predicate on the real code
 5 evidence                                      6 verdict (VIOLATION / KNOWN-FINDING / ok)
exit 0 = held, 1 = violation, 2 = infrastructure trouble."""
import os, sys, json, time, re, subprocess, argparse, importlib, traceback, fcntl, glob

HERE = os.path.dirname(os.path.abspath(__file__))
sys.path.insert(0, HERE)
import common
from common import VERIF, LEAN

STD_AXIOMS = {'propext', 'Classical.choice', 'Quot.sound'}
FORBIDDEN = re.compile(r'\bsorry\b|\badmit\b|^\s*axiom\s|native_decide|bv_decide|implemented_by|\bunsafe\s|maxHeartbeats\s+0\b', re.M)
PROPS = ['C%02d' % i for i in range(1, 21)]


def sh(cmd, cwd=None, timeout=3600):
    t = time.time()
    p = subprocess.run(cmd, cwd=cwd, stdout=subprocess.PIPE, stderr=subprocess.STDOUT, timeout=timeout)
    return p.returncode, p.stdout.decode(errors='replace'), time.time() - t


class Lock:
    def __enter__(self):
        self.f = open(os.path.join(LEAN, '.buildlock'), 'w')
        fcntl.flock(self.f, fcntl.LOCK_EX)

    def __exit__(self, *a):
        fcntl.flock(self.f, fcntl.LOCK_UN)
        self.f.close()


def strip_comments(src):
    src = re.sub(r'/-.*?-/', ' ', src, flags=re.S)
    src = re.sub(r'--.*', ' ', src)
    src = re.sub(r'"(\\.|[^"\\])*"', '""', src)
    return src


def forbidden_hits():
    hits = []
    for d in ('BSEModel', 'BSEProofs', 'BSEGen', 'Driver'):
        for f in glob.glob(os.path.join(LEAN, d, '**', '*.lean'), recursive=True):
            s = strip_comments(open(f).read())
            for m in FORBIDDEN.finditer(s):
                hits.append('%s: %s' % (os.path.relpath(f, LEAN), m.group(0).strip()))
    return hits


def theorems_of(pid):
    """names (fully qualified) of the property theorems in Props/<pid>.lean + number of examples"""
    f = os.path.join(LEAN, 'BSEProofs', 'Props', pid + '.lean')
    src = strip_comments(open(f).read())
    ns = []
    names = []
    nex = 0
    for line in src.split('\n'):
        m = re.match(r'\s*namespace\s+(\S+)', line)
        if m:
            ns.append(m.group(1))
            continue
        m = re.match(r'\s*end\s+(\S+)\s*$', line)
        if m and ns and ns[-1].split('.')[-1] == m.group(1).split('.')[-1]:
            ns.pop()
            continue
        m = re.match(r'\s*(?:@\[[^\]]*\]\s*)?(?:private\s+|protected\s+)?(theorem|lemma)\s+([^\s:({\[]+)', line)
        if m:
            names.append('.'.join(ns + [m.group(2)]))
        if re.match(r'\s*example\b', line):
            nex += 1
    return names, nex


def audit(pid):
    """returns (theorem -> axioms list, problems)"""
    names, nex = theorems_of(pid)
    os.makedirs(os.path.join(LEAN, '.audit'), exist_ok=True)
    af = os.path.join(LEAN, '.audit', 'Audit_%s.lean' % pid)
    with open(af, 'w') as fh:
        fh.write('import BSEProofs.Props.%s\n' % pid)
        for n in names:
            fh.write('#print axioms %s\n' % n)
    rc, out, dt = sh(['lake', 'env', 'lean', af], cwd=LEAN, timeout=1800)
    axioms = {}
    problems = []
    for m in re.finditer(r"'([^']+)' depends on axioms: \[([^\]]*)\]", out):
        axioms[m.group(1)] = [a.strip() for a in m.group(2).replace('\n', ' ').split(',') if a.strip()]
    for m in re.finditer(r"'([^']+)' does not depend on any axioms", out):
        axioms[m.group(1)] = []
    if rc != 0:
        problems.append('audit file failed to elaborate: ' + out[-800:])
    for n in names:
        if n not in axioms:
            problems.append('no axiom report for theorem ' + n)
        else:
            bad = [a for a in axioms[n] if a not in STD_AXIOMS]
            if bad:
                problems.append('theorem %s depends on non-standard axioms %s' % (n, bad))
    return names, nex, axioms, problems


def generate():
    sys.path.insert(0, os.path.join(HERE, 'gen'))
    import translate
    return translate.run(common.repo_path(), os.path.join(LEAN, 'BSEGen'))


def first_error(out):
    m = re.search(r'error: ([^\n]*\n(?:.*\n){0,12})', out)
    return (m.group(0) if m else out[-1500:])[:2500]


def load_known(pid):
    f = os.path.join(VERIF, 'known_findings.json')
    if not os.path.isfile(f):
        return []
    return [e for e in json.load(open(f))['findings'] if e['property'] == pid and e.get('status') == 'known']


def matches(entry, v):
    if entry.get('rule') != v['rule'] or entry.get('site') != v['site']:
        return False
    for k, want in entry.get('match', {}).items():
        have = v['fields'].get(k)
        if isinstance(want, list):
            if have not in want:
                return False
        elif have != want:
            return False
    return True


def write_replay(pid, seed, idx, payload):
    os.makedirs(os.path.join(VERIF, 'replays'), exist_ok=True)
    rel = os.path.join('replays', '%s-seed%d-%d.json' % (pid, seed, idx))
    with open(os.path.join(VERIF, rel), 'w') as fh:
        json.dump(payload, fh, indent=1, sort_keys=True, default=str)
    return rel


def setup():
    with Lock():
        try:
            generate()
        except Exception:
            traceback.print_exc()
            return 2
        rc, out, dt = sh(['lake', 'build'], cwd=LEAN, timeout=7200)
        print(out[-3000:])
        print('setup: lake build rc=%d %.0fs' % (rc, dt))
        return 0 if rc == 0 else 2


def main():
    ap = argparse.ArgumentParser()
    ap.add_argument('pid', nargs='?')
    ap.add_argument('--setup', action='store_true')
    ap.add_argument('--tier', default=os.environ.get('VERIF_TIER') or 'quick')
    ap.add_argument('--replay')
    a = ap.parse_args()
    if a.setup:
        sys.exit(setup())
    pid = a.pid
    if pid not in PROPS:
        print('unknown property', pid)
        sys.exit(2)
    tier = os.environ.get('VERIF_TIER') or a.tier
    if tier not in ('quick', 'thorough'):
        tier = 'quick'
    try:
        seed = int(os.environ.get('VERIF_SEED', '0'))
    except ValueError:
        seed = 0
    t0 = time.time()
    ctx = common.Ctx(pid, tier, seed)
    try:
        mod = importlib.import_module('harness.' + pid.lower())
    except Exception:
        traceback.print_exc()
        sys.exit(2)

    if a.replay:
        payload = json.load(open(a.replay))
        try:
            ok = mod.replay(ctx, payload)
        finally:
            ctx.cleanup()
        print('replay: property %s on this tree' % ('HOLDS' if ok else 'FAILS'))
        sys.exit(0 if ok else 1)

    broken = []      # (kind, what) : proof obligations / ties that no longer check
    timing = {}
    names, nex, axioms = [], 0, {}
    with Lock():
        # 1 regenerate the generated part of the model from the source as it is now
        try:
            t = time.time()
            ginfo = generate()
            timing['generate_s'] = round(time.time() - t, 2)
        except Exception as e:
            ginfo = {}
            broken.append(('translator', 'tools/gen/translate.py no longer extracts what the model depends on: %s' % (e,)))
        # 2 model + driver
        rc, out, dt = sh(['lake', 'build', 'BSEModel', 'BSEGen', 'bsedrv'], cwd=LEAN)
        timing['build_model_s'] = round(dt, 2)
        if rc != 0:
            ctx.model_ok = False
            broken.append(('model-build', 'BSEModel/BSEGen/driver no longer build against the regenerated BSEGen: ' + first_error(out)))
        # 3 the property theorems, re-checked against what the code says now
        rc, out, dt = sh(['lake', 'build', 'BSEProofs.Props.' + pid], cwd=LEAN)
        timing['build_props_s'] = round(dt, 2)
        if rc != 0:
            broken.append(('proof', 'BSEProofs.Props.%s no longer checks: %s' % (pid, first_error(out))))
            names, nex = theorems_of(pid)
        else:
            # 4 audit
            names, nex, axioms, problems = audit(pid)
            for p in problems:
                broken.append(('audit', p))
        hits = forbidden_hits()
        if hits:
            broken.append(('audit', 'forbidden tokens: ' + '; '.join(hits[:10])))
        if tier == 'thorough' and not broken:
            rc, out, dt = sh(['lake', 'env', 'leanchecker', 'BSEProofs.Props.' + pid], cwd=LEAN, timeout=3600)
            timing['leanchecker_s'] = round(dt, 2)
            if rc != 0:
                broken.append(('leanchecker', out[-1500:]))
    discharged = len([n for n in names if n in axioms and set(axioms[n]) <= STD_AXIOMS]) if not any(k == 'proof' for k, _ in broken) else 0

    # 5 correspondence + property predicate on the real code (this is also the failing-input search)
    if broken:
        ctx.search_boost = 4
    infra = None
    try:
        res = mod.run(ctx)
    except common.DriverError as e:
        res = common.Result(pid)
        if ctx.model_ok:
            infra = 'driver: %s' % e
        else:
            broken.append(('driver', str(e)))
    except Exception:
        traceback.print_exc()
        res = common.Result(pid)
        infra = 'harness crashed'
    finally:
        ctx.cleanup()

    # 6 verdict
    known = load_known(pid)
    seen = {i: 0 for i in range(len(known))}
    new_viol = []
    for v in res.violations:
        hit = False
        for i, e in enumerate(known):
            if matches(e, v):
                seen[i] += 1
                hit = True
                break
        if not hit:
            new_viol.append(v)
    for i, e in enumerate(known):
        print('KNOWN-FINDING: property=%s %s [seen this run: %d]' % (pid, e['what'], seen[i]))
    lines = []
    nrep = 0
    # distinct new violations (by rule+site), at most 5 replays
    by = {}
    for v in new_viol:
        by.setdefault((v['rule'], v['site']), []).append(v)
    for (rule, site), vs in by.items():
        if nrep >= 5:
            break
        rel = write_replay(pid, seed, nrep, dict(property=pid, kind='violation', rule=rule, site=site, what=vs[0]['what'],
                                                 witness=vs[0]['witness'], fields=vs[0]['fields'], count=len(vs)))
        nrep += 1
        lines.append('VIOLATION property=%s replay=%s' % (pid, rel))
        print('  %s at %s: %s (%d cases)' % (rule, site, vs[0]['what'], len(vs)))
    if res.disagreements:
        broken.append(('correspondence', '%d inputs on which the Lean model and the implementation differ, first: op=%s %s'
                       % (len(res.disagreements), res.disagreements[0]['op'], res.disagreements[0].get('note', ''))))
    if broken and not new_viol:
        payload = dict(property=pid, kind='unproved', broken=[dict(kind=k, what=w) for k, w in broken],
                       disagreements=res.disagreements[:3],
                       searched=dict(evaluations=res.evaluations, distinct_nontrivial=len(res.nontrivial)))
        rel = write_replay(pid, seed, nrep, payload)
        lines.append('VIOLATION property=%s replay=%s no-failing-input-found' % (pid, rel))
    for k, w in broken:
        print('BROKEN[%s]: %s' % (k, w[:1500]))

    wall = time.time() - t0
    ev = dict(
        property_id=pid, tier=tier, seed=seed, level=getattr(mod, 'LEVEL', 'proof'),
        coverage=dict(
            obligations=max(1, len(names)), discharged=discharged,
            checker_cmd='cd lean && lake build BSEProofs.Props.%s && lake env lean .audit/Audit_%s.lean  (#print axioms of every theorem)%s'
                        % (pid, pid, '; lake env leanchecker BSEProofs.Props.' + pid if tier == 'thorough' else ''),
            trusted_base=['Lean 4.33 kernel', 'axioms: propext, Classical.choice, Quot.sound only (audited this run)',
                          'tools/gen/translate.py (regenerated BSEGen this run)', 'tools/harness/%s.py + Driver (correspondence)' % pid.lower()]
                         + list(getattr(mod, 'TRUSTED', [])),
            theorems=names, nonvacuity_examples=nex,
            axioms={k: v for k, v in axioms.items()},
            evaluations=max(res.evaluations, 0), distinct_nontrivial=len(res.nontrivial),
            rule=getattr(mod, 'RULE', ''), samples=res.samples or ['(none: harness did not run)'],
            histogram=res.hist, correspondence_disagreements=len(res.disagreements),
            known_findings_seen={known[i]['id']: n for i, n in seen.items()},
            generated=ginfo, timing=timing, notes=res.notes, **res.extra),
        assumptions=list(getattr(mod, 'ASSUMPTIONS', [])),
        wall_s=round(wall, 2), violations=len(new_viol) + (1 if (broken and not new_viol) else 0))
    if res.exhaustive is not None:
        ev['coverage']['exhaustive'] = bool(res.exhaustive)
    os.makedirs(os.path.join(VERIF, 'evidence'), exist_ok=True)
    with open(os.path.join(VERIF, 'evidence', pid + '.json'), 'w') as fh:
        json.dump(ev, fh, indent=1, sort_keys=True, default=str)

    if infra and not lines:
        print('INFRASTRUCTURE: ' + infra)
        sys.exit(2)
    for l in lines:
        print(l)
    print('%s %s seed=%d: %d theorems (%d discharged), %d evaluations, %d distinct non-trivial, %d violations, %.0fs'
          % (pid, tier, seed, len(names), discharged, res.evaluations, len(res.nontrivial), len(lines), wall))
    sys.exit(1 if lines else 0)


if __name__ == '__main__':
    main()
