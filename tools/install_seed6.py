#!/venv/bin/python
"""usage: install_seed3.py <seed id> <how the check reported it>   — copies a confirmed round-6 seeded change from /tmp/r6/out/<id> into /verif/seeded/r6_<id>/"""
import sys, os, json, shutil, re
sid, how = sys.argv[1], sys.argv[2]
src = '/tmp/r6/out/' + sid
dst = '/verif/seeded/r6_' + sid
os.makedirs(dst, exist_ok=True)
shutil.copy(src + '/patch.diff', dst + '/patch.diff')
shutil.copy(src + '/demo.py', dst + '/demo.py')
notes = open(src + '/notes.md').read()
pid = sid.split('_')[0]


def rd(name):
    p = os.path.join(src, name)
    return open(p).read().strip().split('\n') if os.path.isfile(p) else []


files = sorted(set(re.findall(r'^\+\+\+ b/(\S+)', open(src + '/patch.diff').read(), re.M)))
meta = dict(
    property=pid, breaks_property=pid, round=6,
    written_by='independent sub-agent given only the text of the property and its own scratch git worktree of /repo (nothing from /verif)',
    files=files,
    notes_of_the_author=notes[:6000],
    confirmed_by_main_session=dict(
        where='scratch worktree /tmp/r6/confirm_wt of /repo HEAD (removed afterwards)',
        demo=rd('confirm_stage1.txt'),
        suite=rd('confirm_stage2.txt'),
        suite_note='the whole non-slow suite (one pytest process per test file, PYTHONPATH = the scratch tree so that the CLI sub-processes import it too) was run on trees '
                   'holding several seeded changes at once; a combined tree without a new failure confirms each member. Baseline: 19023 tests, 107 failures '
                   'caused by the data files emptied in this sandbox.'),
    ran='git -C /repo apply seeded/r6_%s/patch.diff ; ./check %s ; git -C /repo checkout -- .' % (sid, pid),
    detected_by=[pid], detection=how)
json.dump(meta, open(dst + '/meta.json', 'w'), indent=1)
print('installed', dst)
