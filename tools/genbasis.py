"""Structured generator of mostly-valid basis dictionaries ('complete' form, as get_basis returns them),
built from the repo's own schema: fused sp/spd shells, shared exponents across shells, block-general
contractions, zero-padded coefficients, mixed number notations, high angular momentum, ECPs and
ECP-only elements.  Every random choice comes from the rng that is passed in."""
from fractions import Fraction


def num(rng, lo=-3, hi=5, neg=False, sig=None):
    """a decimal string with <= 9 significant digits (float-faithful), in a random notation"""
    sig = sig or rng.randrange(1, 9)
    m = rng.randrange(10 ** (sig - 1), 10 ** sig)
    e = rng.randrange(lo, hi)
    v = Fraction(m, 10 ** (sig - 1)) * Fraction(10) ** e
    return fmt_num(rng, v, neg and rng.random() < 0.5)


def fmt_num(rng, v, negative=False):
    from decimal import Decimal
    d = Decimal(v.numerator) / Decimal(v.denominator)
    style = rng.randrange(5)
    if style == 0:
        s = '{:.8E}'.format(d)
    elif style == 1:
        s = '{:.10e}'.format(d)
    elif style == 2:
        s = format(d, 'f')
        if '.' not in s:
            s += '.0'
    elif style == 3:
        mant, ex = '{:.9E}'.format(d).split('E')
        s = mant + rng.choice(['E', 'e']) + '%+03d' % int(ex)
    else:
        s = format(d.normalize(), 'f') if abs(d) < 10 ** 7 and abs(d) > Decimal('1e-6') else '{:.8E}'.format(d)
        if '.' not in s and 'E' not in s:
            s += '.0'
    # the formatted string must denote exactly v
    if Fraction(Decimal(s)) != v:
        s = '{:.12E}'.format(d)
        if Fraction(Decimal(s)) != v:
            s = format(d, 'f')
    return ('-' if negative else '') + s


ZERO_FORMS = ['0.0', '0.00000000', '0.0000000E+00', '0.0E+00', '0.000']


def exps_desc(rng, n, top=None):
    """n distinct positive exponents, decreasing"""
    out = []
    seen = set()
    e = top or rng.randrange(1, 6)
    while len(out) < n:
        s = num(rng, e - 1, e)
        from decimal import Decimal
        v = Fraction(Decimal(s))
        if v not in seen and v > 0:
            seen.add(v)
            out.append((v, s))
        e -= rng.choice([0, 1, 1])
    out.sort(key=lambda t: -t[0])
    return [s for _, s in out]


def ftype_for(am, harm, base='gto'):
    return base if max(am) < 2 else base + '_' + harm


def gen_shell(rng, am, harm, nprim=None, ngen=None, zero_pad=0.25, region=None):
    nprim = nprim or rng.choice([1, 1, 2, 3, 3, 4, 6, 8])
    ex = exps_desc(rng, nprim)
    if len(am) > 1:
        ngen = len(am)
    else:
        ngen = ngen or rng.choice([1, 1, 1, 2, 3])
        ngen = min(ngen, nprim) if rng.random() < 0.8 else ngen
    cols = []
    seen = set()
    tries = 0
    while len(cols) < ngen and tries < 50:
        tries += 1
        col = []
        for i in range(nprim):
            if nprim > 1 and rng.random() < zero_pad:
                col.append(rng.choice(ZERO_FORMS))
            elif rng.random() < 0.04:
                # a real but tiny coefficient (the store has them: cc-pVDZ-DK3 / Ho, aug-cc-pVTZ-J / Ni): it is not a zero
                col.append(num(rng, -24, -13, neg=True))
            else:
                col.append(num(rng, -3, 1, neg=True))
        if nprim >= 2 and rng.random() < 0.05:
            # a contraction whose coefficients cancel exactly (c and -c, possibly a third entry that sits on a primitive shared with a
            # free function): "is this column all zero" must look at every entry, not at their sum
            i, j = rng.sample(range(nprim), 2)
            c = num(rng, -2, 0, neg=False).strip()
            col = [rng.choice(ZERO_FORMS) for _ in range(nprim)]
            col[i], col[j] = c, '-' + c
        from decimal import Decimal
        key = tuple(Fraction(Decimal(c)) for c in col)
        if all(k == 0 for k in key):
            continue
        if key in seen and len(am) == 1:
            continue
        seen.add(key)
        cols.append(col)
    # no unused primitive: every row needs a non-zero entry somewhere
    from decimal import Decimal
    for i in range(nprim):
        if all(Fraction(Decimal(c[i])) == 0 for c in cols):
            cols[rng.randrange(len(cols))][i] = num(rng, -2, 1, neg=True)
    # duplicates may have been created by the repair; drop exact duplicate columns (single am)
    if len(am) == 1:
        uniq = []
        keys = set()
        for c in cols:
            k = tuple(Fraction(Decimal(x)) for x in c)
            if k not in keys:
                keys.add(k)
                uniq.append(c)
        cols = uniq
    if rng.random() < 0.3 and nprim > 1:
        # primitives in arbitrary order (the store has such shells too)
        perm = list(range(nprim))
        rng.shuffle(perm)
        ex = [ex[i] for i in perm]
        cols = [[c[i] for i in perm] for c in cols]
    return dict(function_type=ftype_for(am, harm), region=region if region is not None else rng.choice(['', '', '', 'valence', 'polarization', 'diffuse']),
                angular_momentum=list(am), exponents=ex, coefficients=cols)


def gen_block_general(rng, l, harm):
    """a generally contracted shell with free primitives as extra unit columns (cc-pVXZ style)"""
    nprim = rng.randrange(3, 9)
    ex = exps_desc(rng, nprim)
    ncon = rng.randrange(1, 3)
    cols = []
    for _ in range(ncon):
        cols.append([num(rng, -3, 1, neg=True) if i < nprim - 1 or rng.random() < 0.5 else rng.choice(ZERO_FORMS) for i in range(nprim)])
    nfree = rng.randrange(0, 3)
    doomed = nprim >= 4 and rng.random() < 0.25
    if doomed:
        nfree = 3
    rows = rng.sample(range(nprim), min(nfree, nprim))
    if doomed:
        # a contraction built only of primitives that are also free functions: optimize_general empties and drops it, and the
        # free primitives listed after it must survive that
        cols.append([num(rng, -2, 1, neg=True) if i in rows[:2] else rng.choice(ZERO_FORMS) for i in range(nprim)])
    for r in rows:
        cols.append([rng.choice(['1.0', '1.00000000', '1.0000000E+00']) if i == r else rng.choice(ZERO_FORMS) for i in range(nprim)])
    from decimal import Decimal
    for i in range(nprim):
        if all(Fraction(Decimal(c[i])) == 0 for c in cols):
            cols[0][i] = num(rng, -2, 1, neg=True)
    return dict(function_type=ftype_for([l], harm), region='', angular_momentum=[l], exponents=ex, coefficients=cols)


def gen_ecp(rng, maxl=None, shape='full'):
    """shape: 'full' = one potential for every l in 0..maxl (as in every ECP of the store); 'gap' = one l below the top missing;
    'single' = only the top (local) potential.  The validator accepts all three."""
    maxl = maxl if maxl is not None else rng.randrange(2 if shape == 'gap' else 1, 5)
    pots = []
    ls = list(range(maxl + 1))
    if shape == 'gap':
        ls.remove(rng.randrange(0, maxl))
    elif shape == 'single':
        ls = [maxl]
    for l in ls:
        n = rng.randrange(1, 4)
        pots.append(dict(ecp_type='scalar_ecp', angular_momentum=[l], r_exponents=[rng.choice([0, 1, 2]) for _ in range(n)],
                         gaussian_exponents=[num(rng, -1, 3) for _ in range(n)], coefficients=[[num(rng, -2, 3, neg=True) for _ in range(n)]]))
    if rng.random() < 0.3:
        # the placeholder the store uses: the highest momentum has a single term with a zero coefficient
        top = pots[-1]
        top['r_exponents'] = [2]
        top['gaussian_exponents'] = ['1.0000000']
        top['coefficients'] = [['0.0000000']]
    rng.shuffle(pots)
    return pots, rng.choice([2, 10, 18, 28, 36, 46, 60, 78])


def gen_element(rng, harm, kind=None, maxl=None):
    kind = kind or rng.choice(['plain', 'plain', 'pople', 'general', 'shared', 'ecp', 'ecponly', 'highl'])
    el = {}
    shells = []
    if kind != 'ecponly':
        maxl = maxl if maxl is not None else (rng.choice([7, 8, 9, 11]) if kind == 'highl' else rng.randrange(0, 4))
        # momenta contiguous from s upwards, as in every real basis set (positional formats cannot express a gap)
        ls = list(range(maxl + 1))
        for l in ls:
            if kind == 'pople' and l == 0:
                shells.append(gen_shell(rng, [0], harm, nprim=rng.randrange(2, 7), ngen=1, zero_pad=0))
                shells.append(gen_shell(rng, [0, 1], harm, nprim=rng.randrange(1, 4), zero_pad=0))
                if rng.random() < 0.4:
                    shells.append(gen_shell(rng, [0, 1, 2], harm, nprim=rng.randrange(1, 4), zero_pad=0))
                continue
            if kind == 'pople' and l == 1:
                continue
            if kind == 'general':
                shells.append(gen_block_general(rng, l, harm))
                continue
            for _ in range(rng.choice([1, 1, 2, 3])):
                shells.append(gen_shell(rng, [l], harm))
            if kind == 'shared' and len(shells) >= 1:
                # a further shell of the same momentum re-using some exponents of the previous one
                prev = shells[-1]
                k = rng.randrange(1, len(prev['exponents']) + 1)
                ex = prev['exponents'][:k]
                if rng.random() < 0.5:
                    ex = [respell(rng, x) for x in ex]
                extra = exps_desc(rng, rng.randrange(0, 3), top=-3)
                ex = ex + [x for x in extra]
                # one to three contractions: a generally contracted shell that shares primitives with an earlier shell makes the
                # merging code fold rows with several non-zero coefficients
                ncol = rng.choice([1, 1, 2, 3])
                shells.append(dict(function_type=prev['function_type'], region=rng.choice(['', 'diffuse']), angular_momentum=[l], exponents=ex,
                                   coefficients=[[num(rng, -2, 1, neg=True) for _ in ex] for _ in range(ncol)]))
        el['electron_shells'] = dedup_shells(shells)
    if kind in ('ecp', 'ecponly'):
        el['ecp_potentials'], el['ecp_electrons'] = gen_ecp(rng)
    elif kind in ('ecpgap', 'ecpsingle'):
        el['ecp_potentials'], el['ecp_electrons'] = gen_ecp(rng, shape=kind[3:])
    el['references'] = [dict(reference_description='generated', reference_keys=[])]
    return el


def respell(rng, s):
    from decimal import Decimal
    return fmt_num(rng, Fraction(Decimal(s)))


def dedup_shells(shells):
    out = []
    for s in shells:
        if s not in out:
            out.append(s)
    return out


def types_of(elements):
    t = set()
    for el in elements.values():
        for sh in el.get('electron_shells', []):
            t.add(sh['function_type'])
        for p in el.get('ecp_potentials', []):
            t.add(p['ecp_type'])
    return sorted(t)


def gen_basis(rng, nel=None, kinds=None, name=None):
    harm = rng.choice(['spherical', 'spherical', 'cartesian'])
    nel = nel or rng.randrange(1, 4)
    zs = sorted(rng.sample(range(1, 104), nel))
    els = {}
    for z in zs:
        els[str(z)] = gen_element(rng, harm, kind=(rng.choice(kinds) if kinds else None))
    if not any('electron_shells' in e for e in els.values()) and rng.random() < 0.7:
        els[str(zs[0])] = gen_element(rng, harm, kind='plain')
    nm = name or 'GEN-%06d' % rng.randrange(10 ** 6)
    return dict(molssi_bse_schema=dict(schema_type='complete', schema_version='0.1'), name=nm, names=[nm], version='1',
                description='generated basis ' + nm, revision_date='2026-01-01', revision_description='generated', family='generated', tags=[],
                role='orbital', auxiliaries={}, function_types=types_of(els), elements=els)
