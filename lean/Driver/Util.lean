import Lean.Data.Json
/-! JSON helpers of the line-protocol driver -/
open Lean

namespace BSE.Drv

abbrev Handler := Json → Except String Json

def getStr (j : Json) (k : String) : Except String String := do (← j.getObjVal? k).getStr?
def getNat (j : Json) (k : String) : Except String Nat := do (← j.getObjVal? k).getNat?
def getInt (j : Json) (k : String) : Except String Int := do (← j.getObjVal? k).getInt?
def getBool (j : Json) (k : String) : Except String Bool := do (← j.getObjVal? k).getBool?
def getArr (j : Json) (k : String) : Except String (List Json) := do
  pure (← (← j.getObjVal? k).getArr?).toList
def natList (j : Json) : Except String (List Nat) := do (← j.getArr?).toList.mapM (·.getNat?)
def strList (j : Json) : Except String (List String) := do (← j.getArr?).toList.mapM (·.getStr?)
def getNatList (j : Json) (k : String) : Except String (List Nat) := do natList (← j.getObjVal? k)
def getStrList (j : Json) (k : String) : Except String (List String) := do strList (← j.getObjVal? k)

def optJson {α} (f : α → Json) : Option α → Json
  | none => Json.null
  | some a => f a

def chars (s : String) : List Char := s.toList
def str (l : List Char) : String := String.ofList l

def obj (kvs : List (String × Json)) : Json := Json.mkObj kvs

end BSE.Drv
