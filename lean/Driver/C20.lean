import Driver.Util
import BSEModel.Notation
open Lean BSE.Drv BSE.Notation

namespace BSE.Drv.C20

def errStr : Err → String
  | .runtime => "RuntimeError" | .key => "KeyError" | .value => "ValueError" | .type => "TypeError"

def handlers : List (String × Handler) := [
  ("compact", fun j => do
    let els ← getNatList j "els"
    pure (obj [("out", optJson (fun s => Json.str (str s)) (compactElements els))])),
  ("expand", fun j => do
    let s ← getStr j "s"
    match expandStr (chars s) with
    | .ok l => pure (obj [("ok", toJson l)])
    | .error e => pure (obj [("err", errStr e)])),
  ("lut", fun j => do
    let z ← getNat j "z"
    pure (obj [("sym", optJson (fun s => Json.str (str s)) (symFromZ z)),
               ("symN", optJson (fun s => Json.str (str s)) (symFromZNorm z)),
               ("name", optJson (fun s => Json.str (str s)) (nameFromZ z))])),
  ("z_from", fun j => do
    let s ← getStr j "s"
    pure (obj [("sym", optJson (fun (n : Nat) => toJson n) (zFromSym (chars s))),
               ("name", optJson (fun (n : Nat) => toJson n) (zFromName (chars s)))])),
  ("am_char", fun j => do
    let l ← getNat j "l"
    let hij ← getBool j "hij"
    pure (obj [("c", optJson (fun c => Json.str (String.singleton c)) (amChar hij l))])),
  ("am_int", fun j => do
    let s ← getStr j "c"
    let hij ← getBool j "hij"
    match chars s with
    | [c] => pure (obj [("l", optJson (fun (n : Nat) => toJson n) (amInt hij c))])
    | _ => throw "am_int wants one character"),
  ("shells_start", fun j => do
    let n ← getNat j "n"
    pure (obj [("start", optJson (fun (l : List Nat) => toJson l) (shellsStart n))])),
  ("name", fun j => do
    let s ← getStr j "s"
    pure (obj [("file", str (transformName (chars s))), ("back", str (nameFromFile (str (transformName (chars s))).toList))])),
  ("from_file", fun j => do
    let s ← getStr j "s"
    pure (obj [("name", str (nameFromFile (chars s)))])),
  ("contraction", fun j => do
    let shells ← getArr j "shells"
    let shells ← shells.mapM fun sh => do
      let ams ← getNatList sh "am"
      let np ← getNat sh "nprim"
      let ng ← getNat sh "ngen"
      pure (ams, np, ng)
    let m := contMap shells
    pure (obj [("map", Json.arr (m.map fun (a, p, c) => toJson [a, p, c]).toArray)]))
]

end BSE.Drv.C20
