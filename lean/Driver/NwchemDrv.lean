import Driver.Util
import BSEModel.NwchemInst
import BSEModel.ReadWrite
open Lean BSE.Drv BSE.Nwchem

namespace BSE.Drv.NwchemDrv

/-- `is_floating` on a token the reader has already passed through `replace_d` -/
def isNumTok (s : String) : Bool := BSE.ReadWrite.isFloatTok s.toList

def T : Tables String := realTables isNumTok

def lineJson : Line String → Json
  | .head ts => obj [("h", toJson (ts.map String.ofList))]
  | .row ts => obj [("r", toJson ts)]

def lineOf (j : Json) : Except String (Line String) :=
  match j.getObjVal? "h" with
  | .ok h => do pure (.head ((← strList h).map String.toList))
  | .error _ => do pure (.row (← strList (← j.getObjVal? "r")))

def shellOf (j : Json) : Except String (EShell String) := do
  let am ← getNatList j "am"
  let exps ← getStrList j "exps"
  let coefs ← (← getArr j "coefs").mapM strList
  pure { am := am, exps := exps, coefs := coefs }

def rshellJson (s : RShell String) : Json :=
  obj [("ftype", Json.str (String.ofList s.ftype)), ("am", toJson s.am), ("exps", toJson s.exps), ("coefs", toJson s.coefs)]

def isIntTok (s : String) : Bool :=
  let l := match s.toList with | '-' :: r => r | '+' :: r => r | r => r
  !l.isEmpty && l.all Char.isDigit

def TE : EcpTables String := { T with isInt := isIntTok, isDigits := fun s => !s.isEmpty && s.all Char.isDigit }

def potOf (j : Json) : Except String (EPot String) := do
  let am ← getNat j "am"
  let terms ← (← getArr j "terms").mapM fun t => do
    match ← strList t with
    | [a, b, c] => pure (a, b, c)
    | _ => throw "term"
  pure { am := am, terms := terms }

def rpotJson (p : RPot String) : Json :=
  obj [("am", match p.am with | some l => toJson l | none => Json.null), ("rexp", toJson p.rexp), ("gexp", toJson p.gexp), ("coef", toJson p.coef)]

def errName : RErr → String
  | .runtime => "RuntimeError" | .key => "KeyError" | .index => "IndexError"

def handlers : List (String × Handler) := [
  ("nwchem_write", fun j => do
    let harm ← getStr j "harm"
    let els ← (← getArr j "els").mapM fun e => do
      let z ← getNat e "z"
      let shells ← (← getArr e "shells").mapM shellOf
      pure (z, shells)
    pure (obj [("lines", Json.arr ((electronLines T harm.toList els).map lineJson).toArray)])),
  ("nwchem_read", fun j => do
    let lines ← (← getArr j "lines").mapM lineOf
    match readElectron T lines with
    | .ok r => pure (obj [("ok", Json.arr (r.map fun e => Json.arr #[toJson e.1, Json.arr (e.2.map rshellJson).toArray]).toArray)])
    | .error e => pure (obj [("raise", Json.str (errName e))])),
  ("nwchem_ecp_write", fun j => do
    let els ← (← getArr j "els").mapM fun e => do
      let z ← getNat e "z"
      let n ← getStr e "nelec"
      let pots ← (← getArr e "pots").mapM potOf
      pure (z, n.toList, pots)
    pure (obj [("lines", Json.arr ((ecpLines TE els).map lineJson).toArray)])),
  ("nwchem_ecp_read", fun j => do
    let lines ← (← getArr j "lines").mapM lineOf
    match readEcp TE lines with
    | .ok r => pure (obj [("ok", Json.arr (r.map fun e => Json.arr #[toJson e.1, Json.str (String.ofList e.2.1), Json.arr (e.2.2.map rpotJson).toArray]).toArray)])
    | .error e => pure (obj [("raise", Json.str (errName e))]))
]

end BSE.Drv.NwchemDrv
