import Driver.Util
import BSEModel.NwchemInst
import BSEModel.ReadWrite
open Lean BSE.Drv BSE.Nwchem

namespace BSE.Drv.NwchemDrv

/-- `is_floating` on a token the reader has already passed through `replace_d` -/
def isNumTok (s : String) : Bool := BSE.ReadWrite.isFloatTok s.toList

def T : Tables String := realTables isNumTok

def lineJson : Line String → Json
  | .head ts => obj [("h", toJson (ts.map String.ofList))]
  | .row ts => obj [("r", toJson ts)]

def lineOf (j : Json) : Except String (Line String) :=
  match j.getObjVal? "h" with
  | .ok h => do pure (.head ((← strList h).map String.toList))
  | .error _ => do pure (.row (← strList (← j.getObjVal? "r")))

def shellOf (j : Json) : Except String (EShell String) := do
  let am ← getNatList j "am"
  let exps ← getStrList j "exps"
  let coefs ← (← getArr j "coefs").mapM strList
  pure { am := am, exps := exps, coefs := coefs }

def rshellJson (s : RShell String) : Json :=
  obj [("ftype", Json.str (String.ofList s.ftype)), ("am", toJson s.am), ("exps", toJson s.exps), ("coefs", toJson s.coefs)]

def errName : RErr → String
  | .runtime => "RuntimeError" | .key => "KeyError" | .index => "IndexError"

def handlers : List (String × Handler) := [
  ("nwchem_write", fun j => do
    let harm ← getStr j "harm"
    let els ← (← getArr j "els").mapM fun e => do
      let z ← getNat e "z"
      let shells ← (← getArr e "shells").mapM shellOf
      pure (z, shells)
    pure (obj [("lines", Json.arr ((electronLines T harm.toList els).map lineJson).toArray)])),
  ("nwchem_read", fun j => do
    let lines ← (← getArr j "lines").mapM lineOf
    match readElectron T lines with
    | .ok r => pure (obj [("ok", Json.arr (r.map fun e => Json.arr #[toJson e.1, Json.arr (e.2.map rshellJson).toArray]).toArray)])
    | .error e => pure (obj [("raise", Json.str (errName e))]))
]

end BSE.Drv.NwchemDrv
