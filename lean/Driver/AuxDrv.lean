import Driver.Shells
import BSEModel.AutoAux
open Lean BSE.Drv BSE.AutoAux BSE.Drv.Shells

namespace BSE.Drv.AuxDrv

def ratList (j : Json) (k : String) : Except String (List Rat) := do (← getArr j k).mapM decodeRat

def handlers : List (String × Handler) := [
  ("autoaux_plan", fun j => do
    let z ← getNat j "Z"
    let amin ← ratList j "amin"
    let amaxp ← ratList j "amax_prim"
    let amaxe ← ratList j "amax_eff"
    let plan := autoauxPlan z amin amaxp amaxe 400
    pure (obj [("lval", toJson (lvalAux z)), ("linc", toJson (lincAux z)),
               ("plan", Json.arr (plan.map fun p => Json.arr #[toJson p.1, Json.arr (p.2.map ratJson).toArray]).toArray),
               ("bounds", Json.arr (plan.map fun p => Json.arr #[toJson p.1, ratJson (ladderParams z amin amaxp amaxe p.1).2.2]).toArray)])),
  ("autoabs_groups", fun j => do
    let z ← getNat j "Z"
    let lmax ← getNat j "lmax"
    let lmaxinc ← getNat j "lmaxinc"
    let fsam ← decodeRat (← j.getObjVal? "fsam")
    let cands ← (← getArr j "cands").mapM fun c => do
      match c with
      | .arr #[r, l] => do pure (← decodeRat r, ← l.getNat?)
      | _ => throw "candidate"
    let lmaxAux := lmaxAuxOf (lvalAbs z) lmaxinc lmax
    let gs := groupsAux fsam lmaxAux (cands.length + 1) cands 0
    pure (obj [("lmax_aux", toJson lmaxAux),
               ("groups", Json.arr (gs.map fun g => Json.arr #[Json.arr (g.1.map fun c => ratJson c.1).toArray, toJson g.2]).toArray)]))
]

end BSE.Drv.AuxDrv
