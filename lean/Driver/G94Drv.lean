import Driver.Util
import Driver.NwchemDrv
import BSEModel.G94Inst
open Lean BSE.Drv BSE.G94

namespace BSE.Drv.G94Drv
open BSE.Drv.NwchemDrv (isNumTok shellOf rshellJson errName)

def GT : GTables String := realGTables isNumTok

def glineJson : GLine String → Json
  | .head ts => obj [("h", toJson (ts.map String.ofList))]
  | .row ts => obj [("r", toJson ts)]
  | .stars => obj [("s", toJson true)]

def glineOf (j : Json) : Except String (GLine String) :=
  match j.getObjVal? "s" with
  | .ok _ => pure .stars
  | .error _ =>
    match j.getObjVal? "h" with
    | .ok h => do pure (.head ((← strList h).map String.toList))
    | .error _ => do pure (.row (← strList (← j.getObjVal? "r")))

def gerrName : GErr → String
  | .err e => errName e
  | .notImplemented => "NotImplementedError"
  | .unmodelled => "UNMODELLED"

def handlers : List (String × Handler) := [
  ("g94_write", fun j => do
    let z ← getNat j "z"
    let shells ← (← getArr j "shells").mapM shellOf
    pure (obj [("lines", Json.arr ((electronBlock GT z shells).map glineJson).toArray)])),
  ("g94_read", fun j => do
    let lines ← (← getArr j "lines").mapM glineOf
    match parseElectron GT lines with
    | .ok r => pure (obj [("ok", Json.arr #[toJson r.1, Json.arr (r.2.map rshellJson).toArray])])
    | .error e => pure (obj [("raise", Json.str (gerrName e))]))
]

end BSE.Drv.G94Drv

namespace BSE.Drv.G94Drv
open BSE.Drv.NwchemDrv (isNumTok isIntTok potOf rpotJson errName)

def ET : ETables String := realETables isNumTok isIntTok

def elineJson : ELine String → Json
  | .count n => obj [("c", Json.str n)]
  | .other ts => obj [("o", toJson ts)]

def elineOf (j : Json) : Except String (ELine String) :=
  match j.getObjVal? "c" with
  | .ok c => do pure (.count (← c.getStr?))
  | .error _ => do pure (.other (← strList (← j.getObjVal? "o")))

def ecpHandlers : List (String × Handler) := [
  ("g94_ecp_write", fun j => do
    let z ← getNat j "z"
    let n ← getStr j "nelec"
    let pots ← (← getArr j "pots").mapM potOf
    pure (obj [("lines", Json.arr ((ecpBlock ET z n pots).map elineJson).toArray)])),
  ("g94_ecp_read", fun j => do
    let lines ← (← getArr j "lines").mapM elineOf
    match parseEcpBlock ET lines with
    | .ok r => pure (obj [("ok", Json.arr #[toJson r.1, Json.str r.2.1, Json.arr (r.2.2.map rpotJson).toArray])])
    | .error e => pure (obj [("raise", Json.str (errName e))]))
]

end BSE.Drv.G94Drv
