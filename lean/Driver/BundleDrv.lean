import Driver.Util
import BSEModel.Bundle
open Lean BSE.Drv BSE.Bundle

namespace BSE.Drv.BundleDrv

def handlers : List (String × Handler) := [
  ("bundle_members", fun j => do
    let fmt ← getStr j "fmt"
    let reffmt ← getStr j "reffmt"
    let ext ← getStr j "ext"
    let refext ← getStr j "refext"
    let readme ← getStr j "readme"
    let entries ← (← getArr j "entries").mapM fun e => do
      pure ({ key := ← getStr e "key", ftypes := ← getStrList e "ftypes", versions := ← getStrList e "versions", notes := ← getStr e "notes" } : Entry)
    let dataL ← (← getArr j "data").mapM fun d => do
      match d with
      | .arr #[.str k, .str v, .str b, .str r] => pure (k, v, b, r)
      | _ => throw "data row"
    let fam ← (← getArr j "fam").mapM fun f => do
      match f with
      | .arr #[.str k, .str n] => pure (k, n)
      | _ => throw "fam row"
    let data : String → String → Option (String × String) := fun k v =>
      (dataL.find? (fun d => d.1 == k && d.2.1 == v)).map (fun d => (d.2.2.1, d.2.2.2))
    let ms := bundleMembers fmt reffmt ext refext readme entries data fam
    pure (obj [("members", Json.arr (ms.map fun m => Json.arr #[.str m.1, .str m.2]).toArray)]))
]

end BSE.Drv.BundleDrv
