import Driver.Util
import BSEModel.ManipOps
import BSEModel.Canon
import BSEModel.Validator
import BSEModel.Compare
import BSEModel.Augment
import BSEGen.Api
import BSEGen.Manip
open Lean BSE BSE.Drv

namespace BSE.Drv.Shells

def decodeShell (j : Json) : Except String (Shell String) := do
  let am ← getNatList j "angular_momentum"
  let ftype ← getStr j "function_type"
  let region ← getStr j "region"
  let exps ← getStrList j "exponents"
  let coefs ← (← getArr j "coefficients").mapM strList
  pure { am, ftype, region, exps, coefs }

def encodeShell (s : Shell String) : Json :=
  obj [("angular_momentum", toJson s.am), ("function_type", toJson s.ftype), ("region", toJson s.region),
    ("exponents", toJson s.exps), ("coefficients", toJson s.coefs)]

def decodeShells (j : Json) (k : String) : Except String (List (Shell String)) := do
  (← getArr j k).mapM decodeShell

def encodeShells (l : List (Shell String)) : Json := Json.arr (l.map encodeShell).toArray

def ratJson (q : Rat) : Json := Json.str s!"{q.num}/{q.den}"

def decodeRat (j : Json) : Except String Rat := do
  match (← j.getArr?).toList with
  | [n, d] => do
    let n ← n.getInt?
    let d ← d.getNat?
    if d == 0 then throw "zero denominator" else pure ((n : Rat) / (d : Rat))
  | _ => throw "rational wants [num, den]"

/-- all number tokens of the shells parse as decimals -/
def allParse (l : List (Shell String)) : Bool :=
  l.all fun sh => sh.exps.all (fun x => (parseNum x).isSome) && sh.coefs.all (·.all fun x => (parseNum x).isSome)

def lits : Lits String := { mgZero := Gen.Manip.mgZero, ogZero := Gen.Manip.ogZero, usegOne := Gen.Manip.usegOne }

def result (r : Except String (List (Shell String))) : Json :=
  match r with
  | .ok l => obj [("ok", encodeShells l)]
  | .error e => obj [("raise", Json.str e)]

def decodeOpts (j : Json) : Except String Opts := do
  let b (k : String) : Except String Bool := do
    match j.getObjVal? k with
    | .ok v => v.getBool?
    | .error _ => pure false
  let n (k : String) : Except String Nat := do
    match j.getObjVal? k with
    | .ok v => v.getNat?
    | .error _ => pure 0
  pure { uncontractGeneral := ← b "uncontract_general", uncontractSpdf := ← b "uncontract_spdf",
         uncontractSegmented := ← b "uncontract_segmented", removeFree := ← b "remove_free_primitives",
         makeGeneral := ← b "make_general", optimizeGeneral := ← b "optimize_general",
         augmentDiffuse := ← n "augment_diffuse", augmentSteep := ← n "augment_steep", getAux := ← n "get_aux" }

def canonJson (l : List (Shell String)) : Json :=
  Json.arr ((canonFuncs numVal l).map fun f =>
    Json.arr #[toJson f.1, Json.arr (f.2.map fun p => Json.arr #[ratJson p.1, ratJson p.2]).toArray]).toArray

def decodePot (j : Json) : Except String (Pot String) := do
  let am ← getNatList j "angular_momentum"
  let ptype ← getStr j "ecp_type"
  let rexp ← (← getArr j "r_exponents").mapM (·.getInt?)
  let gexp ← getStrList j "gaussian_exponents"
  let coefs ← (← getArr j "coefficients").mapM strList
  pure { am, ptype, rexp, gexp, coefs }

def potsParse (l : List (Pot String)) : Bool :=
  l.all fun p => p.gexp.all (fun x => (parseNum x).isSome) && p.coefs.all (·.all fun x => (parseNum x).isSome)

def decodeKeyed (j : Json) : Except String (List (BSE.Cmp.Keyed String)) := do
  (← j.getArr?).toList.mapM fun t => do
    let sh ← decodeShell (← t.getObjVal? "shell")
    let rsq ← (← getArr t "rsq").mapM decodeRat
    pure (sh, rsq)

def handlers : List (String × Handler) := [
  ("augment_plan", fun j => do
    let shells ← decodeShells j "shells"
    if !allParse shells then throw "unparsable number" else
    let nadd ← getNat j "nadd"
    let steep ← getBool j "steep"
    match BSE.Aug.augmentPlan numVal Gen.Manip.mgZero nadd steep shells with
    | .error e => pure (obj [("raise", Json.str e)])
    | .ok plan => pure (obj [("ok", Json.arr (plan.map fun p =>
        obj [("am", toJson p.1), ("ftype", toJson p.2.1), ("region", toJson p.2.2.1),
             ("new", Json.arr (p.2.2.2.map ratJson).toArray)]).toArray)])),
  ("truhlar_el", fun j => do
    let shells ← decodeShells j "shells"
    if !allParse shells then throw "unparsable number" else
    let nrem : Option Nat := match j.getObjVal? "nremove" with
      | .ok (Json.num n) => some n.mantissa.toNat
      | _ => none
    match makeGeneral numVal Gen.Manip.mgZero false shells with
    | .error e => pure (obj [("raise", Json.str e)])
    | .ok gen =>
      match BSE.Aug.removeDiffuse numVal gen nrem with
      | .error e => pure (obj [("raise", Json.str e)])
      | .ok r => pure (result (pruneShells numVal r))),
  ("compare_lists", fun j => do
    let a ← decodeKeyed (← j.getObjVal? "a")
    let b ← decodeKeyed (← j.getObjVal? "b")
    let tol ← decodeRat (← j.getObjVal? "tol")
    let cm ← getBool j "meta"
    let R := BSE.Cmp.compareShells numVal tol cm
    pure (obj [("equal", toJson (BSE.Cmp.equalBy R a b)), ("subset", toJson (BSE.Cmp.subsetBy R a b)),
               ("first_pair", toJson (match a, b with | x :: _, y :: _ => R x y | _, _ => false)),
               ("diff", encodeShells ((BSE.Cmp.subtractBy R a b).map (·.1)))])),
  ("validate_el", fun j => do
    let shells ← match j.getObjVal? "shells" with
      | .ok (Json.arr a) => do pure (some (← a.toList.mapM decodeShell))
      | _ => pure none
    let pots ← match j.getObjVal? "pots" with
      | .ok (Json.arr a) => do pure (some (← a.toList.mapM decodePot))
      | _ => pure none
    let hasE := match j.getObjVal? "ecp_electrons" with
      | .ok (Json.num _) => true
      | _ => false
    if !((shells.map allParse).getD true && (pots.map potsParse).getD true) then
      pure (obj [("err", Json.str "unparsable")])
    else match validateElement numVal shells pots hasE with
      | none => pure (obj [("ok", Json.bool true)])
      | some e => pure (obj [("err", Json.str e.name)])),
  ("manip", fun j => do
    let fn ← getStr j "fn"
    let shells ← decodeShells j "shells"
    if !allParse shells then throw "unparsable number" else
    let op : Except String Op := match fn with
      | "prune_basis" => pure .pruneBasis
      | "uncontract_general" => pure .uncontractGeneral
      | "uncontract_spdf" => do pure (.uncontractSpdf (← getNat j "k"))
      | "make_general" => do pure (.makeGeneral (← getBool j "skip"))
      | "uncontract_segmented" => pure .uncontractSegmented
      | "remove_free_primitives" => pure .removeFree
      | "optimize_general" => pure .optimizeGeneral
      | _ => throw s!"unknown fn {fn}"
    pure (result (applyOp numVal lits Gen.Manip.makeGeneralCalls Gen.Manip.optimizeGeneralCalls (← op) shells))),
  ("pipeline", fun j => do
    let shells ← decodeShells j "shells"
    if !allParse shells then throw "unparsable number" else
    let o ← decodeOpts (← j.getObjVal? "opts")
    pure (result (runBlocks numVal lits Gen.Manip.makeGeneralCalls Gen.Manip.optimizeGeneralCalls o
      Gen.Api.optionBlocks false false shells))),
  ("same_funcs", fun j => do
    let a ← decodeShells j "a"
    let b ← decodeShells j "b"
    if !(allParse a && allParse b) then throw "unparsable number" else
    pure (obj [("same", toJson (sameFuncs numVal a b))])),
  ("canon", fun j => do
    let a ← decodeShells j "shells"
    if !allParse a then throw "unparsable number" else
    pure (obj [("canon", canonJson a)])),
  ("sort_shells", fun j => do
    let keyed ← (← getArr j "keyed").mapM fun t => do
      let sh ← decodeShell (← t.getObjVal? "shell")
      let rsq ← (← getArr t "rsq").mapM decodeRat
      let mr ← decodeRat (← t.getObjVal? "minrms")
      pure (sh, rsq, mr)
    pure (obj [("ok", encodeShells (sortShells numVal keyed))]))
]

end BSE.Drv.Shells
