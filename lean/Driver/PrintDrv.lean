import Driver.Util
import BSEModel.Printing
import BSEGen.Writers
open Lean BSE.Drv BSE.Printing

namespace BSE.Drv.PrintDrv

def gateOk (valid : Option (List String)) (ftypes : List String) : Bool :=
  match valid with
  | none => true
  | some v => ftypes.all (v.contains ·)

def handlers : List (String × Handler) := [
  ("write_matrix", fun j => do
    let cols ← (← getArr j "cols").mapM fun col => do
      (← col.getArr?).toList.mapM fun c => do
        pure ({ text := (← getStr c "t").toList, isInt := ← getBool c "i" } : Cell)
    let pp ← getNatList j "pp"
    let conv ← getBool j "conv"
    match writeMatrix cols pp conv with
    | some lines => pure (obj [("lines", toJson (lines.map String.ofList))])
    | none => pure (obj [("raise", Json.str "ValueError")])),
  ("gate", fun j => do
    let fmt ← getStr j "fmt"
    let types ← getStrList j "types"
    match BSE.Gen.Writers.writerMap.find? (·.1 == fmt) with
    | none => pure (obj [("unknown", Json.bool true)])
    | some e => pure (obj [("ok", toJson (gateOk e.2.2.1 types))]))
]

end BSE.Drv.PrintDrv
