import Driver.Util
import BSEModel.Memo
open Lean BSE.Drv BSE.Memo

namespace BSE.Drv.MemoDrv

def handlers : List (String × Handler) := [
  ("make_key", fun j => do
    let args ← getStrList j "args"
    let defaults ← getNatList j "defaults"
    let pos ← getNatList j "pos"
    let kw ← (← getArr j "kw").mapM fun p => do
      match p with
      | .arr #[.str k, v] => do pure (k, ← v.getNat?)
      | _ => throw "kw pair"
    let s : Spec Nat := ⟨args, defaults⟩
    let b := match bound s pos kw with
      | some l => toJson l
      | none => Json.null
    match makeKey s pos kw with
    | .key k => pure (obj [("key", toJson k), ("bound", b)])
    | .none => pure (obj [("none", Json.bool true), ("bound", b)])
    | .raise => pure (obj [("raise", Json.bool true), ("bound", b)]))
]

end BSE.Drv.MemoDrv
