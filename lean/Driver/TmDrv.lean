import Driver.Util
import Driver.NwchemDrv
import BSEModel.TurbomoleInst
open Lean BSE.Drv BSE.Turbomole

namespace BSE.Drv.TmDrv
open BSE.Drv.NwchemDrv (isNumTok shellOf rshellJson errName)

def TT : TTables String := realTTables isNumTok (fun s => !s.isEmpty && s.all Char.isDigit)

def tlineJson : TLine String → Json
  | .star => obj [("k", Json.str "star")]
  | .starish => obj [("k", Json.str "starish")]
  | .elem s r => obj [("k", Json.str "elem"), ("sym", Json.str (String.ofList s)), ("rest", Json.str (String.ofList r))]
  | .shell n a => obj [("k", Json.str "shell"), ("n", Json.str (String.ofList n)), ("am", Json.str (String.ofList a))]
  | .row ts => obj [("k", Json.str "row"), ("t", toJson ts)]

def tlineOf (j : Json) : Except String (TLine String) := do
  let k ← getStr j "k"
  if k == "star" then pure .star
  else if k == "starish" then pure .starish
  else if k == "elem" then pure (.elem (← getStr j "sym").toList (← getStr j "rest").toList)
  else if k == "shell" then pure (.shell (← getStr j "n").toList (← getStr j "am").toList)
  else pure (.row (← getStrList j "t"))

def handlers : List (String × Handler) := [
  ("tm_write", fun j => do
    let name ← getStr j "name"
    let els ← (← getArr j "els").mapM fun e => do
      let z ← getNat e "z"
      let shells ← (← getArr e "shells").mapM shellOf
      pure (z, shells)
    pure (obj [("lines", Json.arr ((electronLinesT TT name.toList els).map tlineJson).toArray)])),
  ("tm_read", fun j => do
    let lines ← (← getArr j "lines").mapM tlineOf
    match readElectronT TT lines with
    | .ok r => pure (obj [("ok", Json.arr (r.map fun e => Json.arr #[toJson e.1, Json.arr (e.2.map rshellJson).toArray]).toArray)])
    | .error e => pure (obj [("raise", Json.str (errName e))]))
]

end BSE.Drv.TmDrv
