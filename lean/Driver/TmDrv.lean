import Driver.Util
import Driver.NwchemDrv
import BSEModel.TurbomoleInst
open Lean BSE.Drv BSE.Turbomole

namespace BSE.Drv.TmDrv
open BSE.Drv.NwchemDrv (isNumTok isIntTok shellOf rshellJson errName potOf rpotJson)

def TT : TTables String := realTTables isNumTok (fun s => !s.isEmpty && s.all Char.isDigit)

def tlineJson : TLine String → Json
  | .star => obj [("k", Json.str "star")]
  | .starish => obj [("k", Json.str "starish")]
  | .elem s r => obj [("k", Json.str "elem"), ("sym", Json.str (String.ofList s)), ("rest", Json.str (String.ofList r))]
  | .shell n a => obj [("k", Json.str "shell"), ("n", Json.str (String.ofList n)), ("am", Json.str (String.ofList a))]
  | .row ts => obj [("k", Json.str "row"), ("t", toJson ts)]

def tlineOf (j : Json) : Except String (TLine String) := do
  let k ← getStr j "k"
  if k == "star" then pure .star
  else if k == "starish" then pure .starish
  else if k == "elem" then pure (.elem (← getStr j "sym").toList (← getStr j "rest").toList)
  else if k == "shell" then pure (.shell (← getStr j "n").toList (← getStr j "am").toList)
  else pure (.row (← getStrList j "t"))

def PT : PTables String := realPTables isNumTok isIntTok

def plineJson : PLine String → Json
  | .star => obj [("k", Json.str "star")]
  | .starish => obj [("k", Json.str "starish")]
  | .elem s r => obj [("k", Json.str "elem"), ("sym", Json.str (String.ofList s)), ("rest", Json.str (String.ofList r))]
  | .info n l => obj [("k", Json.str "info"), ("ncore", Json.str (String.ofList n)), ("lmax", Json.str (String.ofList l))]
  | .title a none => obj [("k", Json.str "title"), ("am", Json.str (String.ofList a)), ("base", Json.null)]
  | .title a (some b) => obj [("k", Json.str "title"), ("am", Json.str (String.ofList a)), ("base", Json.str (String.ofList b))]
  | .alpha => obj [("k", Json.str "alpha")]
  | .row ts => obj [("k", Json.str "row"), ("t", toJson ts)]

def plineOf (j : Json) : Except String (PLine String) := do
  let k ← getStr j "k"
  if k == "star" then pure .star
  else if k == "starish" then pure .starish
  else if k == "elem" then pure (.elem (← getStr j "sym").toList (← getStr j "rest").toList)
  else if k == "info" then pure (.info (← getStr j "ncore").toList (← getStr j "lmax").toList)
  else if k == "title" then
    let base := match j.getObjVal? "base" with | .ok (Json.str b) => some b.toList | _ => none
    pure (.title (← getStr j "am").toList base)
  else if k == "alpha" then pure .alpha
  else pure (.row (← getStrList j "t"))

def handlers : List (String × Handler) := [
  ("tm_ecp_write", fun j => do
    let name ← getStr j "name"
    let els ← (← getArr j "els").mapM fun e => do
      let z ← getNat e "z"
      let nelec ← getStr e "nelec"
      let pots ← (← getArr e "pots").mapM potOf
      pure (z, nelec.toList, pots)
    pure (obj [("lines", Json.arr ((ecpLinesP PT name.toList els).map plineJson).toArray)])),
  ("tm_ecp_read", fun j => do
    let lines ← (← getArr j "lines").mapM plineOf
    match readEcpP PT lines with
    | .ok r => pure (obj [("ok", Json.arr (r.map fun e => Json.arr #[toJson e.1, toJson e.2.1, Json.arr (e.2.2.map rpotJson).toArray]).toArray)])
    | .error e => pure (obj [("raise", Json.str (errName e))])),
  ("tm_write", fun j => do
    let name ← getStr j "name"
    let els ← (← getArr j "els").mapM fun e => do
      let z ← getNat e "z"
      let shells ← (← getArr e "shells").mapM shellOf
      pure (z, shells)
    pure (obj [("lines", Json.arr ((electronLinesT TT name.toList els).map tlineJson).toArray)])),
  ("tm_read", fun j => do
    let lines ← (← getArr j "lines").mapM tlineOf
    match readElectronT TT lines with
    | .ok r => pure (obj [("ok", Json.arr (r.map fun e => Json.arr #[toJson e.1, Json.arr (e.2.map rshellJson).toArray]).toArray)])
    | .error e => pure (obj [("raise", Json.str (errName e))]))
]

end BSE.Drv.TmDrv
