import Driver.Util
import BSEModel.Json
/-! Conversion between `Lean.Json` and the model's ordered `J`.  On the wire an object is
`{"$o": [[key, value], ...]}` so that key order survives (Lean's own objects are sorted maps). -/
open Lean BSE

namespace BSE.Drv

partial def toJ (j : Json) : Except String J :=
  match j with
  | .null => pure .null
  | .bool b => pure (.bool b)
  | .num n => pure (.num (toString n))
  | .str s => pure (.str s)
  | .arr a => do pure (.arr (← a.toList.mapM toJ))
  | .obj _ =>
    match j.getObjVal? "$o" with
    | .ok (.arr pairs) => do
      let kvs ← pairs.toList.mapM fun p =>
        match p with
        | .arr #[.str k, v] => do pure (k, ← toJ v)
        | _ => throw "ordered object: bad pair"
      pure (.obj kvs)
    | _ => throw "object without $o encoding"

partial def ofJ (j : J) : Json :=
  match j with
  | .null => .null
  | .bool b => .bool b
  | .num t => match t.toInt? with
    | some i => .num (JsonNumber.fromInt i)
    | none => Json.mkObj [("$num", .str t)]
  | .str s => .str s
  | .arr l => .arr (l.map ofJ).toArray
  | .obj kvs => Json.mkObj [("$o", .arr (kvs.map fun kv => Json.arr #[.str kv.1, ofJ kv.2]).toArray)]

end BSE.Drv
