import Driver.Util
import BSEModel.Header
open Lean BSE.Drv BSE.Header

namespace BSE.Drv.HeaderDrv

def handlers : List (String × Handler) := [
  ("assemble", fun j => do
    let fmt ← getStr j "fmt"
    let body ← getStr j "body"
    let cart ← getBool j "cartesian"
    let hdr : Option Str := match j.getObjVal? "header" with
      | .ok (Json.str h) => some h.toList
      | _ => none
    match assemble fmt body.toList hdr cart with
    | some t => pure (obj [("text", Json.str (String.ofList t))])
    | none => pure (obj [("raise", Json.str "RuntimeError")])),
  ("reader_lines", fun j => do
    let s ← getStr j "s"
    let skip ← getStr j "skip"
    pure (obj [("lines", toJson ((readerLines skip.toList s.toList).map String.ofList))])),
  ("splitlines", fun j => do
    let s ← getStr j "s"
    pure (obj [("lines", toJson ((splitlinesKeep s.toList).map String.ofList))]))
]

end BSE.Drv.HeaderDrv
