import Driver.Util
import BSEModel.RefRender
open Lean BSE.Drv BSE.RefRender

namespace BSE.Drv.RefDrv

def valOf (j : Json) : Except String Val :=
  match j with
  | .str s => pure (.str s.toList)
  | .arr a => do pure (.list ((← a.toList.mapM (·.getStr?)).map String.toList))
  | _ => throw "field value"

def handlers : List (String × Handler) := [
  ("render_ref", fun j => do
    let fmt ← getStr j "fmt"
    let key ← getStr j "key"
    let et ← getStr j "etype"
    let fields ← (← getArr j "fields").mapM fun kv => do
      match kv with
      | .arr #[k, v] => do pure ((← k.getStr?).toList, ← valOf v)
      | _ => throw "field"
    let e : Entry := { etype := et.toList, fields := fields }
    let out := if fmt == "bib" then writeBib key.toList e else if fmt == "ris" then writeRis key.toList e else writeEndnote key.toList e
    pure (obj [("text", Json.str (String.ofList out))]))
]

end BSE.Drv.RefDrv
