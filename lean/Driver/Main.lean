import Driver.Util
import Driver.C20
import Driver.Shells
import Driver.Store
import Driver.MemoDrv
import Driver.AuxDrv
import Driver.HeaderDrv
import Driver.PrintDrv
import Driver.BundleDrv
import Driver.NwchemDrv
import Driver.G94Drv
import Driver.RefDrv
import Driver.TmDrv
/-! Line-protocol driver: one JSON request per line in, one JSON answer per line out.
`{"op": name, ...}` ↦ handler answer, or `{"drv_error": msg}`. -/
open Lean BSE.Drv

def allHandlers : List (String × Handler) :=
  BSE.Drv.C20.handlers ++ BSE.Drv.Shells.handlers ++ BSE.Drv.Store.handlers ++ BSE.Drv.MemoDrv.handlers ++ BSE.Drv.AuxDrv.handlers ++ BSE.Drv.HeaderDrv.handlers ++ BSE.Drv.PrintDrv.handlers ++ BSE.Drv.BundleDrv.handlers ++ BSE.Drv.NwchemDrv.handlers ++ BSE.Drv.G94Drv.handlers ++ BSE.Drv.G94Drv.ecpHandlers ++ BSE.Drv.RefDrv.handlers ++ BSE.Drv.TmDrv.handlers

def handle (line : String) : String :=
  match Json.parse line with
  | .error e => (obj [("drv_error", Json.str s!"json: {e}")]).compress
  | .ok j =>
    match j.getObjVal? "op" >>= (·.getStr?) with
    | .error e => (obj [("drv_error", Json.str s!"op: {e}")]).compress
    | .ok op =>
      match allHandlers.find? (·.1 == op) with
      | none => (obj [("drv_error", Json.str s!"unknown op {op}")]).compress
      | some (_, h) =>
        match h j with
        | .ok r => r.compress
        | .error e => (obj [("drv_error", Json.str e)]).compress

partial def loop (i o : IO.FS.Stream) : IO Unit := do
  let line ← i.getLine
  if line.isEmpty then return ()
  o.putStrLn (handle line)
  loop i o

def main : IO Unit := do
  loop (← IO.getStdin) (← IO.getStdout)
