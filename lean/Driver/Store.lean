import Driver.JsonConv
import BSEModel.Compose
import BSEModel.Api
open Lean BSE BSE.Drv BSE.Compose

namespace BSE.Drv.Store

def mkDir (files : List (String × J)) : Dir := fun p => (files.find? (·.1 == p)).map (·.2)

def decodeFiles (j : Json) : Except String (List (String × J)) := do
  match ← toJ (← j.getObjVal? "files") with
  | .obj kvs => pure kvs
  | _ => throw "files must be an object"

def handlers : List (String × Handler) := [
  ("select", fun j => do
    let keys ← getStrList j "keys"
    let sel ← getStrList j "sel"
    let els : Dict := keys.map fun k => (k, J.str k)
    match BSE.Api.selectElements els sel with
    | .ok d => pure (obj [("ok", toJson (Dict.keys d))])
    | .error e => pure (obj [("raise", Json.str e.name)])),
  ("resolve_version", fun j => do
    let latest ← getStr j "latest"
    let vs ← getStrList j "versions"
    let v : BSE.Api.VerArg ← match j.getObjVal? "v" with
      | .ok (Json.str s) => pure (BSE.Api.VerArg.str s)
      | .ok (Json.num n) => pure (BSE.Api.VerArg.int n.mantissa)
      | _ => pure BSE.Api.VerArg.none
    match BSE.Api.resolveVersion latest vs v with
    | .ok s => pure (obj [("ok", Json.str s)])
    | .error e => pure (obj [("raise", Json.str e.name)])),
  ("compose_table", fun j => do
    let files ← decodeFiles j
    let p ← getStr j "path"
    match composeTable (mkDir files) p with
    | .ok d => pure (obj [("ok", ofJ (.obj d))])
    | .error e => pure (obj [("raise", Json.str e.name)])),
  ("compose_elemental", fun j => do
    let files ← decodeFiles j
    let p ← getStr j "path"
    match composeElemental (mkDir files) p with
    | .ok d => pure (obj [("ok", ofJ (.obj d))])
    | .error e => pure (obj [("raise", Json.str e.name)]))
]

end BSE.Drv.Store
