import Driver.JsonConv
import BSEModel.Compose
import BSEModel.Api
import BSEModel.Index
import BSEModel.Refs
import BSEModel.AddBasis
import BSEModel.Notation
open Lean BSE BSE.Drv BSE.Compose

namespace BSE.Drv.Store

def mkDir (files : List (String × J)) : Dir := fun p => (files.find? (·.1 == p)).map (·.2)

def decodeFiles (j : Json) : Except String (List (String × J)) := do
  match ← toJ (← j.getObjVal? "files") with
  | .obj kvs => pure kvs
  | _ => throw "files must be an object"

def decodeEntry (j : Json) : Except String BSE.Index.Entry := do
  let vs ← (← getArr j "versions").mapM fun v => do
    match v with
    | .arr #[.str k, els] => do pure (k, ← strList els)
    | _ => throw "version pair"
  pure { key := ← getStr j "key", display := ← getStr j "display", family := ← getStr j "family", role := ← getStr j "role", versions := vs }

def optStr (j : Json) (k : String) : Option String :=
  match j.getObjVal? k with
  | .ok (Json.str s) => some s
  | _ => none

/-- `misc.expand_elements(k, True)` through the notation model of C20 -/
def expandModel (k : String) : Except PyErr (List String) :=
  match BSE.Notation.expandStr k.toList with
  | .ok zs => .ok (zs.map toString)
  | .error .runtime => .error .runtime
  | .error .key => .error .key
  | .error .value => .error .value
  | .error .type => .error .type

def decodeRefs (j : Json) : Except String BSE.AddBasis.RefSpec := do
  match ← getStr j "kind" with
  | "none" => pure .none
  | "one" => pure (.one (← getStr j "key"))
  | "many" => pure (.many (← getStrList j "keys"))
  | "map" =>
    let ps ← (← getArr j "pairs").mapM fun p => do
      match p with
      | .arr #[.str k, .str v] => pure (k, BSE.AddBasis.RefVal.one v)
      | .arr #[.str k, .arr vs] => do
        let ks ← vs.toList.mapM fun x => match x with | .str s => pure s | _ => throw "reference key"
        pure (k, BSE.AddBasis.RefVal.many ks)
      | _ => throw "reference pair"
    pure (.map ps)
  | _ => pure .other

def handlers : List (String × Handler) := [
  ("add_basis_from_dict", fun j => do
    let files ← decodeFiles j
    let bs ← match ← toJ (← j.getObjVal? "basis") with
      | .obj kvs => pure kvs
      | _ => throw "basis must be an object"
    let rq ← j.getObjVal? "req"
    let r : BSE.AddBasis.DictReq := {
      subdir := ← getStr rq "subdir", fileBase := ← getStr rq "file_base", name := ← getStr rq "name",
      family := ← getStr rq "family", role := ← getStr rq "role", description := ← getStr rq "description", version := ← getStr rq "version",
      revdesc := ← getStr rq "revision_description", dataSource := ← getStr rq "data_source", today := ← getStr rq "today" }
    let refs ← decodeRefs (← j.getObjVal? "refs")
    let run (v : Bool) :=
      let (fs, err) := BSE.AddBasis.addBasisFromDict expandModel (fun _ => v) files bs r refs
      obj [("files", ofJ (.obj fs)), ("raise", match err with | some e => Json.str e.name | none => Json.null)]
    let comp := match BSE.AddBasis.componentOf expandModel bs r refs with
      | .ok c => ofJ (.obj c)
      | .error e => obj [("raise", Json.str e.name)]
    pure (obj [("component", comp), ("if_valid", run true), ("if_invalid", run false), ("comp_rel", Json.str r.compRel)])),
  ("add_from_components", fun j => do
    let files ← decodeFiles j
    let rq ← j.getObjVal? "req"
    let r : BSE.AddBasis.Req := {
      comps := ← getStrList rq "comps", subdir := ← getStr rq "subdir", fileBase := ← getStr rq "file_base", name := ← getStr rq "name",
      family := ← getStr rq "family", role := ← getStr rq "role", description := ← getStr rq "description", version := ← getStr rq "version",
      revdesc := ← getStr rq "revision_description", today := ← getStr rq "today" }
    let (fs, err) := BSE.AddBasis.addFromComponents files r
    pure (obj [("files", ofJ (.obj fs)), ("raise", match err with | some e => Json.str e.name | none => Json.null)])),
  ("compact_groups", fun j => do
    let els ← (← getArr j "els").mapM fun p => do
      match p with
      | .arr #[.str z, .str info] => pure (z, info)
      | _ => throw "element pair"
    let gs := BSE.Refs.compactGroups els
    pure (obj [("groups", Json.arr (gs.map fun g => Json.arr #[.str g.1, toJson g.2]).toArray)])),
  ("process_notes", fun j => do
    let notes ← getStr j "notes"
    let keys ← getStrList j "keys"
    let found := BSE.Refs.sortKeys (keys.filter fun k => BSE.Refs.isSub k.toList notes.toList)
    pure (obj [("found", toJson found)])),
  ("create_metadata", fun j => do
    let files ← decodeFiles j
    let paths ← getStrList j "paths"
    match BSE.Index.createMetadata (mkDir files) paths with
    | .ok d => pure (obj [("ok", ofJ (.obj d))])
    | .error e => pure (obj [("raise", Json.str e.name)])),
  ("filter", fun j => do
    let md ← (← getArr j "entries").mapM decodeEntry
    let els : Option (List String) ← match j.getObjVal? "elements" with
      | .ok (Json.arr a) => do pure (some (← a.toList.mapM (·.getStr?)))
      | _ => pure none
    let r := BSE.Index.filterEntries md (optStr j "substr") (optStr j "family") (optStr j "role") els
    pure (obj [("ok", Json.arr (r.map fun e => Json.arr #[.str e.key, toJson (e.versions.map (·.1))]).toArray)])),
  ("enumerate", fun j => do
    let md ← (← getArr j "entries").mapM decodeEntry
    pure (obj [("families", toJson (BSE.Index.families md)), ("names", toJson (BSE.Index.allNames md))])),
  ("select", fun j => do
    let keys ← getStrList j "keys"
    let sel ← getStrList j "sel"
    let els : Dict := keys.map fun k => (k, J.str k)
    match BSE.Api.selectElements els sel with
    | .ok d => pure (obj [("ok", toJson (Dict.keys d))])
    | .error e => pure (obj [("raise", Json.str e.name)])),
  ("apply_selection", fun j => do
    -- the composed basis (slimmed by the harness to what the front end looks at), the index display name, the expanded selection
    let basis ← match ← toJ (← j.getObjVal? "basis") with
      | .obj kvs => pure kvs
      | _ => throw "basis must be an object"
    let display ← getStr j "display"
    let sel : Option (List String) ← match j.getObjVal? "sel" with
      | .ok (Json.arr a) => do pure (some (← a.toList.mapM (·.getStr?)))
      | _ => pure none
    match BSE.Api.applySelection basis display sel with
    | .ok d => pure (obj [("ok", ofJ (.obj d))])
    | .error e => pure (obj [("raise", Json.str e.name)])),
  ("resolve_version", fun j => do
    let latest ← getStr j "latest"
    let vs ← getStrList j "versions"
    let v : BSE.Api.VerArg ← match j.getObjVal? "v" with
      | .ok (Json.str s) => pure (BSE.Api.VerArg.str s)
      | .ok (Json.num n) => pure (BSE.Api.VerArg.int n.mantissa)
      | _ => pure BSE.Api.VerArg.none
    match BSE.Api.resolveVersion latest vs v with
    | .ok s => pure (obj [("ok", Json.str s)])
    | .error e => pure (obj [("raise", Json.str e.name)])),
  ("compose_table", fun j => do
    let files ← decodeFiles j
    let p ← getStr j "path"
    match composeTable (mkDir files) p with
    | .ok d => pure (obj [("ok", ofJ (.obj d))])
    | .error e => pure (obj [("raise", Json.str e.name)])),
  ("compose_elemental", fun j => do
    let files ← decodeFiles j
    let p ← getStr j "path"
    match composeElemental (mkDir files) p with
    | .ok d => pure (obj [("ok", ofJ (.obj d))])
    | .error e => pure (obj [("raise", Json.str e.name)]))
]

end BSE.Drv.Store
