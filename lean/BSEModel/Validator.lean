import BSEModel.Manip
/-! Executable model of `validator._validate_electron_shells` / `_validate_ecp_potentials`
(the semantic rules that follow the JSON-schema check), rule by rule in the order of the code. -/
namespace BSE
variable {ν : Type}

structure Pot (ν : Type) where
  am : List Nat
  ptype : String
  rexp : List Int
  gexp : List ν
  coefs : List (List ν)

inductive VErr
  | emptyAm | nprim | needTag | badTag | dupExp | nonposExp | rowLen | zeroCol | dupCol | unusedPrim | ngenAm
  | ecpFused | ecpDupAm | ecpLen | ecpRowLen | ecpZeroCol | ecpDupCol | ecpUnused | ecpNoElectrons | dupShell
  deriving Repr, DecidableEq

def VErr.name : VErr → String
  | .emptyAm => "emptyAm" | .nprim => "nprim" | .needTag => "needTag" | .badTag => "badTag"
  | .dupExp => "dupExp" | .nonposExp => "nonposExp" | .rowLen => "rowLen" | .zeroCol => "zeroCol"
  | .dupCol => "dupCol" | .unusedPrim => "unusedPrim" | .ngenAm => "ngenAm" | .ecpFused => "ecpFused"
  | .ecpDupAm => "ecpDupAm" | .ecpLen => "ecpLen" | .ecpRowLen => "ecpRowLen" | .ecpZeroCol => "ecpZeroCol"
  | .ecpDupCol => "ecpDupCol" | .ecpUnused => "ecpUnused" | .ecpNoElectrons => "ecpNoElectrons" | .dupShell => "dupShell"

/-- `_list_has_duplicates` is non-empty: some element occurs more than once -/
def hasDup {α} [DecidableEq α] (l : List α) : Bool := l.any fun x => l.count x != 1

def strInfix (pat s : String) : Bool :=
  let p := pat.toList
  let l := s.toList
  (List.range (l.length + 1)).any fun i => p.isPrefixOf (l.drop i)

def allZero (val : ν → Rat) (l : List ν) : Bool := l.all fun x => val x == 0

/-- rows of the coefficient matrix as Python's `zip(*cols)` gives them (truncating) -/
def rowsOf (cols : List (List ν)) : List (List ν) := zipStar cols

def firstErr {ε} : List (Option ε) → Option ε
  | [] => none
  | some e :: _ => some e
  | none :: rest => firstErr rest

def validateShell (val : ν → Rat) (sh : Shell ν) : Option VErr :=
  if sh.am = [] then some .emptyAm else
  if sh.exps.length = 0 then some .nprim else
  let maxAm := sh.am.foldl max 0
  if maxAm > 1 ∧ ¬ (sh.ftype = "gto_spherical" ∨ sh.ftype = "gto_cartesian") then some .needTag else
  if ¬ maxAm > 1 ∧ (strInfix "spherical" sh.ftype ∨ strInfix "cartesian" sh.ftype) then some .badTag else
  let ex := sh.exps.map val
  if hasDup ex then some .dupExp else
  if ex.any (fun x => ¬ x > 0) then some .nonposExp else
  match firstErr (sh.coefs.map fun g =>
      if g.length ≠ sh.exps.length then some VErr.rowLen
      else if allZero val g then some VErr.zeroCol else none) with
  | some e => some e
  | none =>
  if sh.am.length = 1 ∧ hasDup (sh.coefs.map (·.map val)) then some .dupCol else
  if (rowsOf sh.coefs).any (allZero val) then some .unusedPrim else
  if sh.am.length > 1 ∧ sh.coefs.length ≠ sh.am.length then some .ngenAm else none

def validateShells (val : ν → Rat) (shells : List (Shell ν)) : Option VErr :=
  firstErr (shells.map (validateShell val))

/-- lexicographic `≤` on lists of naturals: Python's list comparison used by `max(pot['angular_momentum'] ...)` -/
def lexLe : List Nat → List Nat → Bool
  | [], _ => true
  | _ :: _, [] => false
  | a :: as, b :: bs => a < b || (a == b && lexLe as bs)

def maxLex (l : List (List Nat)) : List Nat := l.foldl (fun m x => if lexLe m x then x else m) []

/-- first error of two checks in sequence -/
def firstOf {ε} (a b : Option ε) : Option ε :=
  match a with
  | some e => some e
  | none => b

/-- the checks of one potential; `maxAm` is the highest momentum among the element's potentials -/
def validatePot (val : ν → Rat) (maxAm : List Nat) (p : Pot ν) : Option VErr :=
  let nexp := p.rexp.length
  if p.gexp.length ≠ nexp then some VErr.ecpLen else
  let strict : Bool := nexp > 1 || p.am != maxAm
  firstOf (firstErr (p.coefs.map fun g =>
      if g.length ≠ nexp then some VErr.ecpRowLen
      else if strict && allZero val g then some VErr.ecpZeroCol else none))
    (if hasDup (p.coefs.map (·.map val)) then some VErr.ecpDupCol else
     if strict && (rowsOf p.coefs).any (allZero val) then some VErr.ecpUnused else none)

def validatePots (val : ν → Rat) (pots : List (Pot ν)) : Option VErr :=
  if pots.any (fun p => p.am.length > 1) then some .ecpFused else
  if hasDup (pots.map (·.am.headD 0)) then some .ecpDupAm else
  firstErr (pots.map (validatePot val (maxLex (pots.map (·.am)))))

/-- `_validate_element` plus the schema's `uniqueItems` on the shell list -/
def validateElement [DecidableEq ν] (val : ν → Rat) (shells : Option (List (Shell ν))) (pots : Option (List (Pot ν)))
    (hasElectrons : Bool) : Option VErr :=
  firstOf
    (match shells with
     | some ss => firstOf (validateShells val ss) (if hasDup ss then some VErr.dupShell else none)
     | none => none)
    (match pots with
     | some ps => if !hasElectrons then some .ecpNoElectrons else validatePots val ps
     | none => none)

end BSE
