import BSEModel.Compose
import BSEModel.Notation
/-! Model of `curate.metadata.create_metadata_file` (the index builder) and of the index queries
`filter_basis_sets`, `get_all_basis_names`, `get_families`, `lookup_basis_by_role`. -/
namespace BSE.Index
open BSE BSE.Compose

def endsWith (s suf : String) : Bool := suf.toList.isSuffixOf s.toList
def startsWith (s pre : String) : Bool := pre.toList.isPrefixOf s.toList

def special : List String := ["METADATA.json", "REFERENCES.json"]

/-- `int(x)` ordering of element keys: insertion sort by numeric value -/
def insertNum (x : String) : List String → List String
  | [] => [x]
  | y :: ys => if x.toNat! ≤ y.toNat! then x :: y :: ys else y :: insertNum x ys

def sortNum (l : List String) : List String := l.foldr insertNum []

def maxStr : List String → Option String
  | [] => none
  | x :: xs => match maxStr xs with
    | none => some x
    | some m => some (if m < x then x else m)

/-- insertion into a dictionary sorted by key (`dict(sorted(d.items()))`) -/
def insertKV (kv : String × J) : Dict → Dict
  | [] => [kv]
  | y :: ys => if kv.1 < y.1 then kv :: y :: ys else y :: insertKV kv ys

def sortDict (d : Dict) : Dict := d.foldr insertKV []

def transformName (s : String) : String := String.ofList (BSE.Notation.transformName s.toList)

/-- the version records of one basis: `(version, record)` in file-list order, later files overwrite -/
def versionInfo (dir : Dir) (tables : List String) : Except PyErr (Dict × Option J × Option Dict) :=
  tables.foldlM (fun (acc : Dict × Option J × Option Dict) t => do
    let parts := splitOn '.' (basename t)
    if parts.length ≠ 4 then throw PyErr.value else
    let ver := parts.getD 1 ""
    let bs ← composeTable dir t
    let els ← asObj (← getKey bs "elements")
    let ft ← getKey bs "function_types"
    match acc.2.1 with
    | some ft0 => if !(ft0 == ft) then throw PyErr.runtime
    | none => pure ()
    let rec_ : J := .obj [("file_relpath", .str t), ("revdesc", ← getKey bs "revision_description"),
      ("revdate", ← getKey bs "revision_date"), ("elements", .arr ((sortNum (Dict.keys els)).map .str))]
    pure (Dict.set acc.1 ver rec_, some (acc.2.1.getD ft), some bs)) ([], none, none)

/-- the record of one name of a basis: everything but `display_name` / `other_names` is common to all its names -/
def commonRecord (desc : J) (latest : String) (tags : J) (base rel : String) (fam role ft aux : J) (vinfo : Dict)
    (disp : String) (others : List String) : J := .obj [
  ("display_name", .str disp), ("other_names", .arr (others.map .str)), ("description", desc),
  ("latest_version", .str latest), ("tags", tags), ("basename", .str base),
  ("relpath", .str rel), ("family", fam), ("role", role), ("function_types", ft),
  ("auxiliaries", aux), ("versions", .obj vinfo)]

/-- one index entry per name listed in the metadata file (`common_md.copy()` with the two name fields set) -/
def aliasEntries (names : List String) (mk : String → List String → J) : List (String × J) :=
  names.map fun n => (transformName n, mk n (names.erase n))

/-- the records contributed by one `.metadata.json` file -/
def entriesOf (dir : Dir) (tables : List String) (metaPath : String) : Except PyErr (List (String × J)) := do
  let md ← readBasis dir metaPath
  let baseRel := dirname metaPath
  let baseFile := (splitOn '.' (basename metaPath)).headD "" ++ "."
  let mine := tables.filter fun x => dirname x == baseRel && startsWith (basename x) baseFile
  let (vinfo, ft, bs) ← versionInfo dir mine
  let vinfo := sortDict vinfo
  match maxStr (Dict.keys vinfo), bs, ft with
  | some latest, some bs, some ft => do
    let names ← mapEx asStr (← asArr (← getKey md "names"))
    let desc ← getKey bs "description"
    let tags ← getKey bs "tags"
    let fam ← getKey bs "family"
    let role ← getKey bs "role"
    let aux ← getKey bs "auxiliaries"
    pure (aliasEntries names (commonRecord desc latest tags (String.ofList (baseFile.toList.dropLast)) baseRel fam role ft aux vinfo))
  | _, _, _ => throw PyErr.value      -- `max()` of an empty sequence

def isMeta (p : String) : Bool := !(special.contains (basename p)) && endsWith p ".metadata.json"
def isTable (p : String) : Bool := !(special.contains (basename p)) && !(endsWith p ".metadata.json") && endsWith p ".table.json"

/-- `create_metadata_file`: `paths` = every file under the data directory (relative), in walk order -/
def createMetadata (dir : Dir) (paths : List String) : Except PyErr Dict := do
  let tables := paths.filter isTable
  let all ← (paths.filter isMeta).foldlM (fun (acc : Dict) m => do
    let es ← entriesOf dir tables m
    es.foldlM (fun (acc : Dict) e => if Dict.has acc e.1 then throw PyErr.runtime else pure (acc ++ [e])) acc) []
  pure (sortDict all)

/-! ### queries on the index -/

structure Entry where
  key : String
  display : String
  family : String
  role : String
  versions : List (String × List String)     -- version ↦ element list
  deriving Repr, DecidableEq

def lower (s : String) : String := s.map Char.toLower

def isSubstr (pat s : String) : Bool :=
  let p := pat.toList
  (List.range (s.length + 1)).any fun i => p.isPrefixOf (s.toList.drop i)

/-- `filter_basis_sets` after the family/role validity checks -/
def filterEntries (md : List Entry) (substr family role : Option String) (elements : Option (List String)) : List Entry :=
  let md := match family with | some f => md.filter (·.family == lower f) | none => md
  let md := match role with | some r => md.filter (·.role == lower r) | none => md
  let md := match elements with
    | some els => (md.map fun e => { e with versions := e.versions.filter fun v => els.all (v.2.contains ·) }).filter (!·.versions.isEmpty)
    | none => md
  match substr with
  | some s => if s.isEmpty then md else md.filter fun e => isSubstr (lower s) e.key || isSubstr (lower s) (lower e.display)
  | none => md

/-- `get_families`: `sorted(set(family of every entry))` -/
def families (md : List Entry) : List String := sortDedupStr (md.map (·.family))

/-- insertion that keeps repetitions (`sorted(list)`) -/
def insertDup (x : String) : List String → List String
  | [] => [x]
  | y :: ys => if y < x then y :: insertDup x ys else x :: y :: ys

/-- `get_all_basis_names`: `sorted(display name of every entry)` -/
def allNames (md : List Entry) : List String := (md.map (·.display)).foldr insertDup []

end BSE.Index
