import BSEModel.Turbomole
/-! # Token-level model of the Turbomole `$ecp` section: `writers/turbomole.py` and `readers/turbomole.py:_parse_ecp_lines`

```
$ecp
*
cu NAME-ecp
*
  ncore = 10   lmax = 3
f
  coefficient  r-exponent  gaussian-exponent
s-f
  …
*
$end
```
Line kinds are the reader's own tests (after the `$` lines are pruned): `*`, another line starting with `*`, an element line
(`element_re`: 1–3 letters, blank, anything), the `ncore = N   lmax = L` line (`ecp_info_re`), a potential title
(`ecp_pot_am_re`: one lower-case letter, optionally `-` and a second), any other line whose first character is a letter,
and a row of tokens. -/
namespace BSE.Turbomole
open BSE.Nwchem (Str RErr EPot RPot writeOrder mapR)
variable {ν : Type}

inductive PLine (ν : Type)
  | star
  | starish
  | elem (sym : Str) (rest : Str)
  | info (ncore : Str) (lmax : Str)
  | title (am : Str) (base : Option Str)
  | alpha
  | row (toks : List ν)

structure PTables (ν : Type) where
  symOf : Nat → Str                       -- lut.element_sym_from_Z(z)
  zOf : Str → Option Nat                  -- lut.element_Z_from_sym
  natStr : Nat → Str                      -- str(n)
  natOf : Str → Option Nat                -- int() of a `\d+` group
  amLetter : Nat → Str                    -- writer: lut.amint_to_char([l], hij=True)
  amOfLetter : Str → Option (List Nat)    -- reader: lut.amchar_to_int(letter)  (hij = False!)
  isInt : ν → Bool
  isNum : ν → Bool

/-! ## writer -/

/-- a potential: title (`f` for the highest momentum, `s-f` otherwise), then `coefficient r-exponent gaussian-exponent` rows -/
def potLinesP (T : PTables ν) (maxAm : Nat) (p : EPot ν) : List (PLine ν) :=
  .title (T.amLetter p.am) (if p.am = maxAm then none else some (T.amLetter maxAm))
    :: p.terms.map fun t => .row [t.2.2, t.1, t.2.1]

def ecpElementLinesP (T : PTables ν) (name : Str) (e : Nat × Str × List (EPot ν)) : List (PLine ν) :=
  let maxAm := (e.2.2.map (·.am)).foldl max 0
  .elem (T.symOf e.1) name :: .star :: .info e.2.1 (T.natStr maxAm)
    :: (writeOrder e.2.2).flatMap (potLinesP T maxAm) ++ [.star]

/-- the section as the reader sees it after pruning the `$` lines -/
def ecpLinesP (T : PTables ν) (name : Str) (els : List (Nat × Str × List (EPot ν))) : List (PLine ν) :=
  .star :: els.flatMap (ecpElementLinesP T name)

/-! ## reader -/

def pIsElem : PLine ν → Bool | .elem _ _ => true | _ => false
def pIsStar : PLine ν → Bool | .star => true | _ => false
def pIsStarLike : PLine ν → Bool | .star => true | .starish => true | _ => false
/-- `x[0].isalpha()` -/
def pIsAlpha : PLine ν → Bool
  | .elem _ _ => true | .info _ _ => true | .title _ _ => true | .alpha => true | _ => false

/-- `helpers.parse_ecp_table(lines, order=['coeff', 'r_exp', 'g_exp'])`: (r exponents, gaussian exponents, coefficients) -/
def parseTableP (T : PTables ν) (lines : List (PLine ν)) : Except RErr (List ν × List ν × List ν) :=
  let rows : List (List ν) := lines.map fun l => match l with | .row r => r | _ => []
  if rows.any (fun r => r.length != 3) then .error .runtime else
  let c := rows.filterMap (·[0]?)
  let r := rows.filterMap (·[1]?)
  let g := rows.filterMap (·[2]?)
  if !r.all T.isInt then .error .runtime else
  if !g.all T.isNum then .error .runtime else
  if !c.all T.isNum then .error .runtime else .ok (r, g, c)

/-- one potential block; the state is `found_max` -/
def parsePotP (T : PTables ν) (L : Nat) (found : Bool) (blk : List (PLine ν)) : Except RErr (RPot ν × Bool) :=
  match blk with
  | .title am base :: rows =>
    if rows.isEmpty then .error .runtime else                     -- min_size = 2 (checked for all blocks first: see below)
    match T.amOfLetter am with
    | none => .error .key
    | some l =>
      let chk : Except RErr Bool :=
        match base with
        | some b =>
          match T.amOfLetter b with
          | none => .error .key
          | some lb => if lb.headD 0 != L then .error .runtime else .ok found
        | none => if found then .error .runtime else if l.headD 0 != L then .error .runtime else .ok true
      match chk with
      | .error e => .error e
      | .ok found' =>
        match parseTableP T rows with
        | .error e => .error e
        | .ok (r, g, c) => .ok ({ am := some l, rexp := r, gexp := g, coef := c }, found')
  | _ => .error .runtime                                          -- the first line is not a potential title

def parsePotsP (T : PTables ν) (L : Nat) : Bool → List (List (PLine ν)) → Except RErr (List (RPot ν))
  | _, [] => .ok []
  | found, b :: bs =>
    match parsePotP T L found b with
    | .error e => .error e
    | .ok (p, found') =>
      match parsePotsP T L found' bs with
      | .error e => .error e
      | .ok ps => .ok (p :: ps)

/-- `_parse_ecp_potential_lines` on `[element line] ++ block[3:]`: (Z, electron count, potentials in reading order) -/
def parseEcpElementP (T : PTables ν) (seen : List Nat) (blk : List (PLine ν)) : Except RErr (Nat × Nat × List (RPot ν)) :=
  match blk with
  | _ :: .elem sym _ :: _ :: body =>
    match T.zOf sym with
    | none => .error .key
    | some z =>
      if seen.contains z then .error .runtime else               -- create_element_data(…, key_exist_ok=False)
      match body with
      | [] => .error .index                                       -- element_lines[1]
      | .info nc lm :: rest =>
        match T.natOf nc, T.natOf lm with
        | some n, some L =>
          let pb := splitAt pIsAlpha rest
          let blocks := if pb.1.isEmpty then pb.2 else pb.1 :: pb.2
          if blocks.any (fun b => b.length < 2) then .error .runtime else
          match parsePotsP T L false blocks with
          | .error e => .error e
          | .ok ps => .ok (z, n, ps)
        | _, _ => .error .runtime
      | _ :: _ => .error .runtime                                 -- the line after the element is not `ncore = … lmax = …`
  | _ => .error .runtime

/-- the `*` checks of `_parse_ecp_lines` on one block: `IndexError` when the block is too short to have a third line -/
def badStarsP : List (PLine ν) → Option RErr
  | l0 :: _ :: l2 :: body => if !(pIsStar l0 && pIsStar l2) || body.any pIsStarLike then some .runtime else none
  | l0 :: _ => if !pIsStar l0 then some .runtime else some .index
  | [] => some .index

def firstSome {α β : Type} (f : α → Option β) : List α → Option β
  | [] => none
  | a :: as => match f a with | some b => some b | none => firstSome f as

/-- the elements one after the other; an element that was already read is refused when it comes again -/
def parseEcpElementsP (T : PTables ν) : List Nat → List (List (PLine ν)) → Except RErr (List (Nat × Nat × List (RPot ν)))
  | _, [] => .ok []
  | seen, b :: bs =>
    match parseEcpElementP T seen b with
    | .error e => .error e
    | .ok el =>
      match parseEcpElementsP T (el.1 :: seen) bs with
      | .error e => .error e
      | .ok els => .ok (el :: els)

/-- `_parse_ecp_lines` (after `prune_lines(…, '$')`) -/
def readEcpP (T : PTables ν) (lines : List (PLine ν)) : Except RErr (List (Nat × Nat × List (RPot ν))) :=
  match lines.reverse with
  | .star :: revRest =>
    let ls := revRest.reverse
    let pb := splitAt pIsElem ls
    let all := if pb.1.isEmpty then pb.2 else pb.1 :: pb.2
    match all with
    | first :: b2 :: more =>
      if first.length != 1 then .error .runtime else
      let blocks := (stealOne first (b2 :: more)).tail
      match firstSome badStarsP blocks with
      | some e => .error e
      | none =>
        parseEcpElementsP T [] blocks
    | _ => .error .runtime
  | _ => .error .runtime

end BSE.Turbomole
