import BSEModel.Manip
/-! spike: uncontract_spdf -/
namespace BSE
variable {ν : Type}

/-- `sh['function_type'].split('_')[0]` -/
def baseType (ft : String) : String := String.ofList (ft.toList.takeWhile (· != '_'))

/-- a shell whose momenta are all below 2 carries no spherical/cartesian tag -/
def lowType (ams : List Nat) (ft : String) : String :=
  if ams ≠ [] ∧ ams.foldl max 0 < 2 then baseType ft else ft

def splitFused (k : Nat) (sh : Shell ν) : List (Shell ν) × Shell ν :=
  let pairs := sh.am.zip sh.coefs
  let hi := pairs.filter (fun p => p.1 > k)
  let lo := pairs.filter (fun p => ¬ p.1 > k)
  (hi.map (fun p => { sh with am := [p.1], coefs := [p.2], ftype := lowType [p.1] sh.ftype }),
   { sh with am := lo.map (·.1), coefs := lo.map (·.2), ftype := lowType (lo.map (·.1)) sh.ftype })

/-- one loop iteration of uncontract_spdf, `acc` = `newshells` so far -/
def spdfStep (k : Nat) (acc : List (Shell ν)) (sh : Shell ν) : List (Shell ν) :=
  if sh.am.length > 1 then
    (if (splitFused k sh).2.am = [] then [] else [(splitFused k sh).2]) ++ acc ++ (splitFused k sh).1   -- the remainder only if a member is left in it
  else acc ++ [sh]

def uncontractSpdf (k : Nat) (shells : List (Shell ν)) : List (Shell ν) :=
  shells.foldl (spdfStep k) []

def pairFuncs (val : ν → Rat) (exps : List ν) (ps : List (Nat × List ν)) : List Func :=
  ps.map (fun p => (p.1, colFn val exps p.2))

/-- the functions of a shell assembled from (momentum, column) pairs -/
theorem funcs_of_pairs (val : ν → Rat) (sh : Shell ν) (ft : String) (ps : List (Nat × List ν)) :
    ({ sh with am := ps.map (·.1), coefs := ps.map (·.2), ftype := ft } : Shell ν).funcs val = pairFuncs val sh.exps ps := by
  unfold Shell.funcs pairFuncs
  simp only [List.length_map]
  match ps with
  | [] => simp
  | [p] => simp
  | p :: q :: r =>
    have h : (p :: q :: r).length > 1 := by simp
    simp only [h, if_true]
    rw [List.zipWith_map_left, List.zipWith_map_right]
    generalize (p :: q :: r) = l
    induction l with
    | nil => rfl
    | cons a as ih => simp [ih]

/-- the functions of a fused shell, as pairs -/
theorem funcs_fused (val : ν → Rat) (sh : Shell ν) (h : sh.am.length > 1) :
    sh.funcs val = pairFuncs val sh.exps (sh.am.zip sh.coefs) := by
  simp only [Shell.funcs, h, if_true, pairFuncs]
  rw [List.map_zip_eq_zipWith]
  rfl

/-- membership in the folded list (the remainder of a fused shell is there only if a member is left in it) -/
theorem mem_uncontractSpdf (k : Nat) (shells : List (Shell ν)) (s : Shell ν) :
    s ∈ uncontractSpdf k shells ↔
      ∃ sh ∈ shells, (¬ sh.am.length > 1 ∧ s = sh) ∨
        (sh.am.length > 1 ∧ ((s = (splitFused k sh).2 ∧ (splitFused k sh).2.am ≠ []) ∨ s ∈ (splitFused k sh).1)) := by
  unfold uncontractSpdf
  suffices h : ∀ acc, s ∈ shells.foldl (spdfStep k) acc ↔ s ∈ acc ∨
      ∃ sh ∈ shells, (¬ sh.am.length > 1 ∧ s = sh) ∨
        (sh.am.length > 1 ∧ ((s = (splitFused k sh).2 ∧ (splitFused k sh).2.am ≠ []) ∨ s ∈ (splitFused k sh).1)) by
    simpa using h []
  induction shells with
  | nil => intro acc; simp
  | cons a as ih =>
    intro acc
    simp only [List.foldl_cons]
    rw [ih]
    unfold spdfStep
    by_cases ha : a.am.length > 1
    · by_cases hr : (splitFused k a).2.am = []
      · simp only [ha, hr, if_true, List.nil_append, List.mem_append, List.mem_cons, List.not_mem_nil, or_false,
          exists_eq_or_imp, not_true_eq_false, false_and, true_and, false_or, ne_eq, and_false]
        constructor
        · rintro ((h | h) | h)
          · exact Or.inl h
          · exact Or.inr (Or.inl h)
          · exact Or.inr (Or.inr h)
        · rintro (h | h | h)
          · exact Or.inl (Or.inl h)
          · exact Or.inl (Or.inr h)
          · exact Or.inr h
      · simp only [ha, hr, if_true, if_false, List.mem_append, List.mem_cons, List.not_mem_nil, or_false,
          exists_eq_or_imp, not_true_eq_false, false_and, true_and, false_or, ne_eq, not_false_eq_true, and_true]
        constructor
        · rintro (((h | h) | h) | h)
          · exact Or.inr (Or.inl (Or.inl h))
          · exact Or.inl h
          · exact Or.inr (Or.inl (Or.inr h))
          · exact Or.inr (Or.inr h)
        · rintro (h | (h | h) | h)
          · exact Or.inl (Or.inl (Or.inr h))
          · exact Or.inl (Or.inl (Or.inl h))
          · exact Or.inl (Or.inr h)
          · exact Or.inr h
    · simp only [ha, if_false, List.mem_append, List.mem_cons, List.not_mem_nil, or_false,
        exists_eq_or_imp, not_false_eq_true, true_and, false_and]
      constructor
      · rintro ((h | h) | h)
        · exact Or.inl h
        · exact Or.inr (Or.inl h)
        · exact Or.inr (Or.inr h)
      · rintro (h | h | h)
        · exact Or.inl (Or.inl h)
        · exact Or.inl (Or.inr h)
        · exact Or.inr h

/-- **uncontract_spdf keeps the set of contracted functions (any `max_am`).** -/
theorem funcSet_uncontractSpdf (val : ν → Rat) (k : Nat) (shells : List (Shell ν)) (f : Func) :
    funcSet val (uncontractSpdf k shells) f ↔ funcSet val shells f := by
  have hsplit : ∀ sh : Shell ν, sh.am.length > 1 →
      ((f ∈ (splitFused k sh).2.funcs val ∨ ∃ s ∈ (splitFused k sh).1, f ∈ s.funcs val) ↔ f ∈ sh.funcs val) := by
    intro sh h
    rw [funcs_fused val sh h]
    have hlo : (splitFused k sh).2.funcs val
        = pairFuncs val sh.exps ((sh.am.zip sh.coefs).filter (fun p => ¬ p.1 > k)) := by
      simp only [splitFused]
      exact funcs_of_pairs val sh _ _
    have hhi : (∃ s ∈ (splitFused k sh).1, f ∈ s.funcs val)
        ↔ f ∈ pairFuncs val sh.exps ((sh.am.zip sh.coefs).filter (fun p => p.1 > k)) := by
      simp only [splitFused, List.mem_map, pairFuncs]
      constructor
      · rintro ⟨s, ⟨p, hp, rfl⟩, hf⟩
        refine ⟨p, hp, ?_⟩
        simp [Shell.funcs] at hf
        exact hf.symm
      · rintro ⟨p, hp, rfl⟩
        exact ⟨_, ⟨p, hp, rfl⟩, by simp [Shell.funcs]⟩
    rw [hlo, hhi]
    simp only [pairFuncs, List.mem_map, List.mem_filter]
    constructor
    · rintro (⟨p, ⟨hp, _⟩, rfl⟩ | ⟨p, ⟨hp, _⟩, rfl⟩)
      · exact ⟨p, hp, rfl⟩
      · exact ⟨p, hp, rfl⟩
    · rintro ⟨p, hp, rfl⟩
      by_cases hk : p.1 > k
      · exact Or.inr ⟨p, ⟨hp, by simpa using hk⟩, rfl⟩
      · exact Or.inl ⟨p, ⟨hp, by simpa using hk⟩, rfl⟩
  unfold funcSet
  constructor
  · rintro ⟨s, hs, hf⟩
    rw [mem_uncontractSpdf] at hs
    obtain ⟨sh, hsh, h⟩ := hs
    rcases h with ⟨_, rfl⟩ | ⟨hfu, h⟩
    · exact ⟨s, hsh, hf⟩
    · refine ⟨sh, hsh, (hsplit sh hfu).1 ?_⟩
      rcases h with ⟨rfl, _⟩ | h
      · exact Or.inl hf
      · exact Or.inr ⟨s, h, hf⟩
  · rintro ⟨sh, hsh, hf⟩
    by_cases hfu : sh.am.length > 1
    · rcases (hsplit sh hfu).2 hf with h | ⟨s, hs, hfs⟩
      · have hne : (splitFused k sh).2.am ≠ [] := by
          intro h0
          -- a remainder without momenta has no columns either, hence no functions
          have hc : (splitFused k sh).2.coefs = [] := by
            simp only [splitFused] at h0 ⊢
            simpa using h0
          simp [Shell.funcs, h0, hc] at h
        exact ⟨_, (mem_uncontractSpdf k shells _).2 ⟨sh, hsh, Or.inr ⟨hfu, Or.inl ⟨rfl, hne⟩⟩⟩, h⟩
      · exact ⟨s, (mem_uncontractSpdf k shells s).2 ⟨sh, hsh, Or.inr ⟨hfu, Or.inr hs⟩⟩, hfs⟩
    · exact ⟨sh, (mem_uncontractSpdf k shells sh).2 ⟨sh, hsh, Or.inl ⟨hfu, rfl⟩⟩, hf⟩

end BSE
