/-! # The memoiser with mutable results

`BSEModel/Memo.lean` treats results as values.  Here they are *objects*: a call hands the caller an object, the caller may overwrite
it at any later time (`scribble`), and the cache keeps either a serialised copy (`pickle.dumps`: immutable bytes, a hit decodes them into
a new object) or the object itself.  The shape of `BSEMemoize.__call__` (what is stored on a miss, what is returned on a hit) is
regenerated from the source (`BSEGen/MemoShape.lean`). -/
namespace BSE.MemoHeap

inductive StoreKind | pickled | live | other
  deriving DecidableEq, Repr
inductive HitKind | unpickled | stored | other
  deriving DecidableEq, Repr
inductive MissKind | computed | other
  deriving DecidableEq, Repr

/-- what `__call__` does: what it files in the cache after a miss, what it returns on a hit, what it returns after a miss;
whether a disabled memoiser / an unbindable call goes straight to the function -/
structure Shape where
  store : StoreKind
  hit : HitKind
  miss : MissKind
  bypassWhenDisabled : Bool
  bypassWhenNoKey : Bool
  deriving DecidableEq, Repr

/-- `self.__memo[k] = pickle.dumps(ret)` / `return pickle.loads(self.__memo[k])` / `return ret` -/
def good : Shape := ⟨.pickled, .unpickled, .computed, true, true⟩

inductive Stored (V : Type) | bytes (v : V) | obj (o : Nat)

structure St (K V : Type) where
  heap : List V                      -- object id = position; objects are never freed
  cache : List (K × Stored V)
  enabled : Bool

inductive Op (A V : Type)
  | call (a : A)
  | scribble (o : Nat) (v : V)       -- the caller overwrites an object it holds (any object: ids are not secret)
  | toggle                           -- `memo.memoize_enabled = not memo.memoize_enabled`

variable {A K V : Type} [DecidableEq K]

def lookup (c : List (K × Stored V)) (k : K) : Option (Stored V) := (c.find? (·.1 == k)).map (·.2)

def fresh (s : St K V) (v : V) : St K V × Nat := (⟨s.heap ++ [v], s.cache, s.enabled⟩, s.heap.length)

/-- one step; for a call the output is (argument, object handed to the caller) -/
def step (sh : Shape) (key : A → Option K) (F : A → V) (s : St K V) : Op A V → St K V × Option (A × Nat)
  | .toggle => (⟨s.heap, s.cache, !s.enabled⟩, none)
  | .scribble o v => (⟨s.heap.set o v, s.cache, s.enabled⟩, none)
  | .call a =>
    if !s.enabled then let r := fresh s (F a); (r.1, some (a, r.2)) else
    match key a with
    | none => let r := fresh s (F a); (r.1, some (a, r.2))
    | some k =>
      match lookup s.cache k with
      | some (.bytes v) => let r := fresh s v; (r.1, some (a, r.2))          -- decoding makes a new object
      | some (.obj o) => (s, some (a, o))                                    -- the stored object itself
      | none =>
        let r := fresh s (F a)
        match sh.store with
        | .pickled => (⟨r.1.heap, (k, .bytes (F a)) :: s.cache, s.enabled⟩, some (a, r.2))
        | _ => (⟨r.1.heap, (k, .obj r.2) :: s.cache, s.enabled⟩, some (a, r.2))

/-- run a history; every call is recorded with the content of the object at the moment it is handed over -/
def run (sh : Shape) (key : A → Option K) (F : A → V) : St K V → List (Op A V) → List (A × Option V)
  | _, [] => []
  | s, op :: ops =>
    let r := step sh key F s op
    match r.2 with
    | some (a, o) => (a, r.1.heap[o]?) :: run sh key F r.1 ops
    | none => run sh key F r.1 ops

def init : St K V := ⟨[], [], true⟩

end BSE.MemoHeap
