import BSEModel.Nwchem
/-! # Token-level model of the Turbomole electron section: `writers/turbomole.py` and `readers/turbomole.py:_parse_electron_lines`

```
$basis
*
h STO-3G
*
    3   s
   exponent  coefficient
   …
*
```
Line kinds are the reader's own tests: `*`, another line starting with `*`, an element line (`element_re`), a shell line
(`shell_re`: count and ONE momentum letter), anything else (a row of tokens).  Lines starting with `$` are pruned before. -/
namespace BSE.Turbomole
open BSE.Nwchem (Str RErr RShell EShell Tables isAlphaStr mapR)
variable {ν : Type}

inductive TLine (ν : Type)
  | star                            -- exactly `*`
  | starish                         -- any other line starting with `*`
  | elem (sym : Str) (rest : Str)   -- 1–3 letters, blank, anything
  | shell (n : Str) (am : Str)      -- digits, blanks, one letter
  | row (toks : List ν)

structure TTables (ν : Type) extends Tables ν where
  natStr : Nat → Str
  natOf : Str → Option Nat
  isInt : ν → Bool                  -- the optional ordinal in front of (exponent, coefficient)

/-! ## writer (what `_parse_electron_lines` sees after the `$` lines are pruned) -/

def shellLinesT (T : TTables ν) (sh : EShell ν) : List (TLine ν) :=
  .shell (T.natStr sh.exps.length) (T.amStr sh.am) :: (zipStar (sh.exps :: sh.coefs)).map .row

def elementLinesT (T : TTables ν) (name : Str) (e : Nat × List (EShell ν)) : List (TLine ν) :=
  .elem (T.symOf e.1) name :: .star :: e.2.flatMap (shellLinesT T) ++ [.star]

def electronLinesT (T : TTables ν) (name : Str) (els : List (Nat × List (EShell ν))) : List (TLine ν) :=
  .star :: els.flatMap (elementLinesT T name)

/-! ## reader -/

/-- `partition_lines(lines, cond)`: (lines ahead of the first match, blocks each starting with its match) -/
def splitAt {α : Type} (cond : α → Bool) : List α → List α × List (List α)
  | [] => ([], [])
  | x :: rest =>
    let pb := splitAt cond rest
    if cond x then ([], (x :: pb.1) :: pb.2) else (x :: pb.1, pb.2)

/-- `before=1`: every block takes the last line of the one before it -/
def stealOne {α : Type} (prev : List α) : List (List α) → List (List α)
  | [] => [prev]
  | b :: bs => prev.dropLast :: stealOne (prev.getLast?.toList ++ b) bs

def isElem : TLine ν → Bool | .elem _ _ => true | _ => false
def isShell : TLine ν → Bool | .shell _ _ => true | _ => false
def isStar : TLine ν → Bool | .star => true | _ => false
def isStarLike : TLine ν → Bool | .star => true | .starish => true | _ => false

/-- a row line: `exponent coefficient` or `ordinal exponent coefficient`; the last two tokens are kept -/
def rowToks (T : TTables ν) : TLine ν → Except RErr (List ν)
  | .row [e, c] => .ok [e, c]
  | .row [i, e, c] => if T.isInt i then .ok [e, c] else .error .runtime
  | _ => .error .runtime

/-- one shell block: `n am` then rows `[ordinal] exponent coefficient` -/
def parseShellT (T : TTables ν) (blk : List (TLine ν)) : Except RErr (RShell ν) :=
  match blk with
  | .shell n am :: rowLines =>
    if rowLines.isEmpty then .error .runtime else            -- min_size = 2
    match T.natOf n, T.amOf am with
    | some nprim, some l =>
      match mapR (rowToks T) rowLines with
      | .error e => .error e
      | .ok rows =>
        match Nwchem.parseMatrix T.toTables rows (some 1) with
        | .error e => .error e
        | .ok (ex, co) =>
          if ex.length != nprim then .error .runtime else
          .ok { ftype := T.ftypeOf l true, am := l, exps := ex, coefs := co }
    | none, _ => .error .runtime
    | _, none => .error .key
  | _ => .error .runtime

/-- one element block after the `before=1` step: `[*, element line, *, shells…]` -/
def parseElementT (T : TTables ν) (blk : List (TLine ν)) : Except RErr (Nat × List (RShell ν)) :=
  match blk with
  | l0 :: .elem sym _ :: l2 :: body =>
    if !(isStar l0 && isStar l2) then .error .runtime else
    if body.any isStarLike then .error .runtime else
    match T.zOf sym with
    | none => .error .key
    | some z =>
      let pb := splitAt isShell body
      let blocks := if pb.1.isEmpty then pb.2 else pb.1 :: pb.2
      match mapR (parseShellT T) blocks with
      | .error e => .error e
      | .ok shells => .ok (z, shells)
  | _ => .error .runtime

/-- the `*` lines around the element line are missing, or another `*`-line sits among the shells -/
def badStars : List (TLine ν) → Bool
  | l0 :: _ :: l2 :: body => !(isStar l0 && isStar l2) || body.any isStarLike
  | _ => true

def hasDupKey : List (Nat × α) → Bool
  | [] => false
  | x :: rest => rest.any (fun y => y.1 == x.1) || hasDupKey rest

/-- `_parse_electron_lines` (after `prune_lines(…, '$')`) -/
def readElectronT (T : TTables ν) (lines : List (TLine ν)) : Except RErr (List (Nat × List (RShell ν))) :=
  match lines.reverse with
  | .star :: revRest =>
    let ls := revRest.reverse
    let pb := splitAt isElem ls
    let all := if pb.1.isEmpty then pb.2 else pb.1 :: pb.2
    match all with
    | first :: b2 :: more =>
      if first.length != 1 then .error .runtime else
      let blocks := (stealOne first (b2 :: more)).tail
      if blocks.any (fun b => b.length < 4) then .error .runtime else
      -- the `*` checks of every block come before any block is processed
      if blocks.any badStars then .error .runtime else
      match mapR (parseElementT T) blocks with
      | .error e => .error e
      | .ok els => if hasDupKey els then .error .runtime else .ok els
    | _ => .error .runtime
  | _ => .error .runtime

end BSE.Turbomole
