import BSEModel.ManipOps
/-! Exact-arithmetic model of `manip.geometric_augmentation` and `manip.truhlar_calendarize`
(the floating-point evaluation and the `'{:.6e}'` printing of new exponents are outside the model:
the model gives the exact rational the printed decimal must be the rounding of). -/
namespace BSE.Aug
open BSE
variable {ν : Type}

/-- indices sorted by `(value, index)` ascending: `sorted([(float(x), idx) ...])` -/
def sortedIdx (vals : List Rat) : List Nat :=
  (List.range vals.length).mergeSort fun i j =>
    decide ((vals[i]?).getD 0 < (vals[j]?).getD 0 ∨ ((vals[i]?).getD 0 = (vals[j]?).getD 0 ∧ i ≤ j))

/-- `_free_primitives`: rows with a non-zero entry in some single column -/
def freePrims (val : ν → Rat) (coefs : List (List ν)) : List Nat :=
  (coefs.filter (isSingleColumn val)).flatMap (nonzeroRows val)

def powR (b : Rat) : Nat → Rat
  | 0 => 1
  | n + 1 => b * powR b n

/-- indices of the reference (outermost) and the next primitive; `none` when there are fewer than two -/
def outerPair (vals : List Rat) (steep : Bool) : Option (Nat × Nat) :=
  let order := sortedIdx vals
  if order.length < 2 then none else
  if steep then some (order.getD (order.length - 1) 0, order.getD (order.length - 2) 0)
  else some (order.getD 0 0, order.getD 1 0)

/-- from the outermost exponent `x`, the next one `y`: `none` = raises (equal), `[]` = gate closed -/
def newFrom (x y : Rat) (bothFree : Bool) (nadd : Nat) : Option (List Rat) :=
  if x = y then none else
  if !bothFree then some [] else
  some ((List.range nadd).map fun i => x * powR (x / y) (i + 1))

/-- the new exponents for one (general-contracted) shell: `none` = raises, `some []` = nothing added -/
def newExponents (val : ν → Rat) (nadd : Nat) (steep : Bool) (sh : Shell ν) : Option (List Rat) :=
  let vals := sh.exps.map val
  match outerPair vals steep with
  | none => some []
  | some (r, n) =>
    let free := freePrims val sh.coefs
    newFrom (vals.getD r 0) (vals.getD n 0) (free.contains r && free.contains n) nadd

/-- per shell of the make_general'd copy: (angular momentum list, function type, region, new exponents) -/
def augmentPlan [DecidableEq ν] (val : ν → Rat) (mgZero : ν) (nadd : Nat) (steep : Bool) (shells : List (Shell ν)) :
    Except String (List (List Nat × String × String × List Rat)) :=
  if nadd < 1 then .error "Adding less than one function makes no sense" else
  match makeGeneral val mgZero false shells with
  | .error e => .error e
  | .ok gen =>
    mapE (fun sh => match newExponents val nadd steep sh with
      | none => .error "The two outermost exponents are the same"
      | some l => .ok (sh.am, sh.ftype, sh.region, l)) gen

/-! ### truhlar_calendarize -/

/-- `remove_primitive` -/
def removePrimitive (val : ν → Rat) (sh : Shell ν) (idx : Nat) : Shell ν :=
  { sh with exps := sh.exps.eraseIdx idx,
            coefs := (sh.coefs.map (·.eraseIdx idx)).filter fun col => col.any (fun c => val c != 0) }

def maxAm (shells : List (Shell ν)) : Nat := (shells.map fun sh => sh.am.foldl max 0).foldl max 0

/-- `_element_remove_diffuse(eldata, nremove)`; `nremove = none` means `'all'` -/
def removeDiffuse (val : ν → Rat) (shells : List (Shell ν)) (nremove : Option Nat) : Except String (List (Shell ν)) :=
  let m := maxAm shells
  let n := nremove.getD (m + 1)
  -- momenta m, m-1, …, m-n+1 that are ≥ 0
  let target := (List.range n).filterMap fun k => if k ≤ m then some (m - k) else none
  mapE (fun sh =>
    if sh.am.length > 1 then .error "Cannot remove diffuse functions from fused shell" else
    if !(target.contains (sh.am.headD 0)) then .ok sh else
    match (sortedIdx (sh.exps.map val)).head? with
    | none => .error "IndexError"
    | some i => .ok (removePrimitive val sh i)) shells

end BSE.Aug
