import BSEGen.Writers
import BSEModel.Notation
/-! Model of the header assembly in `writers.write_formatted_basis_str`:
`comment + comment.join(header.splitlines(True))`, the gaussian94lib and psi4 special cases. -/
namespace BSE.Header
open BSE.Gen.Writers

abbrev Str := List Char

/-- the line boundaries of Python's `str.splitlines` -/
def isBreak (c : Char) : Bool :=
  c == '\n' || c == '\r' || c == '\x0b' || c == '\x0c' || c == '\x1c' || c == '\x1d' || c == '\x1e' ||
  c.toNat == 0x85 || c.toNat == 0x2028 || c.toNat == 0x2029

/-- `s.splitlines(True)`; `cur` holds the current line reversed -/
def splitAux : Str → Str → List Str
  | [], cur => if cur.isEmpty then [] else [cur.reverse]
  | '\r' :: '\n' :: rest, cur => (cur.reverse ++ ['\r', '\n']) :: splitAux rest []
  | c :: rest, cur => if isBreak c then (cur.reverse ++ [c]) :: splitAux rest [] else splitAux rest (c :: cur)

def splitlinesKeep (s : Str) : List Str := splitAux s []

/-- `sep.join(parts)` -/
def joinWith (sep : Str) : List Str → Str
  | [] => []
  | [x] => x
  | x :: y :: rest => x ++ sep ++ joinWith sep (y :: rest)

/-- `comment_str + comment_str.join(header.splitlines(True))` -/
def commentBlock (c h : Str) : Str := c ++ joinWith c (splitlinesKeep h)

def commentOf (fmt : String) : Option (Option String) :=
  (writerMap.find? (·.1 == fmt)).map (·.2.1)

/-- the text `write_formatted_basis_str` returns, given the writer function's own output `body`;
`cartesian` = `'gto_cartesian' in function_types` -/
def assemble (fmt : String) (body : Str) (hdr : Option Str) (cartesian : Bool) : Option Str :=
  match commentOf fmt with
  | none => none          -- unknown format: RuntimeError
  | some comment =>
    let r := match hdr, comment with
      | some h, some c =>
        if fmt == "gaussian94lib" then commentBlock c.toList h ++ body
        else commentBlock c.toList h ++ ['\n', '\n'] ++ body
      | _, _ => body
    some (if fmt == "psi4" then (if cartesian then "cartesian".toList else "spherical".toList) ++ ['\n', '\n'] ++ r else r)

/-! ## what a reader sees: `prune_lines(text.splitlines(), skipchars)` -/
open BSE.Notation (isPySpace) in
/-- `str.strip()` -/
def stripLine (l : Str) : Str := ((l.dropWhile isPySpace).reverse.dropWhile isPySpace).reverse

/-- `helpers.prune_lines(lines, skipchars)` (blank lines pruned) -/
def pruneLines (skip : List Char) (lines : List Str) : List Str :=
  ((lines.map stripLine).filter (fun l => match l with | [] => true | c :: _ => !skip.contains c)).filter (fun l => !l.isEmpty)

/-- what the reader works on: `prune_lines(text.splitlines(), skipchars)`; the line ends that `splitlines(True)` keeps are white
space, `strip` removes them -/
def readerLines (skip : List Char) (text : Str) : List Str := pruneLines skip (splitlinesKeep text)


end BSE.Header
