import BSEModel.Pipeline
/-! A minimal ownership model for the `use_copy` discipline: a value is either the caller's object or a
private (fresh) one.  A normalisation step with `use_copy = True` works on a fresh deep copy and
returns it; with `use_copy = False` it works in place on what it is given and returns that. -/
namespace BSE.Own

inductive Owner | caller | fresh
  deriving DecidableEq, Repr

/-- one step: the owner of the value handed on, and whether the caller's object was written to -/
def step (o : Owner) (useCopy : Bool) : Owner × Bool :=
  if useCopy then (.fresh, false) else (o, o == .caller)

/-- a pipeline run on the caller's object: (owner of the result, was the caller's object ever written to) -/
def run : List PStep → Owner → Owner × Bool
  | [], o => (o, false)
  | st :: rest, o =>
    let (o1, m1) := step o st.useCopy
    let (o2, m2) := run rest o1
    (o2, m1 || m2)

end BSE.Own
