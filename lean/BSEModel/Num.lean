/-! exact reader for the decimal strings Python's float() accepts in this code base -/
namespace BSE

def isBlank (c : Char) : Bool := c == ' ' || c == '\t' || c == '\n' || c == '\r' || c == '\x0b' || c == '\x0c'

def stripBlanks (s : List Char) : List Char :=
  ((s.dropWhile isBlank).reverse.dropWhile isBlank).reverse

def digitsVal (ds : List Char) : Nat := ds.foldl (fun acc c => acc * 10 + (c.toNat - '0'.toNat)) 0

def splitSign : List Char → Bool × List Char
  | '-' :: cs => (true, cs)
  | '+' :: cs => (false, cs)
  | cs => (false, cs)

/-- `[-+]?digits[.digits]?([eEdD][-+]?digits)?` with at least one mantissa digit; exact value -/
def parseNumChars (allowD : Bool) (s : List Char) : Option Rat :=
  let s := stripBlanks s
  let (neg, s) := splitSign s
  let ip := s.takeWhile Char.isDigit
  let rest := s.dropWhile Char.isDigit
  let (fp, rest) := match rest with
    | '.' :: r => (r.takeWhile Char.isDigit, r.dropWhile Char.isDigit)
    | r => ([], r)
  if ip.isEmpty && fp.isEmpty then none else
  let mant : Nat := digitsVal (ip ++ fp)
  let scale : Int := - (fp.length : Int)
  let expo : Option Int := match rest with
    | [] => some 0
    | c :: r =>
      if c == 'e' || c == 'E' || (allowD && (c == 'd' || c == 'D')) then
        let (eneg, ed) := splitSign r
        if ed.isEmpty || !(ed.all Char.isDigit) then none
        else some (if eneg then - (digitsVal ed : Int) else (digitsVal ed : Int))
      else none
  match expo with
  | none => none
  | some e =>
    let p : Int := scale + e
    let m : Rat := (mant : Int)
    let v : Rat := if p ≥ 0 then m * ((10 : Rat) ^ p.toNat) else m / ((10 : Rat) ^ (-p).toNat)
    some (if neg then -v else v)

def parseNum (s : String) : Option Rat := parseNumChars false s.toList
def numVal (s : String) : Rat := (parseNum s).getD 0

end BSE
