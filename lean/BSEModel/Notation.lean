import BSEGen.Lut
/-! Model of `lut.py` lookups and of the notation helpers of `misc.py`
(`compact_elements`, `expand_elements`, `transform_basis_name`, `basis_name_from_filename`,
`electron_shells_start`, `contraction_string`).  Strings are processed as `List Char`. -/
namespace BSE.Notation
open BSE.Gen.Lut

abbrev Str := List Char
abbrev Row := Str × Nat × Str

/-! ### lut.py -/

/-- `{x[k]: x for x in _data_table}` keeps the LAST row for a key -/
def lastRow (p : Row → Bool) : Option Row := dataTable.reverse.find? p

def rowOfZ (z : Nat) : Option Row := lastRow (fun r => r.2.1 == z)
def rowOfSym (s : Str) : Option Row := lastRow (fun r => r.1 == s)
def rowOfName (s : Str) : Option Row := lastRow (fun r => r.2.2 == s)

def lowerAscii (s : Str) : Str := s.map Char.toLower

def symFromZ (z : Nat) : Option Str := (rowOfZ z).map (·.1)
def nameFromZ (z : Nat) : Option Str := (rowOfZ z).map (·.2.2)
def zFromSym (s : Str) : Option Nat := (rowOfSym (lowerAscii s)).map (·.2.1)
def zFromName (s : Str) : Option Nat := (rowOfName (lowerAscii s)).map (·.2.1)

/-- `str.capitalize()` on an ASCII symbol -/
def capitalize : Str → Str
  | [] => []
  | c :: cs => c.toUpper :: cs.map Char.toLower

def symFromZNorm (z : Nat) : Option Str := (symFromZ z).map capitalize

def amTable (hij : Bool) : List Char := if hij then amcharHij else amcharHik

/-- `amint_to_char([l], hij)` -/
def amChar (hij : Bool) (l : Nat) : Option Char := (amTable hij)[l]?

/-- `amchar_to_int(c, hij)[0]`: `str.index` = first position -/
def amInt (hij : Bool) (c : Char) : Option Nat :=
  let t := amTable hij
  let i := t.findIdx (· == c.toLower)
  if i < t.length then some i else none

/-- `electron_shells_start(n)[:4]` ; `none` = raises -/
def greedy : Nat → List (Nat × Nat) → List Nat → Nat × List Nat
  | n, [], acc => (n, acc)
  | n, (am, k) :: rest, acc => if n ≥ k then greedy (n - k) rest (acc ++ [am]) else (n, acc)

def containedAm (n : Nat) : Option (List Nat) :=
  match specialAm.find? (·.1 == n) with
  | some (_, l) => some l
  | none =>
    let (left, acc) := greedy n aminfo []
    if left != 0 then none else some acc

def shellsStart (n : Nat) : Option (List Nat) :=
  if n > 118 then none else
  (containedAm n).map fun c => [c.count 0 + 1, c.count 1 + 2, c.count 2 + 3, c.count 3 + 4]

/-- electrons accounted for by the starting quantum numbers: shells `l+1 .. start[l]-1` are full -/
def electronsOf (start : List Nat) : Nat :=
  ((List.range start.length).map fun l => (start[l]! - (l + 1)) * (2 * (2 * l + 1))).sum

/-! ### compact_elements / expand_elements at the level of ranges -/

/-- the inner `while` of `compact_elements` on the sorted, duplicate-free list -/
def runsAux (s e : Nat) : List Nat → List (Nat × Nat)
  | [] => [(s, e)]
  | x :: xs => if x = e + 1 then runsAux s x xs else (s, e) :: runsAux x x xs

def runs : List Nat → List (Nat × Nat)
  | [] => []
  | x :: xs => runsAux x x xs

/-- what a run is rendered as: `A`, `A,B` (two neighbours) or `A-B` -/
inductive Piece
  | one (a : Nat)
  | two (a b : Nat)
  | range (a b : Nat)
  deriving Repr, DecidableEq

def pieceOf (r : Nat × Nat) : Piece :=
  if r.1 = r.2 then .one r.1 else if r.2 = r.1 + 1 then .two r.1 r.2 else .range r.1 r.2

/-- what `expand_elements` makes of a rendered piece: `list(range(begin, end+1))` -/
def expandPiece : Piece → List Nat
  | .one a => [a]
  | .two a b => [a, b]
  | .range a b => List.range' a (b + 1 - a)

def compactPieces (l : List Nat) : List Piece := (runs l).map pieceOf
def expandPieces (ps : List Piece) : List Nat := ps.flatMap expandPiece

/-! ### text level (executable; compared with the implementation) -/

def renderPiece (p : Piece) : Option Str :=
  match p with
  | .one a => symFromZNorm a
  | .two a b => do let x ← symFromZNorm a; let y ← symFromZNorm b; pure (x ++ [','] ++ y)
  | .range a b => do let x ← symFromZNorm a; let y ← symFromZNorm b; pure (x ++ ['-'] ++ y)

def insertSorted (x : Nat) : List Nat → List Nat
  | [] => [x]
  | y :: ys => if x < y then x :: y :: ys else if x = y then y :: ys else y :: insertSorted x ys

/-- `sorted(set(l))` -/
def sortDedup (l : List Nat) : List Nat := l.foldr insertSorted []

/-- `compact_elements` (on a non-empty list of known Z; `none` = KeyError) -/
def compactElements (l : List Nat) : Option Str :=
  (compactPieces (sortDedup l)).mapM renderPiece |>.map (fun ss => [','].intercalate ss)

/-- `re.sub(c+, c)`; the flag says that the previous character was `c` -/
def squeezeAux (c : Char) : Bool → List Char → List Char
  | _, [] => []
  | prev, x :: xs =>
    if x = c then (if prev then squeezeAux c true xs else x :: squeezeAux c true xs)
    else x :: squeezeAux c false xs

def squeeze (c : Char) (l : List Char) : List Char := squeezeAux c false l

/-- Python `\s` for `str` patterns restricted to what can reach here (ASCII + the Unicode spaces) -/
def isPySpace (c : Char) : Bool :=
  c == ' ' || c == '\t' || c == '\n' || c == '\r' || c == '\x0b' || c == '\x0c' ||
  c.toNat == 0x1c || c.toNat == 0x1d || c.toNat == 0x1e || c.toNat == 0x1f || c.toNat == 0x85 ||
  c.toNat == 0xa0 || c.toNat == 0x1680 || (0x2000 ≤ c.toNat && c.toNat ≤ 0x200a) ||
  c.toNat == 0x2028 || c.toNat == 0x2029 || c.toNat == 0x202f || c.toNat == 0x205f || c.toNat == 0x3000

def stripChar (c : Char) (l : List Char) : List Char :=
  ((l.dropWhile (· = c)).reverse.dropWhile (· = c)).reverse

def splitOnChar (c : Char) : List Char → List (List Char)
  | [] => [[]]
  | x :: xs =>
    if x = c then [] :: splitOnChar c xs
    else match splitOnChar c xs with
      | [] => [[x]]
      | p :: ps => (x :: p) :: ps

def isSubseq (pat : List Char) : List Char → Bool
  | [] => pat.isEmpty
  | x :: xs => (pat.isPrefixOf (x :: xs)) || isSubseq pat xs

/-- Python `\w` on ASCII: letters, digits, underscore -/
def isWord (c : Char) : Bool := c.isAlphanum || c == '_'

/-- `re.search(r'\w+-\w+-\w+', s)` : some maximal word run, `-`, a complete word run, `-`, a word char -/
def chained (s : List Char) : Bool :=
  let parts := splitOnChar '-' s
  -- a middle part that is entirely word characters and non-empty, with a word char at the end of
  -- the part before and at the start of the part after
  let rec go : List (List Char) → Bool
    | a :: b :: c :: rest =>
      ((a.getLast?.map isWord).getD false && !b.isEmpty && b.all isWord && (c.head?.map isWord).getD false)
        || go (b :: c :: rest)
    | _ => false
  go parts

inductive Err | runtime | key | value | type
  deriving Repr, DecidableEq

def isDecimalStr (s : List Char) : Bool := !s.isEmpty && s.all Char.isDigit

/-- `_Z_from_str` -/
def zFromStr (s : List Char) : Except Err Nat :=
  if isDecimalStr s then .ok (String.ofList s).toNat! else
  match zFromSym s with
  | some z => .ok z
  | none => .error .key

def expandOne (el : List Char) : Except Err (List Nat) :=
  if !(el.contains '-') then (zFromStr el).map ([·]) else
  match splitOnChar '-' el with
  | [b, e] => do
    let b ← zFromStr b
    let e ← zFromStr e
    pure (List.range' b (e + 1 - b))
  | _ => .error .value     -- `begin, end = el.split('-')` : too many values to unpack

def mapExcept {α β ε} (f : α → Except ε β) : List α → Except ε (List β)
  | [] => .ok []
  | a :: as => match f a with
    | .error e => .error e
    | .ok b => match mapExcept f as with
      | .error e => .error e
      | .ok bs => .ok (b :: bs)

/-- `expand_elements` on a string -/
def expandStr (s : Str) : Except Err (List Nat) :=
  let l := squeeze ',' s
  let l := squeeze '-' l
  let l := l.filter (fun c => !isPySpace c)
  let l := stripChar ',' l
  if l.isEmpty then .ok [] else
  if isSubseq ['-', ','] l || isSubseq [',', '-'] l then .error .runtime else
  if l.head? == some '-' || l.getLast? == some '-' then .error .runtime else
  if chained l then .error .runtime else
  (mapExcept expandOne (splitOnChar ',' l)).map List.flatten

/-! ### basis names and file names -/

def encChar (c : Char) : List Char :=
  if c = '/' then "_sl_".toList else if c = '*' then "_st_".toList else [c]

/-- `transform_basis_name` after lower-casing: both `replace` calls act on single characters and
their outputs contain neither `/` nor `*`, so one pass is the same as two -/
def toFileChars (l : List Char) : List Char := l.flatMap encChar

def transformName (s : Str) : Str := toFileChars (lowerAscii s)

/-- `str.replace(pat, [c])`, leftmost non-overlapping; the counter skips the rest of a match -/
def replaceSubAux (pat : List Char) (c : Char) : Nat → List Char → List Char
  | _, [] => []
  | skip + 1, _ :: xs => replaceSubAux pat c skip xs
  | 0, x :: xs =>
    if pat.isPrefixOf (x :: xs) && !pat.isEmpty then c :: replaceSubAux pat c (pat.length - 1) xs
    else x :: replaceSubAux pat c 0 xs

def replaceSub (pat : List Char) (c : Char) (l : List Char) : List Char := replaceSubAux pat c 0 l

def fromFileChars (l : List Char) : List Char :=
  replaceSub "_st_".toList '*' (replaceSub "_sl_".toList '/' l)

def nameFromFile (s : Str) : Str := fromFileChars (lowerAscii s)

/-! ### contraction_string -/

/-- `cont_map` as an association list in first-insertion order -/
def bump (am np nc : Nat) : List (Nat × Nat × Nat) → List (Nat × Nat × Nat)
  | [] => [(am, np, nc)]
  | (a, p, c) :: rest => if a = am then (a, p + np, c + nc) :: rest else (a, p, c) :: bump am np nc rest

/-- one shell `(angular_momentum, nprim, ngeneral)` added to the map -/
def shellStep (m : List (Nat × Nat × Nat)) (sh : List Nat × Nat × Nat) : List (Nat × Nat × Nat) :=
  sh.1.foldl (fun m am => bump am sh.2.1 (if sh.1.length > 1 then 1 else sh.2.2) m) m

def contMap (shells : List (List Nat × Nat × Nat)) : List (Nat × Nat × Nat) :=
  shells.foldl shellStep []

def lookupAm (m : List (Nat × Nat × Nat)) (am : Nat) : Nat × Nat :=
  match m.find? (·.1 == am) with
  | some (_, p, c) => (p, c)
  | none => (0, 0)

end BSE.Notation
