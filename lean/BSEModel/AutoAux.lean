import BSEGen.Manip
/-! Logic of `manip.autoaux_basis` / `autoabs_basis` over exact rationals.  The floating-point parts
(`<r>` integrals for effective exponents, `exp∘mean∘log`) enter as given numbers. -/
namespace BSE.AutoAux
open BSE.Gen.Manip

/-- `v = 0; if Z > t1: v = v1; if Z > t2: v = v2 …` with the thresholds of the source -/
def stepTable (tab : List (Nat × Nat)) (dflt Z : Nat) : Nat :=
  tab.foldl (fun acc tv => if Z > tv.1 then tv.2 else acc) dflt

def lvalAux (Z : Nat) : Nat := stepTable autoauxLval 0 Z
def lincAux (Z : Nat) : Nat := stepTable autoauxLinc 1 Z
def lvalAbs (Z : Nat) : Nat := stepTable autoabsLval 0 Z

/-- `min(max(2 * lval, lmax + linc), 2 * lmax)` -/
def lmaxAuxOf (lval linc lmax : Nat) : Nat := min (max (2 * lval) (lmax + linc)) (2 * lmax)

/-- the even-tempered ladder: `while True: append; if cur >= amax: break; cur *= b` (fuel-bounded) -/
def ladder : Nat → Rat → Rat → Rat → List Rat
  | 0, _, _, _ => []
  | fuel + 1, cur, b, amax => cur :: (if cur ≥ amax then [] else ladder fuel (cur * b) b amax)

/-- smallest / largest over the coupling pairs `(l, lp)`, `l ≤ lp`, with `|l - lp| ≤ laux ≤ l + lp` -/
def couples (lmax laux : Nat) : List (Nat × Nat) :=
  (List.range (lmax + 1)).flatMap fun l =>
    ((List.range (lmax + 1)).filter fun lp => l ≤ lp ∧ lp - l ≤ laux ∧ laux ≤ l + lp).map fun lp => (l, lp)

def getR (a : List Rat) (i : Nat) : Rat := (a[i]?).getD 0

def minOver (f : Nat × Nat → Rat) : List (Nat × Nat) → Option Rat
  | [] => none
  | p :: ps => match minOver f ps with
    | none => some (f p)
    | some m => some (if f p ≤ m then f p else m)

def maxOver (f : Nat × Nat → Rat) : List (Nat × Nat) → Option Rat
  | [] => none
  | p :: ps => match maxOver f ps with
    | none => some (f p)
    | some m => some (if f p ≥ m then f p else m)

/-- start, ratio and upper bound of the ladder of momentum `laux` -/
def ladderParams (Z : Nat) (amin amaxPrim amaxEff : List Rat) (laux : Nat) : Rat × Rat × Rat :=
  let lmax := amin.length - 1
  let lval := lvalAux Z
  let cs := couples lmax laux
  let aminaux := (minOver (fun p => getR amin p.1 + getR amin p.2) cs).getD 0
  let amaxP := (maxOver (fun p => getR amaxPrim p.1 + getR amaxPrim p.2) cs).getD 0
  let amaxE := (maxOver (fun p => getR amaxEff p.1 + getR amaxEff p.2) cs).getD 0
  let amaxaux := if laux ≤ 2 * lval then (let a := getR flaux laux * amaxE; if a ≤ amaxP then a else amaxP) else amaxE
  let b := if laux ≤ 2 * lval then bSmall else getR blauxBig (min laux (blauxBig.length - 1))
  (aminaux, b, amaxaux)

/-- the ladders of one element: per laux the list of exponents -/
def autoauxPlan (Z : Nat) (amin amaxPrim amaxEff : List Rat) (fuel : Nat) : List (Nat × List Rat) :=
  let lmax := amin.length - 1
  let lmaxAux := lmaxAuxOf (lvalAux Z) (lincAux Z) lmax
  (List.range (lmaxAux + 1)).map fun laux =>
    let p := ladderParams Z amin amaxPrim amaxEff laux
    (laux, ladder fuel p.1 p.2.1 p.2.2)

/-! AutoABS: grouping of the doubled exponents by the ratio `fsam` -/

/-- pop the largest, then every following candidate whose ratio to the group's first is `< fsam` -/
def takeGroup (fsam first : Rat) : List (Rat × Nat) → List (Rat × Nat) × List (Rat × Nat)
  | [] => ([], [])
  | c :: cs => if first / c.1 < fsam then
      let (g, rest) := takeGroup fsam first cs
      (c :: g, rest)
    else ([], c :: cs)

/-- candidates sorted by decreasing exponent; returns the groups with the momentum range of each -/
def groupsAux (fsam : Rat) (lmaxAux : Nat) : Nat → List (Rat × Nat) → Nat → List (List (Rat × Nat) × Nat)
  | 0, _, _ => []
  | _, [], _ => []
  | fuel + 1, c :: cs, maxSoFar =>
    let (g, rest) := takeGroup fsam c.1 cs
    let grp := c :: g
    let m := min (grp.foldl (fun a x => max a x.2) maxSoFar) lmaxAux
    (grp, m) :: groupsAux fsam lmaxAux fuel rest (grp.foldl (fun a x => max a x.2) maxSoFar)

end BSE.AutoAux
