import BSEModel.G94
import BSEModel.G94Ecp
import BSEModel.Notation
import BSEModel.Num
import BSEModel.ReadWrite
/-! The Gaussian94 token model with the library's own tables (hij letters, as the writer and the reader both use). -/
namespace BSE.G94
open BSE.Notation BSE.Nwchem

def amOfHij : List Char → Option (List Nat)
  | [] => some []
  | c :: cs => match amInt true c, amOfHij cs with
    | some l, some ls => some (l :: ls)
    | _, _ => none

def natOfStr (s : List Char) : Option Nat := if !s.isEmpty && s.all Char.isDigit then some (BSE.digitsVal s) else none

/-- `L=n` -/
def explicitOf : List Char → Option Nat
  | 'L' :: '=' :: ds => natOfStr ds
  | _ => none

def realGTables {ν : Type} (isNum : ν → Bool) : GTables ν where
  symOf z := (symFromZNorm z).getD []
  zOf := zFromSym
  amStr am := (am.filterMap (amChar true)).map Char.toUpper
  amOf := amOfHij
  ftypeOf am spherical :=
    if am.foldl max 0 ≤ 1 then "gto".toList else if spherical then "gto_spherical".toList else "gto_cartesian".toList
  isNum := isNum
  natStr n := (toString n).toList
  natOf := natOfStr
  isFloatStr := BSE.ReadWrite.isFloatTok
  isZeroF s := (BSE.parseNumChars true s).getD 1 == 0
  isUnitF s := let v := (BSE.parseNumChars true s).getD 0; v * v == 1
  explicitAm := explicitOf

end BSE.G94

namespace BSE.G94
open BSE.Notation

def upperStr (s : List Char) : List Char := s.map Char.toUpper

def intOfStr (s : List Char) : Option Int :=
  match s with
  | '-' :: r => (natOfStr r).map fun n => - (n : Int)
  | '+' :: r => (natOfStr r).map fun n => (n : Int)
  | r => (natOfStr r).map fun n => (n : Int)

/-- `f potential` / `s-f potential` (hij letters, lower case) -/
def titleOf (am maxAm : Nat) : List String :=
  let c (l : Nat) : String := String.ofList ((amChar true l).toList)
  if am = maxAm then [c am, "potential"] else [c am ++ "-" ++ c maxAm, "potential"]

def realETables (isNum isInt : String → Bool) : ETables String where
  symTok z := String.ofList (upperStr ((symFromZ z).getD []))
  zOfTok s := zFromSym s.toList
  zeroTok := "0"
  tagTok z := String.ofList (upperStr ((symFromZ z).getD [])) ++ "-ECP"
  natTok n := toString n
  natOfTok s := natOfStr s.toList
  intOfTok s := intOfStr s.toList
  title := titleOf
  isInt := isInt
  isNum := isNum

end BSE.G94
