import BSEModel.Nwchem
/-! # Token-level model of one Gaussian94 electron block: `writers/g94.py` and `readers/g94.py:_parse_electron_lines`

```
Sym     0
S    3   1.00
   exponent  coefficient
   …
****
```
A line is a *head* line (first character alphabetic), a row of number tokens, or the terminator `****`. -/
namespace BSE.G94
open BSE.Nwchem (Str RErr RShell EShell Tables lower isAlphaStr mapR)
variable {ν : Type}

inductive GLine (ν : Type)
  | head (toks : List Str)
  | row (toks : List ν)
  | stars

structure GTables (ν : Type) extends Tables ν where
  natStr : Nat → Str                 -- str(n)
  natOf : Str → Option Nat           -- `\d+` then int()
  isFloatStr : Str → Bool            -- the floating-point pattern, on a head token
  isZeroF : Str → Bool               -- float(x) == 0.0
  isUnitF : Str → Bool               -- float(x) ** 2 == 1.0
  explicitAm : Str → Option Nat      -- `L=n`

/-! ## writer -/

def shellLines (T : GTables ν) (sh : EShell ν) : List (GLine ν) :=
  .head [T.amStr sh.am, T.natStr sh.exps.length, "1.00".toList] :: (zipStar (sh.exps :: sh.coefs)).map .row

def electronBlock (T : GTables ν) (z : Nat) (shells : List (EShell ν)) : List (GLine ν) :=
  .head [T.symOf z, "0".toList] :: shells.flatMap (shellLines T) ++ [.stars]

/-! ## reader -/

/-- blocks from the right; a `****` inside a block is a line that is not a row of numbers (`none`) -/
def blocksG : List (GLine ν) → List (Option (List ν)) × List (List Str × List (Option (List ν)))
  | [] => ([], [])
  | .row r :: rest => let pb := blocksG rest; (some r :: pb.1, pb.2)
  | .stars :: rest => let pb := blocksG rest; (none :: pb.1, pb.2)
  | .head t :: rest => let pb := blocksG rest; ([], (t, pb.1) :: pb.2)

def allSome {α : Type} : List (Option α) → Option (List α)
  | [] => some []
  | none :: _ => none
  | some a :: r => (allSome r).map (a :: ·)

/-- `parse_primitive_matrix(lines, nprim, ngen)` -/
def parseMatrixN (T : GTables ν) (rows : List (List ν)) (nprim ngen : Nat) : Except RErr (List ν × List (List ν)) :=
  match Nwchem.parseMatrix T.toTables rows none with
  | .error e => .error e
  | .ok (ex, co) =>
    if ex.length != nprim then .error .runtime else
    if co.length != ngen then .error .runtime else .ok (ex, co)

inductive GErr | err (e : RErr) | notImplemented | unmodelled
  deriving DecidableEq

/-- the momentum letters or the explicit `L=n` form -/
def amOfHead (T : GTables ν) (t : Str) : Except GErr (List Nat) :=
  if isAlphaStr t then
    match T.amOf t with
    | some l => .ok l
    | none => .error (.err .key)
  else match T.explicitAm t with
    | some n => .ok [n]
    | none => .error (.err .runtime)

def parseShell (T : GTables ν) (b : List Str × List (Option (List ν))) : Except GErr (RShell ν) :=
  match b.1 with
  | amt :: np :: s :: ss =>
    match T.natOf np with
    | none => .error (.err .runtime)
    | some nprim =>
      if !(s :: ss).all T.isFloatStr then .error (.err .runtime) else
      match amOfHead T amt with
      | .error e => .error e
      | .ok am =>
        let nz := (s :: ss).filter (fun x => !T.isZeroF x)
        match nz with
        | [] => .error (.err .runtime)
        | [f] =>
          if !T.isUnitF f then .error .unmodelled else     -- exponents rescaled through floats: not modelled
          match allSome b.2 with
          | none => .error (.err .runtime)
          | some rows =>
            match parseMatrixN T rows nprim am.length with
            | .error e => .error (.err e)
            | .ok (ex, co) => .ok { ftype := T.ftypeOf am true, am := am, exps := ex, coefs := co }
        | _ => .error .notImplemented
  | _ => .error (.err .runtime)

def mapG {α β : Type} (f : α → Except GErr β) : List α → Except GErr (List β)
  | [] => .ok []
  | a :: as =>
    match f a with
    | .error e => .error e
    | .ok b =>
      match mapG f as with
      | .error e => .error e
      | .ok bs => .ok (b :: bs)

/-- `_parse_electron_lines` for one element block -/
def parseElectron (T : GTables ν) (lines : List (GLine ν)) : Except GErr (Nat × List (RShell ν)) :=
  match lines.reverse with
  | .stars :: revRest =>
    match revRest.reverse with
    | .head (sym :: _) :: body =>
      match T.zOf sym with
      | none => .error (.err .key)
      | some z =>
        let pb := blocksG body
        if !pb.1.isEmpty then .error (.err .runtime) else
        match mapG (parseShell T) pb.2 with
        | .error e => .error e
        | .ok shells => .ok (z, shells)
    | [] => .error (.err .index)
    | _ => .error (.err .key)
  | _ => .error (.err .runtime)

end BSE.G94
