import BSEModel.Matrix
/-! # Token-level model of the NWChem electron-shell section: `writers/nwchem.py` and `readers/nwchem.py`

A line is either a *head* line (its first character is alphabetic: `BASIS …`, `sym AM`, `END`) or a *row* of number
tokens — the very test (`x[0].isalpha()`) the reader partitions on.  Numbers are abstract tokens `ν`; what the printing
layer does to them is the business of C04 (`Printing.lean`).  The look-up tables are parameters (`Tables`), instantiated
in the driver with the tables regenerated from `lut.py`. -/
namespace BSE.Nwchem
variable {ν : Type}

abbrev Str := List Char

inductive Line (ν : Type)
  | head (toks : List Str)
  | row (toks : List ν)

/-- a shell as stored: momenta, exponents, coefficient columns -/
structure EShell (ν : Type) where
  am : List Nat
  exps : List ν
  coefs : List (List ν)

/-- a shell as the reader returns it -/
structure RShell (ν : Type) where
  ftype : Str
  am : List Nat
  exps : List ν
  coefs : List (List ν)
  deriving DecidableEq

structure Tables (ν : Type) where
  symOf : Nat → Str                    -- lut.element_sym_from_Z(z, True)
  zOf : Str → Option Nat               -- lut.element_Z_from_sym
  amStr : List Nat → Str               -- lut.amint_to_char(am).upper()
  amOf : Str → Option (List Nat)       -- lut.amchar_to_int
  ftypeOf : List Nat → Bool → Str      -- lut.function_type_from_am(am, 'gto', spherical?)
  isNum : ν → Bool                        -- helpers.is_floating (after replace_d)

/-! ## writer -/

/-- `sym  AM` then one line per primitive: exponent followed by its coefficient in every column -/
def shellLines (T : Tables ν) (z : Nat) (sh : EShell ν) : List (Line ν) :=
  .head [T.symOf z, T.amStr sh.am] :: (zipStar (sh.exps :: sh.coefs)).map .row

def electronLines (T : Tables ν) (harm : Str) (els : List (Nat × List (EShell ν))) : List (Line ν) :=
  .head ["BASIS".toList, "\"ao".toList, "basis\"".toList, harm, "PRINT".toList]
    :: (els.flatMap fun e => e.2.flatMap (shellLines T e.1)) ++ [.head ["END".toList]]

/-! ## reader -/

def lower (s : Str) : Str := s.map Char.toLower

def isEnd : Line ν → Bool
  | .head [t] => lower t == "end".toList
  | _ => false

def isAlphaStr (s : Str) : Bool := !s.isEmpty && s.all Char.isAlpha

/-- blocks from the right: (rows not yet claimed by a head line, finished blocks) -/
def blocksR : List (Line ν) → List (List ν) × List (List Str × List (List ν))
  | [] => ([], [])
  | .row r :: rest => let pb := blocksR rest; (r :: pb.1, pb.2)
  | .head t :: rest => let pb := blocksR rest; ([], (t, pb.1) :: pb.2)

inductive RErr | runtime | key | index
  deriving Repr, DecidableEq

/-- a row that is empty or holds a token that is not a floating-point number -/
def badRow (T : Tables ν) : List ν → Bool
  | [] => true
  | e :: c => !T.isNum e || !c.all T.isNum

/-- `helpers.parse_primitive_matrix(lines, ngen=…)` on token rows -/
def parseMatrix (T : Tables ν) (rows : List (List ν)) (ngen : Option Nat) : Except RErr (List ν × List (List ν)) :=
  if rows.any (badRow T) then .error .runtime else
  let cs := rows.map List.tail
  if cs.any (fun c => c.isEmpty || c.length != (cs.headD []).length) then .error .runtime else
  let coefs := zipStar cs
  if rows.isEmpty || coefs.isEmpty then .error .runtime else
  match ngen with
  | some n => if coefs.length != n then .error .runtime else .ok (rows.filterMap List.head?, coefs)
  | none => .ok (rows.filterMap List.head?, coefs)

/-- one block: `sym AM` + table -/
def parseBlock (T : Tables ν) (spherical : Bool) (b : List Str × List (List ν)) : Except RErr (Nat × RShell ν) :=
  if b.2.isEmpty then .error .runtime else          -- min_size = 2
  match b.1 with
  | [sym, am] =>
    if !(isAlphaStr sym && isAlphaStr am) then .error .runtime else
    match T.amOf am with
    | none => .error .key
    | some l =>
      match T.zOf sym with
      | none => .error .key
      | some z =>
        match parseMatrix T b.2 (if l.length > 1 then some l.length else none) with
        | .error e => .error e
        | .ok (ex, co) => .ok (z, { ftype := T.ftypeOf l spherical, am := l, exps := ex, coefs := co })
  | _ => .error .runtime

/-- `create_element_data(..., key_exist_ok=True)` + append -/
def addShell (acc : List (Nat × List (RShell ν))) (z : Nat) (sh : RShell ν) : List (Nat × List (RShell ν)) :=
  match acc with
  | [] => [(z, [sh])]
  | (z0, shs) :: rest => if z0 = z then (z0, shs ++ [sh]) :: rest else (z0, shs) :: addShell rest z sh

def mapR {α β : Type} (f : α → Except RErr β) : List α → Except RErr (List β)
  | [] => .ok []
  | a :: as =>
    match f a with
    | .error e => .error e
    | .ok b =>
      match mapR f as with
      | .error e => .error e
      | .ok bs => .ok (b :: bs)

def hasSub (pat s : List Char) : Bool :=
  match s with
  | [] => pat.isEmpty
  | c :: cs => pat.isPrefixOf (c :: cs) || hasSub pat cs

/-- `_parse_electron_lines` -/
def readElectron (T : Tables ν) (lines : List (Line ν)) : Except RErr (List (Nat × List (RShell ν))) :=
  match lines.filter (fun l => !isEnd l) with
  | .head (t0 :: ts) :: body =>
    if !("basis".toList.isPrefixOf (lower t0)) then .error .runtime else
    let spherical := (t0 :: ts).any fun t => hasSub "spherical".toList (lower t)
    let pb := blocksR body
    if !pb.1.isEmpty then .error .runtime else      -- rows before the first `sym AM` line
    match mapR (parseBlock T spherical) pb.2 with
    | .error e => .error e
    | .ok shells => .ok (shells.foldl (fun acc zs => addShell acc zs.1 zs.2) [])
  | [] => .error .index
  | _ => .error .runtime

end BSE.Nwchem
