import BSEModel.Matrix
/-! # Token-level model of the NWChem electron-shell section: `writers/nwchem.py` and `readers/nwchem.py`

A line is either a *head* line (its first character is alphabetic: `BASIS …`, `sym AM`, `END`) or a *row* of number
tokens — the very test (`x[0].isalpha()`) the reader partitions on.  Numbers are abstract tokens `ν`; what the printing
layer does to them is the business of C04 (`Printing.lean`).  The look-up tables are parameters (`Tables`), instantiated
in the driver with the tables regenerated from `lut.py`. -/
namespace BSE.Nwchem
variable {ν : Type}

abbrev Str := List Char

inductive Line (ν : Type)
  | head (toks : List Str)
  | row (toks : List ν)

/-- a shell as stored: momenta, exponents, coefficient columns -/
structure EShell (ν : Type) where
  am : List Nat
  exps : List ν
  coefs : List (List ν)

/-- a shell as the reader returns it -/
structure RShell (ν : Type) where
  ftype : Str
  am : List Nat
  exps : List ν
  coefs : List (List ν)
  deriving DecidableEq

structure Tables (ν : Type) where
  symOf : Nat → Str                    -- lut.element_sym_from_Z(z, True)
  zOf : Str → Option Nat               -- lut.element_Z_from_sym
  amStr : List Nat → Str               -- lut.amint_to_char(am).upper()
  amOf : Str → Option (List Nat)       -- lut.amchar_to_int
  ftypeOf : List Nat → Bool → Str      -- lut.function_type_from_am(am, 'gto', spherical?)
  isNum : ν → Bool                        -- helpers.is_floating (after replace_d)

/-! ## writer -/

/-- `sym  AM` then one line per primitive: exponent followed by its coefficient in every column -/
def shellLines (T : Tables ν) (z : Nat) (sh : EShell ν) : List (Line ν) :=
  .head [T.symOf z, T.amStr sh.am] :: (zipStar (sh.exps :: sh.coefs)).map .row

def electronLines (T : Tables ν) (harm : Str) (els : List (Nat × List (EShell ν))) : List (Line ν) :=
  .head ["BASIS".toList, "\"ao".toList, "basis\"".toList, harm, "PRINT".toList]
    :: (els.flatMap fun e => e.2.flatMap (shellLines T e.1)) ++ [.head ["END".toList]]

/-! ## reader -/

def lower (s : Str) : Str := s.map Char.toLower

def isEnd : Line ν → Bool
  | .head [t] => lower t == "end".toList
  | _ => false

def isAlphaStr (s : Str) : Bool := !s.isEmpty && s.all Char.isAlpha

/-- blocks from the right: (rows not yet claimed by a head line, finished blocks) -/
def blocksR : List (Line ν) → List (List ν) × List (List Str × List (List ν))
  | [] => ([], [])
  | .row r :: rest => let pb := blocksR rest; (r :: pb.1, pb.2)
  | .head t :: rest => let pb := blocksR rest; ([], (t, pb.1) :: pb.2)

inductive RErr | runtime | key | index
  deriving Repr, DecidableEq

/-- a row that is empty or holds a token that is not a floating-point number -/
def badRow (T : Tables ν) : List ν → Bool
  | [] => true
  | e :: c => !T.isNum e || !c.all T.isNum

/-- `helpers.parse_primitive_matrix(lines, ngen=…)` on token rows -/
def parseMatrix (T : Tables ν) (rows : List (List ν)) (ngen : Option Nat) : Except RErr (List ν × List (List ν)) :=
  if rows.any (badRow T) then .error .runtime else
  let cs := rows.map List.tail
  if cs.any (fun c => c.isEmpty || c.length != (cs.headD []).length) then .error .runtime else
  let coefs := zipStar cs
  if rows.isEmpty || coefs.isEmpty then .error .runtime else
  match ngen with
  | some n => if coefs.length != n then .error .runtime else .ok (rows.filterMap List.head?, coefs)
  | none => .ok (rows.filterMap List.head?, coefs)

/-- one block: `sym AM` + table -/
def parseBlock (T : Tables ν) (spherical : Bool) (b : List Str × List (List ν)) : Except RErr (Nat × RShell ν) :=
  if b.2.isEmpty then .error .runtime else          -- min_size = 2
  match b.1 with
  | [sym, am] =>
    if !(isAlphaStr sym && isAlphaStr am) then .error .runtime else
    match T.amOf am with
    | none => .error .key
    | some l =>
      match T.zOf sym with
      | none => .error .key
      | some z =>
        match parseMatrix T b.2 (if l.length > 1 then some l.length else none) with
        | .error e => .error e
        | .ok (ex, co) => .ok (z, { ftype := T.ftypeOf l spherical, am := l, exps := ex, coefs := co })
  | _ => .error .runtime

/-- `create_element_data(..., key_exist_ok=True)` + append -/
def addShell (acc : List (Nat × List (RShell ν))) (z : Nat) (sh : RShell ν) : List (Nat × List (RShell ν)) :=
  match acc with
  | [] => [(z, [sh])]
  | (z0, shs) :: rest => if z0 = z then (z0, shs ++ [sh]) :: rest else (z0, shs) :: addShell rest z sh

def mapR {α β : Type} (f : α → Except RErr β) : List α → Except RErr (List β)
  | [] => .ok []
  | a :: as =>
    match f a with
    | .error e => .error e
    | .ok b =>
      match mapR f as with
      | .error e => .error e
      | .ok bs => .ok (b :: bs)

def hasSub (pat s : List Char) : Bool :=
  match s with
  | [] => pat.isEmpty
  | c :: cs => pat.isPrefixOf (c :: cs) || hasSub pat cs

/-- `_parse_electron_lines` -/
def readElectron (T : Tables ν) (lines : List (Line ν)) : Except RErr (List (Nat × List (RShell ν))) :=
  match lines.filter (fun l => !isEnd l) with
  | .head (t0 :: ts) :: body =>
    if !("basis".toList.isPrefixOf (lower t0)) then .error .runtime else
    let spherical := (t0 :: ts).any fun t => hasSub "spherical".toList (lower t)
    let pb := blocksR body
    if !pb.1.isEmpty then .error .runtime else      -- rows before the first `sym AM` line
    match mapR (parseBlock T spherical) pb.2 with
    | .error e => .error e
    | .ok shells => .ok (shells.foldl (fun acc zs => addShell acc zs.1 zs.2) [])
  | [] => .error .index
  | _ => .error .runtime

end BSE.Nwchem

/-! # the ECP section -/
namespace BSE.Nwchem
variable {ν : Type}

/-- a potential as stored: momentum and one term per line `(r exponent, gaussian exponent, coefficient)`
(NWChem holds a single coefficient column per potential) -/
structure EPot (ν : Type) where
  am : Nat
  terms : List (ν × ν × ν)

/-- a potential as read; `am = none` while it is the `ul` placeholder -/
structure RPot (ν : Type) where
  am : Option (List Nat)
  rexp : List ν
  gexp : List ν
  coef : List ν
  deriving DecidableEq

structure EcpTables (ν : Type) extends Tables ν where
  isInt : ν → Bool                 -- helpers.is_integer
  isDigits : Str → Bool            -- `\d+` of the nelec line

def insertPot (p : EPot ν) : List (EPot ν) → List (EPot ν)
  | [] => [p]
  | q :: qs => if p.am < q.am then p :: q :: qs else q :: insertPot p qs

/-- `sorted(pots, key=am)` then the highest first -/
def writeOrder (pots : List (EPot ν)) : List (EPot ν) :=
  let s := pots.foldr insertPot []
  match s.getLast? with
  | none => []
  | some top => top :: s.dropLast

def potLines (T : EcpTables ν) (z maxAm : Nat) (p : EPot ν) : List (Line ν) :=
  .head [T.symOf z, if p.am = maxAm then "ul".toList else T.amStr [p.am]]
    :: p.terms.map fun t => .row [t.1, t.2.1, t.2.2]

/-- one element: `sym nelec N`, then its potentials in write order -/
def ecpElementLines (T : EcpTables ν) (e : Nat × Str × List (EPot ν)) : List (Line ν) :=
  let maxAm := (e.2.2.map (·.am)).foldl max 0
  .head [T.symOf e.1, "nelec".toList, e.2.1] :: (writeOrder e.2.2).flatMap (potLines T e.1 maxAm)

def ecpLines (T : EcpTables ν) (els : List (Nat × Str × List (EPot ν))) : List (Line ν) :=
  .head ["ECP".toList] :: els.flatMap (ecpElementLines T) ++ [.head ["END".toList]]

/-- reader state per element: electron count (token) and potentials in reading order -/
abbrev EcpAcc (ν : Type) := List (Nat × Option Str × List (RPot ν))

def setNelec (acc : EcpAcc ν) (z : Nat) (n : Str) : Except RErr (EcpAcc ν) :=
  match acc with
  | [] => .ok [(z, some n, [])]
  | (z0, ne, ps) :: rest =>
    if z0 = z then (match ne with | some _ => .error .runtime | none => .ok ((z0, some n, ps) :: rest))
    else match setNelec rest z n with
      | .error e => .error e
      | .ok r => .ok ((z0, ne, ps) :: r)

def addPot (acc : EcpAcc ν) (z : Nat) (p : RPot ν) : EcpAcc ν :=
  match acc with
  | [] => [(z, none, [p])]
  | (z0, ne, ps) :: rest => if z0 = z then (z0, ne, ps ++ [p]) :: rest else (z0, ne, ps) :: addPot rest z p

/-- `helpers.parse_ecp_table` -/
def parseEcpTable (T : EcpTables ν) (rows : List (List ν)) : Except RErr (List ν × List ν × List ν) :=
  if rows.any (fun r => r.length != 3) then .error .runtime else
  let r := rows.filterMap (·[0]?)
  let g := rows.filterMap (·[1]?)
  let c := rows.filterMap (·[2]?)
  if !r.all T.isInt then .error .runtime else
  if !g.all T.isNum then .error .runtime else
  if !c.all T.isNum then .error .runtime else .ok (r, g, c)

def ecpBlock (T : EcpTables ν) (acc : EcpAcc ν) (b : List Str × List (List ν)) : Except RErr (EcpAcc ν) :=
  if b.2.isEmpty then
    -- a block of one line: must be `sym nelec N`
    match b.1 with
    | [sym, kw, n] =>
      if !(isAlphaStr sym && lower kw == "nelec".toList && T.isDigits n) then .error .runtime else
      match T.zOf (lower sym) with
      | none => .error .key
      | some z => setNelec acc z n
    | _ => .error .runtime
  else
    match b.1 with
    | [sym, am] =>
      if !(isAlphaStr sym && isAlphaStr am) then .error .runtime else
      match T.zOf sym with
      | none => .error .key
      | some z =>
        let amv : Except RErr (Option (List Nat)) :=
          if lower am == "ul".toList then .ok none else
          match T.amOf am with
          | none => .error .key
          | some l => .ok (some l)
        match amv with
        | .error e => .error e
        | .ok a =>
          match parseEcpTable T b.2 with
          | .error e => .error e
          | .ok (r, g, c) => .ok (addPot acc z { am := a, rexp := r, gexp := g, coef := c })
    | _ => .error .runtime

def foldE {α β : Type} (f : β → α → Except RErr β) : β → List α → Except RErr β
  | b, [] => .ok b
  | b, a :: as => match f b a with | .error e => .error e | .ok b' => foldE f b' as

/-- the `ul` potential gets (highest momentum among the others) + 1; `max()` of nothing is a ValueError (here: index) -/
def fixUl (ps : List (RPot ν)) : Except RErr (List (RPot ν)) :=
  let all := ps.flatMap fun p => p.am.getD []
  match all with
  | [] => .error .index
  | a :: as =>
    let m := as.foldl max a
    .ok (ps.map fun p => match p.am with | none => { p with am := some [m + 1] } | some _ => p)

/-- first closing loop: fix the placeholders of every element that has potentials -/
def fixStep (e : Nat × Option Str × List (RPot ν)) : Except RErr (Nat × Option Str × List (RPot ν)) :=
  if e.2.2.isEmpty then .ok e else
  match fixUl e.2.2 with
  | .error x => .error x
  | .ok ps => .ok (e.1, e.2.1, ps)

/-- second closing loop: potentials need an electron count -/
def nelecStep (e : Nat × Option Str × List (RPot ν)) : Except RErr (Nat × Str × List (RPot ν)) :=
  match e.2.1 with
  | some n => .ok (e.1, n, e.2.2)
  | none => if e.2.2.isEmpty then .ok (e.1, [], e.2.2) else .error .runtime

def finishEcp (acc : EcpAcc ν) : Except RErr (List (Nat × Str × List (RPot ν))) :=
  match mapR fixStep acc with
  | .error x => .error x
  | .ok acc' => mapR nelecStep acc'

/-- `_parse_ecp_lines` -/
def readEcp (T : EcpTables ν) (lines : List (Line ν)) : Except RErr (List (Nat × Str × List (RPot ν))) :=
  match lines.filter (fun l => !isEnd l) with
  | [] => .ok []
  | _ :: body =>
    let pb := blocksR body
    if !pb.1.isEmpty then .error .runtime else
    match foldE (ecpBlock T) [] pb.2 with
    | .error e => .error e
    | .ok acc => finishEcp acc

end BSE.Nwchem
