import BSEModel.Shell
namespace BSE
variable {ν : Type}

theorem mapE_ok {α β ε : Type} {f : α → Except ε β} {l : List α} {r : List β}
    (h : mapE f l = .ok r) :
    r.length = l.length ∧ ∀ i (h1 : i < l.length) (h2 : i < r.length), f l[i] = .ok r[i] := by
  induction l generalizing r with
  | nil => simp [mapE] at h; subst h; simp
  | cons a as ih =>
    simp only [mapE] at h
    cases hfa : f a with
    | error e => simp [hfa] at h
    | ok b =>
      simp only [hfa] at h
      cases hm : mapE f as with
      | error e => simp [hm] at h
      | ok bs =>
        simp only [hm] at h
        cases h
        obtain ⟨hl, hi⟩ := ih hm
        refine ⟨by simp [hl], ?_⟩
        intro i h1 h2
        cases i with
        | zero => simpa using hfa
        | succ i' => simpa using hi i' (by simpa using h1) (by simpa using h2)

theorem sum_filter_nonzero (val : ν → Rat) (g : List ν) :
    (g.map val).sum = ((g.filter (fun c => val c != 0)).map val).sum := by
  induction g with
  | nil => rfl
  | cons c cs ih =>
    by_cases h : val c = 0
    · simp [h, ih]; grind
    · simp [h, ih]

theorem pick_sum (val : ν → Rat) (g : List ν) (c : ν) (h : pick val g = .ok c) :
    val c = (g.map val).sum := by
  rw [sum_filter_nonzero]
  unfold pick at h
  cases hf : g.filter (fun c => val c != 0) with
  | nil =>
    cases g with
    | nil => simp [hf] at h
    | cons c0 cs =>
      simp only [hf] at h
      cases h
      have : ¬ (c ∈ (c :: cs).filter (fun c => val c != 0)) := by rw [hf]; simp
      simp [List.mem_filter] at this
      simp [this]
  | cons c0 rest =>
    cases rest with
    | nil =>
      simp only [hf] at h
      cases h
      simp; grind
    | cons c1 rest' =>
      simp only [hf] at h
      cases h

theorem sum_cval_eq (val : ν → Rat) (rs : List (List ν)) (j : Nat) :
    (rs.map fun r => cval val r j).sum = ((rs.filterMap (·[j]?)).map val).sum := by
  induction rs with
  | nil => rfl
  | cons r rs ih =>
    simp only [List.map_cons, List.sum_cons, List.filterMap_cons]
    cases hr : r[j]? with
    | none => simp [cval, hr] at ih ⊢; rw [ih]; grind
    | some c => simp [cval, hr] at ih ⊢; rw [ih]

/-- a collapsed row carries, in every column, the sum over the group -/
theorem collapse_sum (val : ν → Rat) (rs : List (List ν)) (m : Nat) (hne : rs ≠ [])
    (hr : Rect m rs) (r : List ν) (h : collapse val rs = .ok r) :
    r.length = m ∧ ∀ j, j < m → cval val r j = (rs.map fun r' => cval val r' j).sum := by
  unfold collapse at h
  split at h
  · rename_i r0
    cases h
    refine ⟨hr r (by simp), ?_⟩
    intro j _; simp; grind
  · rw [zipStar_closed hne hr] at h
    obtain ⟨hlen, hget⟩ := mapE_ok h
    have hlen : r.length = m := by simpa using hlen
    refine ⟨hlen, ?_⟩
    intro j hj
    have hjr : j < r.length := by omega
    have := hget j (by simpa using hj) hjr
    simp only [List.getElem_map, List.getElem_range] at this
    have hp := pick_sum val _ _ this
    rw [sum_cval_eq]
    simp only [cval]
    rw [List.getElem?_eq_getElem hjr]
    simpa using hp

end BSE
