/-! # Ownership model for C10 ("library functions never modify the caller's data")

A function body is abstracted to a small statement language over variables that hold references to
mutable containers (dict / list objects).  The **concrete semantics** is a heap of container nodes
(`heap n` = the container objects that are members of container `n`; strings, numbers and `None` have
no identity and are not nodes), an allocation pointer, an environment, the log of containers that
were written to and the log of returned values.  It is *relational*: `deepcopy` is specified (a new
region that points nowhere outside itself), `sub` picks any container reachable from its argument,
`store` replaces the members of one container by any list drawn from the old members and the stored
values, `derive` allocates a container whose members are drawn from what its arguments reach.

The **abstract semantics** (`check`) tracks two bits per variable — *may point to* and *may reach* a
container that existed before the call — and refuses a write through a variable that may point to
such a container and a `return` of a variable that may reach one.  `BSEProofs/Lemmas/HeapSound.lean`
proves that an accepted body never writes to a caller container and never returns anything from
which a caller container can be reached, along every execution (any branch choices, any number of
loop iterations, any choice of members). -/
namespace BSE.Heap

abbrev Var := Nat
abbrev Node := Nat

inductive Stmt where
  | skip
  /-- `x = copy.deepcopy(y)` -/
  | deepcopy (x y : Var)
  /-- `x` = a new container whose members come from what the `ys` reach: `y.copy()`, `list(y)`, `[y1, y2]`,
      `sorted(y)`, `dict(y)`, the result of a comprehension … (`derive x []` is a new empty container) -/
  | derive (x : Var) (ys : List Var)
  /-- `x = y` -/
  | alias (x y : Var)
  /-- `x` = some container reachable from `y` (`y[k]`, iteration, `y.get(k)`, `min(y)`, `y.pop()` …; also `y` itself) -/
  | sub (x y : Var)
  /-- container `x` is written to; afterwards its members are old members or the `ys`
      (`x[k] = y`, `x.append(y)`, `x.insert`, `del x[k]`, `x.pop()`, `x.sort()`, `x.clear()`, `x.update` …) -/
  | store (x : Var) (ys : List Var)
  /-- `return x` (analysis continues behind it: an over-approximation) -/
  | ret (x : Var)
  | seq (s t : Stmt)
  /-- both branches of an `if` (or: a statement that may be skipped) -/
  | choice (s t : Stmt)
  /-- any number of iterations -/
  | loop (s : Stmt)
  deriving Repr, Inhabited

/-! ## abstract state -/

/-- Sets of variables are bit masks (`Nat`; the kernel computes on them with its big-number arithmetic).
`pt`: variables that may point to a caller container.  `rc`/`neg`: variables that may reach one
— exactly the listed ones when `neg = false`, all but the listed ones when `neg = true` (after caller
data was stored into a local container every variable defined so far may reach it). -/
structure Abs where
  pt : Nat
  rc : Nat
  neg : Bool
  deriving Repr

def bit (x : Var) : Nat := 2 ^ x
/-- clear bit `x` -/
def clr (m : Nat) (x : Var) : Nat := m ^^^ (m &&& bit x)

def Abs.ptB (a : Abs) (v : Var) : Bool := a.pt.testBit v
def Abs.rcB (a : Abs) (v : Var) : Bool := if a.neg then !a.rc.testBit v else a.rc.testBit v

/-- assignment to `x` with the given bits -/
def Abs.set (a : Abs) (x : Var) (p r : Bool) : Abs :=
  { pt := if p then a.pt ||| bit x else clr a.pt x
    rc := if r != a.neg then a.rc ||| bit x else clr a.rc x
    neg := a.neg }

def Abs.taintAll (a : Abs) : Abs := { a with rc := 0, neg := true }

def Abs.join (a b : Abs) : Abs :=
  { pt := a.pt ||| b.pt
    rc := match a.neg, b.neg with
      | false, false => a.rc ||| b.rc
      | true, true => a.rc &&& b.rc
      | true, false => a.rc ^^^ (a.rc &&& b.rc)
      | false, true => b.rc ^^^ (b.rc &&& a.rc)
    neg := a.neg || b.neg }

/-- `b ⊑ a` -/
def Abs.le (b a : Abs) : Bool :=
  (b.pt &&& a.pt == b.pt) &&
  (match b.neg, a.neg with
    | false, false => b.rc &&& a.rc == b.rc
    | false, true => b.rc &&& a.rc == 0
    | true, true => a.rc &&& b.rc == a.rc
    | true, false => false)

def maskOf (vs : List Var) : Nat := vs.foldr (fun v m => m ||| bit v) 0

/-- the state at entry: the parameters point to caller containers, nothing else does -/
def Abs.init (params : List Var) : Abs := { pt := maskOf params, rc := maskOf params, neg := false }

/-- iteration to a post-fixpoint of the loop body; the result is *checked* to be one -/
def iter (f : Abs → Option Abs) : Nat → Abs → Option Abs
  | 0, _ => none
  | n + 1, a =>
    match f a with
    | none => none
    | some b => if b.le a then some a else iter f n (a.join b)

/-- fuel for `iter`: enough for every body over fewer than `fuel / 2` variables -/
def loopFuel : Nat := 400

/-- the ownership check: `none` = refused -/
def check : Stmt → Abs → Option Abs
  | .skip, a => some a
  | .deepcopy x _, a => some (a.set x false false)
  | .derive x ys, a => some (a.set x false (ys.any a.rcB))
  | .alias x y, a => some (a.set x (a.ptB y) (a.rcB y))
  | .sub x y, a => some (a.set x (a.rcB y) (a.rcB y))
  | .store x ys, a => if a.ptB x then none else if ys.any a.rcB then some a.taintAll else some a
  | .ret x, a => if a.rcB x then none else some a
  | .seq s t, a => match check s a with
    | none => none
    | some b => check t b
  | .choice s t, a => match check s a, check t a with
    | some b, some c => some (b.join c)
    | _, _ => none
  | .loop s, a => iter (check s) loopFuel a

/-- a function skeleton: name, parameters (caller-owned on entry), body -/
structure Skel where
  name : String
  params : List Var
  body : Stmt
  deriving Repr

def Skel.accepted (k : Skel) : Bool := (check k.body (Abs.init k.params)).isSome

/-- why a body is refused: the first offending statement in program order (for reports only) -/
def firstRefusal : Stmt → Abs → Except String Abs
  | .store x ys, a => if a.ptB x then .error s!"write through v{x} which may be a caller object" else
      if ys.any a.rcB then .ok a.taintAll else .ok a
  | .ret x, a => if a.rcB x then .error s!"return of v{x} from which a caller object may be reached" else .ok a
  | .seq s t, a => match firstRefusal s a with
    | .error e => .error e
    | .ok b => firstRefusal t b
  | .choice s t, a => match firstRefusal s a, firstRefusal t a with
    | .ok b, .ok c => .ok (b.join c)
    | .error e, _ => .error e
    | _, .error e => .error e
  | .loop s, a => match iter (check s) loopFuel a with
    | some b => .ok b
    | none =>
      -- find the message inside the body under the widest state reached
      let rec go (n : Nat) (a : Abs) : Except String Abs :=
        match n with
        | 0 => .error "loop: no fixpoint"
        | n + 1 => match firstRefusal s a with
          | .error e => .error e
          | .ok b => if b.le a then .ok a else go n (a.join b)
      go 40 a
  | st, a => match check st a with
    | some b => .ok b
    | none => .error "refused"

/-! ## concrete semantics -/

structure St where
  heap : Node → List Node
  next : Node
  env : Var → Node
  /-- containers written to so far -/
  muts : List Node
  /-- returned values, each with the heap at the moment of the return -/
  rets : List (Node × (Node → List Node))

inductive Reach (h : Node → List Node) : Node → Node → Prop
  | refl (a : Node) : Reach h a a
  | step {a k b : Node} : k ∈ h a → Reach h k b → Reach h a b

def upd {α : Type} (f : Nat → α) (i : Nat) (v : α) : Nat → α := fun j => if j = i then v else f j

inductive Exec : St → Stmt → St → Prop
  | skip (st : St) : Exec st .skip st
  | deepcopy (st st' : St) (x y : Var) (r : Node) :
      st.next ≤ r → r < st'.next →
      (∀ n, n < st.next → st'.heap n = st.heap n) →
      (∀ n, st.next ≤ n → ∀ k ∈ st'.heap n, st.next ≤ k ∧ k < st'.next) →
      st'.env = upd st.env x r → st'.muts = st.muts → st'.rets = st.rets →
      Exec st (.deepcopy x y) st'
  | derive (st : St) (x : Var) (ys : List Var) (L : List Node) :
      (∀ k ∈ L, ∃ y ∈ ys, Reach st.heap (st.env y) k) →
      Exec st (.derive x ys)
        { st with heap := upd st.heap st.next L, next := st.next + 1, env := upd st.env x st.next }
  | alias (st : St) (x y : Var) : Exec st (.alias x y) { st with env := upd st.env x (st.env y) }
  | sub (st : St) (x y : Var) (k : Node) : Reach st.heap (st.env y) k →
      Exec st (.sub x y) { st with env := upd st.env x k }
  | store (st : St) (x : Var) (ys : List Var) (L : List Node) :
      (∀ k ∈ L, k ∈ st.heap (st.env x) ∨ ∃ y ∈ ys, k = st.env y) →
      Exec st (.store x ys) { st with heap := upd st.heap (st.env x) L, muts := st.env x :: st.muts }
  | ret (st : St) (x : Var) : Exec st (.ret x) { st with rets := (st.env x, st.heap) :: st.rets }
  | seq {st st1 st2 : St} {s t : Stmt} : Exec st s st1 → Exec st1 t st2 → Exec st (.seq s t) st2
  | choiceL {st st' : St} {s t : Stmt} : Exec st s st' → Exec st (.choice s t) st'
  | choiceR {st st' : St} {s t : Stmt} : Exec st t st' → Exec st (.choice s t) st'
  | loopDone (st : St) (s : Stmt) : Exec st (.loop s) st
  | loopStep {st st1 st2 : St} {s : Stmt} : Exec st s st1 → Exec st1 (.loop s) st2 → Exec st (.loop s) st2

/-- entry state of a call: everything below `n0` exists already (the caller's containers, closed under
membership), the parameters point there, every other variable is bound to one new empty container -/
structure Init (n0 : Node) (h0 : Node → List Node) (params : List Var) (st : St) : Prop where
  next_eq : st.next = n0 + 1
  heap_eq : ∀ n, n < n0 → st.heap n = h0 n
  heap_new : st.heap n0 = []
  params_owned : ∀ v, v ∈ params → st.env v < n0
  others_new : ∀ v, v ∉ params → st.env v = n0
  no_muts : st.muts = []
  no_rets : st.rets = []

end BSE.Heap
