import BSEModel.Index
/-! Model of `curate.add_basis.add_from_components` as a transition on a data directory
(`Files` = path ↦ JSON content).  The result is the directory left behind **and** whether the call
raised — files are written before later steps can fail. -/
namespace BSE.AddBasis
open BSE BSE.Compose BSE.Index

abbrev Files := List (String × J)

def dirOf (fs : Files) : Dir := fun p => (fs.find? (·.1 == p)).map (·.2)
def exists_ (fs : Files) (p : String) : Bool := fs.any (·.1 == p)

/-- `os.path.join(a, b)` for relative `b` -/
def joinPath (a b : String) : String := if a.isEmpty then b else a ++ "/" ++ b

structure Req where
  comps : List String          -- component files, relative to the data directory
  subdir : String
  fileBase : String
  name : String
  family : String
  role : String
  description : String
  version : String
  revdesc : String
  today : String               -- `datetime.date.today().isoformat()`
  deriving Repr

def schemaTag (t : String) : J := .obj [("schema_type", .str t), ("schema_version", .str "0.1")]

def interKeys : List (List String) → List String
  | [] => []
  | [l] => l
  | l :: rest => l.filter (fun k => (interKeys rest).contains k)

/-- write a file that is known not to exist yet (append), or replace the index -/
def put (fs : Files) (p : String) (j : J) : Files :=
  if exists_ fs p then fs.map (fun kv => if kv.1 == p then (p, j) else kv) else fs ++ [(p, j)]

/-- what will be written: (element path, element file), (table path, table file), (metadata path, metadata file) -/
structure Plan where
  elemRel : String
  elemData : J
  tableRel : String
  tableData : J
  metaRel : String
  metaData : J

def nameClash (fs : Files) (r : Req) : Bool :=
  match dirOf fs "METADATA.json" with
  | some (.obj md) => (match Dict.get? md (transformName r.name) with
      | some (.obj e) => (match Dict.get? e "basename" with | some (.str b) => b != r.fileBase | _ => false)
      | _ => false)
  | _ => false

/-- the file base already has a metadata file whose names do not include the given name (the new version would be filed
under those names) -/
def baseClash (fs : Files) (r : Req) : Bool :=
  match dirOf fs (r.fileBase ++ ".metadata.json") with
  | some (.obj md) => (match Dict.get? md "names" with
      | some (.arr ns) => !(ns.any fun n => match n with | .str x => transformName x == transformName r.name | _ => false)
      | _ => false)
  | _ => false

/-- everything `add_from_components` does before it writes its first file; the directory is only read -/
def precheck (fs : Files) (r : Req) : Except PyErr Plan :=
  if r.comps.isEmpty then .error .runtime else
  match mapEx (fun c => do
      let d ← readBasis (dirOf fs) c
      let els ← asObj (← getKey d "elements")
      pure (Dict.keys els)) r.comps with
  | .error e => .error e
  | .ok keyLists =>
    let valid := sortNum (interKeys keyLists)
    let elemRel := joinPath r.subdir (r.fileBase ++ "." ++ r.version ++ ".element.json")
    let tableRel := r.fileBase ++ "." ++ r.version ++ ".table.json"
    let metaRel := r.fileBase ++ ".metadata.json"
    let elemData : J := .obj [("molssi_bse_schema", schemaTag "element"), ("name", .str r.name), ("description", .str r.description),
      ("elements", .obj (valid.map fun z => (z, .obj [("components", .arr (r.comps.map .str))])))]
    let tableData : J := .obj [("molssi_bse_schema", schemaTag "table"), ("revision_description", .str r.revdesc),
      ("revision_date", .str r.today), ("elements", .obj (valid.map fun z => (z, .str elemRel)))]
    let metaData : J := .obj [("molssi_bse_schema", schemaTag "metadata"), ("names", .arr [.str r.name]), ("tags", .arr []),
      ("family", .str r.family), ("description", .str r.description), ("role", .str r.role), ("auxiliaries", .obj [])]
    -- the element file must have at least one element (schema): validation fails before anything is written
    if valid.isEmpty then .error .value else
    -- the name must not belong to another file base
    if nameClash fs r then .error .runtime else
    if baseClash fs r then .error .runtime else
    if exists_ fs elemRel then .error .runtime else
    if exists_ fs tableRel then .error .runtime else
    .ok { elemRel, elemData, tableRel, tableData, metaRel, metaData }

/-- the writes, then the regeneration of the index -/
def commit (fs : Files) (pl : Plan) : Files × Option PyErr :=
  let fs2 := fs ++ [(pl.elemRel, pl.elemData)] ++ [(pl.tableRel, pl.tableData)]
  let fs3 := if exists_ fs2 pl.metaRel then fs2 else fs2 ++ [(pl.metaRel, pl.metaData)]
  match createMetadata (dirOf fs3) (fs3.map (·.1)) with
  | .error e => (fs3, some e)
  | .ok md => (put fs3 "METADATA.json" (.obj md), none)

def addFromComponents (fs : Files) (r : Req) : Files × Option PyErr :=
  match precheck fs r with
  | .error e => (fs, some e)
  | .ok pl => commit fs pl

/-! ## `add_basis_from_dict`: the caller's dictionary becomes the component file -/

/-- the value a reference map gives for a group of elements: one key, or a list of keys -/
inductive RefVal
  | one (k : String)
  | many (ks : List String)
  deriving Repr

def RefVal.toJ : RefVal → J
  | .one k => .arr [.str k]
  | .many ks => .arr (ks.map .str)

/-- the `refs` argument: `None`, a string, a list of strings, a map from compact element strings, or anything else -/
inductive RefSpec
  | none
  | one (k : String)
  | many (ks : List String)
  | map (m : List (String × RefVal))
  | other
  deriving Repr

/-- `elements[el]['references'] = v` -/
def setRefs (els : Dict) (el : String) (v : J) : Except PyErr Dict :=
  match Dict.get? els el with
  | some (.obj e) => .ok (Dict.set els el (.obj (Dict.set e "references" v)))
  | some _ => .error .type
  | none => .error .key

/-- one entry of the map: every element it names must be in the dictionary and not named before -/
def attachGroup (orig : List String) (v : RefVal) : List String → Dict × List String → Except PyErr (Dict × List String)
  | [], st => .ok st
  | el :: rest, (els, done) =>
    if !orig.contains el then .error .runtime else
    if done.contains el then .error .runtime else
    match setRefs els el v.toJ with
    | .error e => .error e
    | .ok els' => attachGroup orig v rest (els', done)

/-- the loop over the reference map; `expand` is `misc.expand_elements(k, True)` -/
def attachMap (expand : String → Except PyErr (List String)) (orig : List String) :
    List (String × RefVal) → Dict × List String → Except PyErr (Dict × List String)
  | [], st => .ok st
  | (k, v) :: rest, (els, done) =>
    match expand k with
    | .error e => .error e
    | .ok zs =>
      match attachGroup orig v zs (els, done) with
      | .error e => .error e
      | .ok (els', done') => attachMap expand orig rest (els', done' ++ zs)

def attachAll (els : Dict) (v : J) : Except PyErr Dict :=
  els.foldl (fun acc kv => match acc with
    | .error e => .error e
    | .ok d => setRefs d kv.1 v) (.ok els)

/-- the reference part of `add_basis_from_dict` -/
def attachRefs (expand : String → Except PyErr (List String)) (els : Dict) : RefSpec → Except PyErr Dict
  | .none => attachAll els (.arr [])
  | .one k => attachAll els (.arr [.str k])
  | .many ks => attachAll els (.arr (ks.map .str))
  | .map m =>
    match attachMap expand (Dict.keys els) m (els, []) with
    | .error e => .error e
    | .ok (els', done) =>
      -- elements without a reference get an empty list
      attachAllIn els' ((Dict.keys els).filter (fun z => !done.contains z))
  | .other => .error .runtime
where
  attachAllIn (els : Dict) : List String → Except PyErr Dict
    | [] => .ok els
    | z :: zs => match setRefs els z (.arr []) with
      | .error e => .error e
      | .ok els' => attachAllIn els' zs

structure DictReq where
  subdir : String
  fileBase : String
  name : String
  family : String
  role : String
  description : String
  version : String
  revdesc : String
  dataSource : String
  today : String
  deriving Repr

def DictReq.compRel (r : DictReq) : String := joinPath r.subdir (r.fileBase ++ "." ++ r.version ++ ".json")

def DictReq.toReq (r : DictReq) : Req :=
  { comps := [r.compRel], subdir := r.subdir, fileBase := r.fileBase, name := r.name, family := r.family, role := r.role,
    description := r.description, version := r.version, revdesc := r.revdesc, today := r.today }

/-- the dictionary that is validated and written: description and data source set, references attached -/
def componentOf (expand : String → Except PyErr (List String)) (bs : Dict) (r : DictReq) (refs : RefSpec) : Except PyErr Dict :=
  let bs1 := Dict.set (Dict.set bs "description" (.str r.description)) "data_source" (.str r.dataSource)
  match Dict.get? bs1 "elements" with
  | some (.obj els) =>
    match attachRefs expand els refs with
    | .error e => .error e
    | .ok els' => .ok (Dict.set bs1 "elements" (.obj els'))
  | some _ => .error .attribute
  | none => .error .key

/-- `add_basis_from_dict`: `valid` is the verdict of `validate_data('component', …)` on the dictionary about to be written -/
def addBasisFromDict (expand : String → Except PyErr (List String)) (valid : Dict → Bool)
    (fs : Files) (bs : Dict) (r : DictReq) (refs : RefSpec) : Files × Option PyErr :=
  match componentOf expand bs r refs with
  | .error e => (fs, some e)
  | .ok comp =>
    if !valid comp then (fs, some .runtime) else
    if exists_ fs r.compRel then (fs, some .runtime) else
    addFromComponents (fs ++ [(r.compRel, .obj comp)]) r.toReq

end BSE.AddBasis
