/-! Python `zip(*m)` on lists of lists -/
namespace BSE
variable {α : Type}

/-- `list(map(list, zip(*m)))` : rows of the transposed matrix, truncated to the shortest column;
    `[]` when there is no column. Fuel = an upper bound on the number of rows. -/
def zipStarAux : Nat → List (List α) → List (List α)
  | 0, _ => []
  | fuel+1, m =>
    if m = [] ∨ m.any List.isEmpty then [] else
      m.filterMap List.head? :: zipStarAux fuel (m.map List.tail)

def zipStar (m : List (List α)) : List (List α) :=
  zipStarAux ((m.head?.map List.length).getD 0) m

/-- every column has length `n` -/
def Rect (n : Nat) (m : List (List α)) : Prop := ∀ c ∈ m, c.length = n

theorem zipStarAux_length {n : Nat} {m : List (List α)} (hm : m ≠ []) (h : Rect n m) :
    (zipStarAux n m).length = n := by
  induction n generalizing m with
  | zero => simp [zipStarAux]
  | succ k ih =>
    have hne : ¬ (m = [] ∨ m.any List.isEmpty = true) := by
      intro hc
      rcases hc with hc | hc
      · exact hm hc
      · simp only [List.any_eq_true] at hc
        obtain ⟨c, hc, he⟩ := hc
        have := h c hc
        cases c with
        | nil => simp at this
        | cons _ _ => simp at he
    simp only [zipStarAux, hne, if_false, List.length_cons]
    rw [ih]
    · simpa using hm
    · intro c hc
      simp only [List.mem_map] at hc
      obtain ⟨c', hc', rfl⟩ := hc
      have := h c' hc'
      simp [this]

/-- entry (i,j) of the transpose is entry (j,i) -/
theorem zipStarAux_get {n : Nat} {m : List (List α)} (hm : m ≠ []) (h : Rect n m)
    (i : Nat) (hi : i < n) (j : Nat) (hj : j < m.length) :
    ((zipStarAux n m)[i]?.bind (·[j]?)) = (m[j]?.bind (·[i]?)) := by
  induction n generalizing m i with
  | zero => omega
  | succ k ih =>
    have hne : ¬ (m = [] ∨ m.any List.isEmpty = true) := by
      intro hc
      rcases hc with hc | hc
      · exact hm hc
      · simp only [List.any_eq_true] at hc
        obtain ⟨c, hc, he⟩ := hc
        have := h c hc
        cases c with
        | nil => simp at this
        | cons _ _ => simp at he
    simp only [zipStarAux, hne, if_false]
    cases i with
    | zero =>
      simp only [List.getElem?_cons_zero, Option.bind_some]
      -- filterMap head? at j
      have hall : ∀ c ∈ m, ∃ x xs, c = x :: xs := by
        intro c hc
        have := h c hc
        cases c with
        | nil => simp at this
        | cons x xs => exact ⟨x, xs, rfl⟩
      clear ih hne h hm
      induction m generalizing j with
      | nil => simp at hj
      | cons c cs ihm =>
        obtain ⟨x, xs, rfl⟩ := hall _ (List.mem_cons_self)
        cases j with
        | zero => simp
        | succ j' =>
          simp only [List.filterMap_cons, List.head?_cons, List.getElem?_cons_succ]
          apply ihm
          · simpa using hj
          · intro c hc; exact hall c (List.mem_cons_of_mem _ hc)
    | succ i' =>
      simp only [List.getElem?_cons_succ]
      rw [ih (m := m.map List.tail)]
      · simp only [List.getElem?_map]
        cases hmj : m[j]? with
        | none => simp
        | some c => simp [List.getElem?_tail] <;> cases c <;> simp
      · simpa using hm
      · intro c hc
        simp only [List.mem_map] at hc
        obtain ⟨c', hc', rfl⟩ := hc
        have := h c' hc'
        simp [this]
      · omega
      · simpa using hj

end BSE

namespace BSE
variable {α : Type}

theorem rect_nonempty_cols {n : Nat} {m : List (List α)} (h : Rect (n+1) m) :
    ¬ (m.any List.isEmpty = true) := by
  intro hc
  simp only [List.any_eq_true] at hc
  obtain ⟨c, hc, he⟩ := hc
  have := h c hc
  cases c with
  | nil => simp at this
  | cons _ _ => simp at he

/-- closed form of the transpose of a rectangular matrix -/
theorem zipStarAux_closed {n : Nat} {m : List (List α)} (hm : m ≠ []) (h : Rect n m) :
    zipStarAux n m = (List.range n).map (fun i => m.filterMap (·[i]?)) := by
  induction n generalizing m with
  | zero => simp [zipStarAux]
  | succ k ih =>
    have hne : ¬ (m = [] ∨ m.any List.isEmpty = true) := by
      intro hc; rcases hc with hc | hc
      · exact hm hc
      · exact rect_nonempty_cols h hc
    simp only [zipStarAux, hne, if_false]
    rw [List.range_succ_eq_map, List.map_cons, List.map_map]
    congr 1
    · have : (List.head? : List α → Option α) = (fun x => x[0]?) := by
        funext c; cases c <;> simp
      rw [this]
    · rw [ih (m := m.map List.tail) (by simpa using hm)]
      · apply List.map_congr_left
        intro i _
        simp only [Function.comp, List.filterMap_map]
        have : ((fun x : List α => x[i]?) ∘ List.tail) = (fun x => x[i+1]?) := by
          funext c; cases c <;> simp
        rw [this]
      · intro c hc
        simp only [List.mem_map] at hc
        obtain ⟨c', hc', rfl⟩ := hc
        have := h c' hc'
        simp [this]

theorem zipStar_closed {n : Nat} {m : List (List α)} (hm : m ≠ []) (h : Rect n m) :
    zipStar m = (List.range n).map (fun i => m.filterMap (·[i]?)) := by
  unfold zipStar
  cases m with
  | nil => exact absurd rfl hm
  | cons c cs =>
    have : c.length = n := h c (by simp)
    simp only [List.head?_cons, Option.map_some, Option.getD_some, this]
    exact zipStarAux_closed hm h

end BSE
