import BSEModel.Nwchem
import BSEModel.Notation
/-! The NWChem token model with the library's own look-up tables (regenerated from `lut.py`). -/
namespace BSE.Nwchem
open BSE.Notation

/-- all-or-nothing map of the momentum letters (`amchar_to_int`, hik convention as the reader calls it) -/
def amOfReal : Str → Option (List Nat)
  | [] => some []
  | c :: cs => match amInt false c, amOfReal cs with
    | some l, some ls => some (l :: ls)
    | _, _ => none

def realTables {ν : Type} (isNum : ν → Bool) : Tables ν where
  symOf z := (symFromZNorm z).getD []
  zOf := zFromSym
  amStr am := (am.filterMap (amChar false)).map Char.toUpper
  amOf := amOfReal
  ftypeOf am spherical :=
    if am.foldl max 0 ≤ 1 then "gto".toList else if spherical then "gto_spherical".toList else "gto_cartesian".toList
  isNum := isNum

end BSE.Nwchem

namespace BSE.Nwchem
def realEcpTables {ν : Type} (isNum isInt : ν → Bool) : EcpTables ν :=
  { realTables isNum with isInt := isInt, isDigits := fun s => !s.isEmpty && s.all Char.isDigit }
end BSE.Nwchem
