import BSEModel.Manip
import BSEModel.MakeGeneral
/-! Executable canonical form of contracted functions and the *verified checker* `sameFuncs`:
`sameFuncs val a b = true → ∀ f, funcSet val a f ↔ funcSet val b f`.
The driver evaluates `sameFuncs` on the implementation's input and output. -/
namespace BSE
variable {ν : Type}

/-- support points of a column: per distinct exponent value the summed coefficient, zeros dropped -/
def colPoints (val : ν → Rat) (exps col : List ν) : List (Rat × Rat) :=
  ((dedupKeys (exps.map val)).map fun x => (x, colFn val exps col x)).filter (fun p => p.2 != 0)

def pointsEq (a b : List (Rat × Rat)) : Bool := a.all (b.contains ·) && b.all (a.contains ·)

/-- (momentum, column) pairs of a shell, as `Shell.funcs` reads them -/
def Shell.amCols (sh : Shell ν) : List (Nat × List ν) :=
  if sh.am.length > 1 then sh.am.zip sh.coefs else sh.coefs.map (fun c => (sh.am.headD 0, c))

theorem Shell.funcs_eq (val : ν → Rat) (sh : Shell ν) :
    sh.funcs val = sh.amCols.map (fun p => (p.1, colFn val sh.exps p.2)) := by
  unfold Shell.funcs Shell.amCols
  split
  · rw [List.map_zip_eq_zipWith]; rfl
  · simp [List.map_map, Function.comp]

def Shell.canon (val : ν → Rat) (sh : Shell ν) : List (Nat × List (Rat × Rat)) :=
  sh.amCols.map (fun p => (p.1, colPoints val sh.exps p.2))

def canonFuncs (val : ν → Rat) (shells : List (Shell ν)) : List (Nat × List (Rat × Rat)) :=
  shells.flatMap (·.canon val)

def subFuncs (a b : List (Nat × List (Rat × Rat))) : Bool :=
  a.all fun f => b.any fun g => f.1 == g.1 && pointsEq f.2 g.2

/-- the checker -/
def sameFuncs (val : ν → Rat) (a b : List (Shell ν)) : Bool :=
  subFuncs (canonFuncs val a) (canonFuncs val b) && subFuncs (canonFuncs val b) (canonFuncs val a)

/-! ### soundness -/

theorem colFn_zero_of_not_mem (val : ν → Rat) (exps col : List ν) (x : Rat) (h : x ∉ exps.map val) :
    colFn val exps col x = 0 := by
  unfold colFn
  induction exps generalizing col with
  | nil => simp
  | cons e es ih =>
    cases col with
    | nil => simp
    | cons c cs =>
      have h1 : val e ≠ x := fun hh => h (by simp [hh])
      have h2 : x ∉ es.map val := fun hh => h (by simp at hh ⊢; exact Or.inr hh)
      simp only [List.zip_cons_cons, List.map_cons, List.sum_cons, h1, if_false]
      rw [ih cs h2]; grind

theorem mem_colPoints (val : ν → Rat) (exps col : List ν) (x y : Rat) :
    (x, y) ∈ colPoints val exps col ↔ (y = colFn val exps col x ∧ y ≠ 0 ∧ x ∈ exps.map val) := by
  unfold colPoints
  simp only [List.mem_filter, List.mem_map, mem_dedupKeys]
  constructor
  · rintro ⟨⟨x', hx', heq⟩, hne⟩
    simp only [Prod.mk.injEq] at heq
    obtain ⟨rfl, rfl⟩ := heq
    refine ⟨rfl, by simpa using hne, ?_⟩
    simpa using hx'
  · rintro ⟨rfl, hne, hx⟩
    exact ⟨⟨x, by simpa using hx, rfl⟩, by simpa using hne⟩

/-- equal support points ⇒ equal contracted function -/
theorem colFn_eq_of_pointsEq (val : ν → Rat) (e1 c1 e2 c2 : List ν)
    (h : pointsEq (colPoints val e1 c1) (colPoints val e2 c2) = true) :
    colFn val e1 c1 = colFn val e2 c2 := by
  simp only [pointsEq, Bool.and_eq_true, List.all_eq_true, List.contains_iff_mem] at h
  obtain ⟨h12, h21⟩ := h
  funext x
  by_cases ha : colFn val e1 c1 x = 0
  · by_cases hb : colFn val e2 c2 x = 0
    · rw [ha, hb]
    · have hx : x ∈ e2.map val :=
        Classical.byContradiction fun hn => hb (colFn_zero_of_not_mem val e2 c2 x hn)
      have := h21 (x, colFn val e2 c2 x) ((mem_colPoints val e2 c2 x _).2 ⟨rfl, hb, hx⟩)
      have := ((mem_colPoints val e1 c1 x _).1 this).1
      rw [this]
  · have hx : x ∈ e1.map val :=
      Classical.byContradiction fun hn => ha (colFn_zero_of_not_mem val e1 c1 x hn)
    have := h12 (x, colFn val e1 c1 x) ((mem_colPoints val e1 c1 x _).2 ⟨rfl, ha, hx⟩)
    exact ((mem_colPoints val e2 c2 x _).1 this).1

theorem funcSet_of_subFuncs (val : ν → Rat) (a b : List (Shell ν))
    (h : subFuncs (canonFuncs val a) (canonFuncs val b) = true) (f : Func) :
    funcSet val a f → funcSet val b f := by
  rintro ⟨sh, hsh, hf⟩
  rw [Shell.funcs_eq] at hf
  obtain ⟨p, hp, rfl⟩ := List.mem_map.1 hf
  simp only [subFuncs, List.all_eq_true, List.any_eq_true, Bool.and_eq_true, beq_iff_eq] at h
  have hin : (p.1, colPoints val sh.exps p.2) ∈ canonFuncs val a := by
    unfold canonFuncs
    exact List.mem_flatMap.2 ⟨sh, hsh, List.mem_map.2 ⟨p, hp, rfl⟩⟩
  obtain ⟨g, hg, hl, hpts⟩ := h _ hin
  unfold canonFuncs at hg
  obtain ⟨sh', hsh', hg'⟩ := List.mem_flatMap.1 hg
  obtain ⟨q, hq, rfl⟩ := List.mem_map.1 hg'
  refine ⟨sh', hsh', ?_⟩
  rw [Shell.funcs_eq]
  refine List.mem_map.2 ⟨q, hq, ?_⟩
  simp only at hl hpts
  rw [colFn_eq_of_pointsEq val _ _ _ _ hpts, hl]

/-- **soundness of the checker**: whenever the driver answers `true`, the two shell lists carry
exactly the same set of contracted functions (momentum and exponent ↦ coefficient map) -/
theorem sameFuncs_sound (val : ν → Rat) (a b : List (Shell ν)) (h : sameFuncs val a b = true) (f : Func) :
    funcSet val a f ↔ funcSet val b f := by
  simp only [sameFuncs, Bool.and_eq_true] at h
  exact ⟨funcSet_of_subFuncs val a b h.1 f, funcSet_of_subFuncs val b a h.2 f⟩

end BSE
