/-! # The three reference renderers: `refconverters/bib.py`, `ris.py`, `endnote.py`

An entry of the reference database is an entry type and an ordered list of fields whose values are strings or lists of
strings (authors, editors).  Text is `List Char`. -/
namespace BSE.RefRender

abbrev Str := List Char

inductive Val
  | str (s : Str)
  | list (l : List Str)

structure Entry where
  etype : Str
  fields : List (Str × Val)     -- in dictionary order, `_entry_type` not included

def joinSep (sep : Str) : List Str → Str
  | [] => []
  | [x] => x
  | x :: y :: rest => x ++ sep ++ joinSep sep (y :: rest)

/-- Python's `str(list_of_str)` for items without quotes, backslashes or control characters: `['a', 'b']` -/
def listRepr (l : List Str) : Str :=
  "[".toList ++ joinSep ", ".toList (l.map fun x => "'".toList ++ x ++ "'".toList) ++ "]".toList

/-- `'{}'.format(v)` -/
def fmtVal : Val → Str
  | .str s => s
  | .list l => listRepr l

/-! ## BibTeX -/

def bibLine (kv : Str × Val) : Str :=
  match kv.2 with
  | .list l =>
    if kv.1 = "authors".toList then "    author = {".toList ++ joinSep " and ".toList l ++ "}".toList
    else if kv.1 = "editors".toList then "    editor = {".toList ++ joinSep " and ".toList l ++ "}".toList
    else "    ".toList ++ kv.1 ++ " = {".toList ++ listRepr l ++ "}".toList
  | .str s =>
    -- a string under `authors` / `editors` would be joined character by character; the database has lists there
    if kv.1 = "authors".toList then "    author = {".toList ++ joinSep " and ".toList (s.map fun c => [c]) ++ "}".toList
    else if kv.1 = "editors".toList then "    editor = {".toList ++ joinSep " and ".toList (s.map fun c => [c]) ++ "}".toList
    else "    ".toList ++ kv.1 ++ " = {".toList ++ s ++ "}".toList

def writeBib (key : Str) (e : Entry) : Str :=
  "@".toList ++ e.etype ++ "{".toList ++ key ++ ",\n".toList ++ joinSep ",\n".toList (e.fields.map bibLine) ++ "\n}".toList

/-! ## RIS and EndNote: a type line, then one line per field (authors: one per author) -/

def risType (t : Str) : Str :=
  if t = "article".toList then "TY Journal Article \n".toList
  else if t = "misc".toList then "TY Generic \n".toList
  else if t = "unpublished".toList then "TY Unpublished \n".toList
  else if t = "incollection".toList then "TY Book \n".toList
  else if t = "phdthesis".toList then "TY Thesis \n".toList
  else if t = "dataset".toList then "TY Dataset \n".toList
  else if t = "techreport".toList then "TY Report \n".toList
  else "TY Generic\n".toList

def endnoteType (t : Str) : Str :=
  if t = "article".toList then "%0 Journal Article \n".toList
  else if t = "misc".toList then "%0 Generic \n".toList
  else if t = "unpublished".toList then "%0 Unpublished \n".toList
  else if t = "incollection".toList then "%0 Book \n".toList
  else if t = "phdthesis".toList then "%0 Thesis \n".toList
  else if t = "techreport".toList then "%0 Report \n".toList
  else if t = "dataset".toList then "%0 Data Set \n".toList
  else "%0 Generic\n".toList

/-- tags for (authors, year, journal, volume, pages, title, doi, other) -/
structure Tags where
  au : Str
  py : Str
  jo : Str
  vl : Str
  sp : Str
  t1 : Str
  doi : Str
  other : Str

def risTags : Tags := ⟨"AU ".toList, "PY ".toList, "JO ".toList, "VL ".toList, "SP ".toList, "T1 ".toList, "DO ".toList, "N1 ".toList⟩
def endnoteTags : Tags := ⟨"%A ".toList, "%D ".toList, "%J ".toList, "%V ".toList, "%P ".toList, "%T ".toList, "%R ".toList, "%Z ".toList⟩

/-- the lines one field contributes -/
def tagLines (T : Tags) (kv : Str × Val) : List Str :=
  if kv.1 = "authors".toList then
    match kv.2 with
    | .list l => l.map fun a => T.au ++ a
    | .str s => s.map fun c => T.au ++ [c]
  else if kv.1 = "year".toList then [T.py ++ fmtVal kv.2]
  else if kv.1 = "journal".toList then [T.jo ++ fmtVal kv.2]
  else if kv.1 = "volume".toList then [T.vl ++ fmtVal kv.2]
  else if kv.1 = "pages".toList then [T.sp ++ fmtVal kv.2]
  else if kv.1 = "title".toList then [T.t1 ++ fmtVal kv.2]
  else if kv.1 = "doi".toList then [T.doi ++ fmtVal kv.2]
  else [T.other ++ kv.1 ++ ":".toList ++ fmtVal kv.2]

def writeTagged (T : Tags) (typeLine : Str → Str) (key : Str) (e : Entry) : Str :=
  "#".toList ++ e.etype ++ " ".toList ++ key ++ "\n".toList ++ typeLine e.etype
    ++ joinSep "\n".toList (e.fields.flatMap (tagLines T)) ++ "\n".toList

def writeRis (key : Str) (e : Entry) : Str := writeTagged risTags risType key e
def writeEndnote (key : Str) (e : Entry) : Str := writeTagged endnoteTags endnoteType key e

end BSE.RefRender
