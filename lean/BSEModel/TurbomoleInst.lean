import BSEModel.Turbomole
import BSEModel.TurbomoleEcp
import BSEModel.G94Inst
/-! The Turbomole token model with the library's own tables (lower-case symbols, hik letters in lower case). -/
namespace BSE.Turbomole
open BSE.Notation BSE.Nwchem

def amOfHik : List Char → Option (List Nat)
  | [] => some []
  | c :: cs => match amInt false c, amOfHik cs with
    | some l, some ls => some (l :: ls)
    | _, _ => none

def realTTables {ν : Type} (isNum isInt : ν → Bool) : TTables ν where
  symOf z := (symFromZ z).getD []
  zOf := zFromSym
  amStr am := am.filterMap (amChar false)
  amOf := amOfHik
  ftypeOf am spherical :=
    if am.foldl max 0 ≤ 1 then "gto".toList else if spherical then "gto_spherical".toList else "gto_cartesian".toList
  isNum := isNum
  natStr n := (toString n).toList
  natOf := BSE.G94.natOfStr
  isInt := isInt

/-- the `$ecp` section with the library's tables: symbols in lower case, the writer's letters from the hij table
(`amint_to_char(am, hij=True)`), the reader's from the hik table (`amchar_to_int(letter)`, default) -/
def realPTables {ν : Type} (isNum isInt : ν → Bool) : PTables ν where
  symOf z := (symFromZ z).getD []
  zOf := zFromSym
  natStr n := (toString n).toList
  natOf := BSE.G94.natOfStr
  amLetter l := [l].filterMap (amChar true)
  amOfLetter := amOfHik
  isInt := isInt
  isNum := isNum

end BSE.Turbomole
