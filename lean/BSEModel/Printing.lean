/-! Model of `printing.write_matrix`: cells are printed verbatim (`str(cell)`), aligned on the decimal
point, at least one blank between cells; optionally every `e`/`E` becomes `D`. -/
namespace BSE.Printing

abbrev Str := List Char

/-- a matrix cell: its text and whether it is a Python `int` (then the "point" is at position 0) -/
structure Cell where
  text : Str
  isInt : Bool
  deriving Repr, DecidableEq

/-- `_find_point`; `none` = ValueError (a string without '.') -/
def findPoint (c : Cell) : Option Nat :=
  if c.isInt then some 0 else
  let i := c.text.findIdx (· == '.')
  if i < c.text.length then some i else none

/-- `_determine_leftpad` for one cell -/
def leftpad (pointPlace : Nat) (c : Cell) : Option Nat := (findPoint c).map fun x => (pointPlace - 1) - x

/-- one printed row: cells with their pads; `line` is what has been written so far -/
def rowLine : List (Nat × Str) → Str → Str
  | [], line => line
  | (pad, txt) :: rest, line =>
    let sp := if line.isEmpty then pad - line.length else max (pad - line.length) 1
    rowLine rest (line ++ List.replicate sp ' ' ++ txt)

def convExp (conv : Bool) (s : Str) : Str := if conv then s.map (fun c => if c = 'e' ∨ c = 'E' then 'D' else c) else s

/-- rows = Python `zip(*columns)` (truncating to the shortest column) -/
def transposeCols {α} : Nat → List (List α) → List (List α)
  | 0, _ => []
  | n + 1, cols => if cols.isEmpty ∨ cols.any List.isEmpty then [] else
      cols.filterMap List.head? :: transposeCols n (cols.map List.tail)

/-- `write_matrix(mat, point_place, convert_exp)`: the lines (without the trailing newline each gets) -/
def writeMatrix (cols : List (List Cell)) (pointPlace : List Nat) (conv : Bool) : Option (List Str) := do
  let pads ← (cols.zipIdx.mapM fun ci => ci.1.mapM (leftpad (pointPlace.getD ci.2 0)))
  let n := (cols.head?.map List.length).getD 0
  let rows := transposeCols n (cols.zip pads |>.map fun cp => cp.1.zip cp.2)
  pure (rows.map fun row => convExp conv (rowLine (row.map fun cp => (cp.2, cp.1.text)) []))

/-- blank-separated tokens of a line -/
def tokensAux : Str → Str → List Str
  | [], cur => if cur.isEmpty then [] else [cur.reverse]
  | c :: cs, cur =>
    if c = ' ' then (if cur.isEmpty then tokensAux cs [] else cur.reverse :: tokensAux cs [])
    else tokensAux cs (c :: cur)

def tokens (s : Str) : List Str := tokensAux s []

end BSE.Printing
