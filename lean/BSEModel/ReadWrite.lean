import BSEModel.Printing
/-! The reader side of number tables: `helpers.replace_d`, `helpers.is_floating`,
`helpers.parse_primitive_matrix` at the level of blank-separated tokens. -/
namespace BSE.ReadWrite
open BSE.Printing

/-- `replace_d` -/
def replaceD (s : Str) : Str := s.map fun c => if c = 'D' then 'E' else if c = 'd' then 'e' else c

def dropSign : Str → Str
  | '-' :: r => r
  | '+' :: r => r
  | r => r

def allDigits (s : Str) : Bool := s.all Char.isDigit

/-- `^[-+]?\d*\.\d*(?:[dDeE][-+]?\d+)?$` -/
def isFloatTok (s : Str) : Bool :=
  let s := dropSign s
  let ip := s.takeWhile Char.isDigit
  match s.dropWhile Char.isDigit with
  | '.' :: r =>
    let fp := r.takeWhile Char.isDigit
    let _ := ip; let _ := fp
    match r.dropWhile Char.isDigit with
    | [] => true
    | c :: e => (c == 'd' || c == 'D' || c == 'e' || c == 'E') && (let d := dropSign e; !d.isEmpty && allDigits d)
  | _ => false

/-- rows of a table: exponent first, coefficients after; `none` = RuntimeError -/
def parseRows (lines : List Str) : Option (List Str × List (List Str)) :=
  let rows := lines.map fun l => tokens (replaceD l)
  if rows.any (fun r => match r with | [] => true | e :: c => !isFloatTok e || !c.all isFloatTok) then none else
  let coefs := rows.map List.tail
  if coefs.any List.isEmpty then none else
  if coefs.any (fun c => c.length != (coefs.headD []).length) then none else
  if rows.isEmpty then none else
  some (rows.map (·.headD []), coefs)

end BSE.ReadWrite
