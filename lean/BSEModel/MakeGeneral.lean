import BSEModel.Manip
/-! spike: make_general (core, before the final prune) on one element's shell list -/
namespace BSE
variable {ν : Type}

/-- first-occurrence order of distinct keys -/
def dedupKeys {κ : Type} [DecidableEq κ] : List κ → List κ
  | [] => []
  | k :: ks => k :: (dedupKeys ks).filter (· ≠ k)

/-- columns of one source shell inside the merged shell: `[zero]*cur ++ c ++ [zero]*(nprim-len)` -/
def padCols (zero : ν) (cur nprim : Nat) (coefs : List (List ν)) : List (List ν) :=
  coefs.map fun c => List.replicate cur zero ++ c ++ List.replicate (nprim - (cur + c.length)) zero

/-- all padded columns of a group of shells, walking the primitive offset -/
def groupCols (zero : ν) (nprim : Nat) : Nat → List (Shell ν) → List (List ν)
  | _, [] => []
  | cur, sh :: rest => padCols zero cur nprim sh.coefs ++ groupCols zero nprim (cur + sh.exps.length) rest

def mergeGroup (zero : ν) (am : List Nat) (group : List (Shell ν)) : Shell ν :=
  let exps := group.flatMap (·.exps)
  { am := am, ftype := (group.head?.map (·.ftype)).getD "", region := "",
    exps := exps, coefs := groupCols zero exps.length 0 group }

/-- the per-am part of make_general; `sortAm` is `sorted(all_am)` -/
def makeGeneralCore [DecidableEq ν] (zero : ν) (sortAm : List (List Nat) → List (List Nat))
    (shells : List (Shell ν)) : List (Shell ν) :=
  let fused := shells.filter (fun sh => sh.am.length > 1)
  let single := shells.filter (fun sh => ¬ sh.am.length > 1)
  let allAm := sortAm (dedupKeys (single.map (·.am)))
  fused ++ allAm.map (fun am => mergeGroup zero am (shells.filter (fun sh => sh.am = am)))

/-! ### semantics -/

theorem colFn_nil_left (val : ν → Rat) (c : List ν) (x : Rat) : colFn val [] c x = 0 := by
  simp [colFn]

theorem colFn_append (val : ν → Rat) (e1 e2 c1 c2 : List ν) (h : e1.length = c1.length) (x : Rat) :
    colFn val (e1 ++ e2) (c1 ++ c2) x = colFn val e1 c1 x + colFn val e2 c2 x := by
  unfold colFn
  rw [List.zip_append h, List.map_append, List.sum_append]

theorem colFn_replicate_zero (val : ν → Rat) (zero : ν) (hz : val zero = 0) (e : List ν) (n : Nat) (x : Rat) :
    colFn val e (List.replicate n zero) x = 0 := by
  unfold colFn
  induction e generalizing n with
  | nil => simp
  | cons a as ih =>
    cases n with
    | zero => simp
    | succ k =>
      simp only [List.replicate_succ, List.zip_cons_cons, List.map_cons, List.sum_cons, hz]
      rw [ih k]; split <;> grind

/-- a padded column is the original column, seen inside the concatenated exponent list -/
theorem colFn_padded (val : ν → Rat) (zero : ν) (hz : val zero = 0)
    (pre ex post c : List ν) (hc : c.length = ex.length) (x : Rat) :
    colFn val (pre ++ ex ++ post)
      (List.replicate pre.length zero ++ c ++ List.replicate ((pre ++ ex ++ post).length - (pre.length + c.length)) zero) x
      = colFn val ex c x := by
  rw [List.append_assoc, List.append_assoc, colFn_append val pre (ex ++ post) _ _ (by simp)]
  rw [colFn_replicate_zero val zero hz, colFn_append val ex post c _ hc.symm]
  rw [colFn_replicate_zero val zero hz]
  grind

end BSE

namespace BSE
variable {ν : Type}

/-- shells of a group are rectangular: every column as long as the exponent list -/
def RectShell (sh : Shell ν) : Prop := ∀ c ∈ sh.coefs, c.length = sh.exps.length

theorem groupCols_fns (val : ν → Rat) (zero : ν) (hz : val zero = 0) (x : Rat) :
    ∀ (group : List (Shell ν)) (pre : List ν), (∀ sh ∈ group, RectShell sh) →
      (groupCols zero (pre ++ group.flatMap (·.exps)).length pre.length group).map
          (fun c => colFn val (pre ++ group.flatMap (·.exps)) c x)
        = group.flatMap (fun sh => sh.coefs.map (fun c => colFn val sh.exps c x)) := by
  intro group
  induction group with
  | nil => intro pre _; simp [groupCols]
  | cons sh rest ih =>
    intro pre hr
    simp only [groupCols, List.flatMap_cons, List.map_append]
    congr 1
    · -- the columns of `sh`
      simp only [padCols, List.map_map]
      apply List.map_congr_left
      intro c hc
      have hlen : c.length = sh.exps.length := hr sh (by simp) c hc
      have := colFn_padded val zero hz pre sh.exps (rest.flatMap (·.exps)) c hlen x
      simp only [Function.comp, List.append_assoc] at this ⊢
      exact this
    · -- the remaining shells, with `pre ++ sh.exps` in front
      have := ih (pre ++ sh.exps) (fun s hs => hr s (by simp [hs]))
      simp only [List.append_assoc, List.length_append] at this ⊢
      exact this

/-- the merged shell carries exactly the functions of the group's shells -/
theorem mergeGroup_funcs (val : ν → Rat) (zero : ν) (hz : val zero = 0) (a : Nat)
    (group : List (Shell ν)) (hr : ∀ sh ∈ group, RectShell sh) (ham : ∀ sh ∈ group, sh.am = [a]) (f : Func) :
    f ∈ (mergeGroup zero [a] group).funcs val ↔ ∃ sh ∈ group, f ∈ sh.funcs val := by
  have key : ∀ x, ((mergeGroup zero [a] group).coefs.map (fun c => colFn val (mergeGroup zero [a] group).exps c x))
      = group.flatMap (fun sh => sh.coefs.map (fun c => colFn val sh.exps c x)) := by
    intro x
    have := groupCols_fns val zero hz x group [] hr
    simpa [mergeGroup] using this
  -- work with membership directly
  simp only [Shell.funcs, mergeGroup, List.length_singleton, Nat.lt_irrefl, if_false, List.headD_cons,
    List.mem_map]
  constructor
  · rintro ⟨c, hc, rfl⟩
    -- locate the column
    have hmem : ∀ (g : List (Shell ν)) (pre : List ν) (N : Nat), c ∈ groupCols zero N pre.length g →
        ∃ sh ∈ g, ∃ c0 ∈ sh.coefs, ∃ pre', c = List.replicate pre'.length zero ++ c0 ++ List.replicate (N - (pre'.length + c0.length)) zero
          ∧ ∃ post, pre ++ g.flatMap (·.exps) = pre' ++ sh.exps ++ post := by
      intro g
      induction g with
      | nil => intro pre N h; simp [groupCols] at h
      | cons s r ihg =>
        intro pre N h
        simp only [groupCols, List.mem_append, padCols, List.mem_map] at h
        rcases h with ⟨c0, hc0, rfl⟩ | h
        · exact ⟨s, by simp, c0, hc0, pre, rfl, r.flatMap (·.exps), by simp⟩
        · have h' : c ∈ groupCols zero N (pre ++ s.exps).length r := by simpa using h
          obtain ⟨sh, hsh, c0, hc0, pre', hceq, post, hpost⟩ := ihg (pre ++ s.exps) N h'
          exact ⟨sh, by simp [hsh], c0, hc0, pre', hceq, post, by simpa using hpost⟩
    obtain ⟨sh, hsh, c0, hc0, pre', hceq, post, hpost⟩ := hmem group [] _ (by simpa using hc)
    refine ⟨sh, hsh, ?_⟩
    have h1 : ¬ (sh.am.length > 1) := by rw [ham sh hsh]; simp
    simp only [h1, if_false, List.mem_map]
    refine ⟨c0, hc0, ?_⟩
    rw [ham sh hsh]
    simp only [List.headD_cons, Prod.mk.injEq, true_and]
    funext x
    have hlen : c0.length = sh.exps.length := hr sh hsh c0 hc0
    have hE : group.flatMap (·.exps) = pre' ++ sh.exps ++ post := by simpa using hpost
    have hN : (List.map (fun a : Shell ν => a.exps.length) group).sum = (pre' ++ sh.exps ++ post).length := by
      rw [← hE]; simp [List.length_flatMap]
    rw [hceq, hE]
    simp only [List.length_flatMap] at *
    rw [hN]
    exact (colFn_padded val zero hz pre' sh.exps post c0 hlen x).symm
  · rintro ⟨sh, hsh, hf⟩
    have h1 : ¬ (sh.am.length > 1) := by rw [ham sh hsh]; simp
    simp only [h1, if_false, List.mem_map] at hf
    obtain ⟨c0, hc0, rfl⟩ := hf
    rw [ham sh hsh]
    simp only [List.headD_cons]
    -- find the padded column
    have hmem : ∀ (g : List (Shell ν)) (pre : List ν) (N : Nat), sh ∈ g →
        ∃ pre' post, pre ++ g.flatMap (·.exps) = pre' ++ sh.exps ++ post ∧
          (List.replicate pre'.length zero ++ c0 ++ List.replicate (N - (pre'.length + c0.length)) zero)
            ∈ groupCols zero N pre.length g := by
      intro g
      induction g with
      | nil => intro pre N h; simp at h
      | cons s r ihg =>
        intro pre N h
        simp only [List.mem_cons] at h
        rcases h with rfl | h
        · refine ⟨pre, r.flatMap (·.exps), by simp, ?_⟩
          simp only [groupCols, List.mem_append, padCols, List.mem_map]
          left; exact ⟨c0, hc0, rfl⟩
        · obtain ⟨pre', post, hp, hm⟩ := ihg (pre ++ s.exps) N h
          refine ⟨pre', post, by simpa using hp, ?_⟩
          simp only [groupCols, List.mem_append]
          right; simpa using hm
    obtain ⟨pre', post, hp, hm⟩ := hmem group [] (group.flatMap (·.exps)).length hsh
    refine ⟨_, by simpa using hm, ?_⟩
    simp only [Prod.mk.injEq, true_and]
    funext x
    have hlen : c0.length = sh.exps.length := hr sh hsh c0 hc0
    have hE : group.flatMap (·.exps) = pre' ++ sh.exps ++ post := by simpa using hp
    have hN : (List.map (fun a : Shell ν => a.exps.length) group).sum = (pre' ++ sh.exps ++ post).length := by
      rw [← hE]; simp [List.length_flatMap]
    rw [hE]
    simp only [List.length_flatMap] at *
    rw [hN]
    simpa [List.append_assoc] using colFn_padded val zero hz pre' sh.exps post c0 hlen x

end BSE

namespace BSE
variable {ν : Type}

theorem mem_dedupKeys {κ : Type} [DecidableEq κ] (l : List κ) (x : κ) : x ∈ dedupKeys l ↔ x ∈ l := by
  induction l with
  | nil => simp [dedupKeys]
  | cons k ks ih =>
    simp only [dedupKeys, List.mem_cons, List.mem_filter, ih]
    constructor
    · rintro (h | ⟨h, _⟩)
      · exact Or.inl h
      · exact Or.inr h
    · rintro (h | h)
      · exact Or.inl h
      · by_cases hx : x = k
        · exact Or.inl hx
        · exact Or.inr ⟨h, by simpa using hx⟩

/-- **make_general (before pruning) keeps the set of contracted functions of an element.** -/
theorem funcSet_makeGeneralCore [DecidableEq ν] (val : ν → Rat) (zero : ν) (hz : val zero = 0)
    (sortAm : List (List Nat) → List (List Nat)) (hperm : ∀ l x, x ∈ sortAm l ↔ x ∈ l)
    (shells : List (Shell ν)) (hr : ∀ sh ∈ shells, RectShell sh) (ham : ∀ sh ∈ shells, sh.am ≠ [])
    (f : Func) :
    funcSet val (makeGeneralCore zero sortAm shells) f ↔ funcSet val shells f := by
  have single_am : ∀ sh ∈ shells, ¬ sh.am.length > 1 → ∃ a, sh.am = [a] := by
    intro sh hsh h1
    cases hsa : sh.am with
    | nil => exact absurd hsa (ham sh hsh)
    | cons a as =>
      cases as with
      | nil => exact ⟨a, rfl⟩
      | cons b bs => simp [hsa] at h1
  unfold funcSet makeGeneralCore
  constructor
  · rintro ⟨sh', hsh', hf⟩
    simp only [List.mem_append, List.mem_filter, List.mem_map] at hsh'
    rcases hsh' with ⟨hsh, _⟩ | ⟨am, hamIn, rfl⟩
    · exact ⟨sh', hsh, hf⟩
    · rw [hperm, mem_dedupKeys] at hamIn
      simp only [List.mem_map, List.mem_filter] at hamIn
      obtain ⟨s0, ⟨hs0, h10⟩, rfl⟩ := hamIn
      obtain ⟨a, ha⟩ := single_am s0 hs0 (by simpa using h10)
      rw [ha] at hf
      have hgr : ∀ sh ∈ shells.filter (fun sh => sh.am = [a]), RectShell sh :=
        fun sh h => hr sh (List.mem_filter.1 h).1
      have hga : ∀ sh ∈ shells.filter (fun sh => sh.am = [a]), sh.am = [a] :=
        fun sh h => by simpa using (List.mem_filter.1 h).2
      obtain ⟨sh, hsh, hfs⟩ := (mergeGroup_funcs val zero hz a _ hgr hga f).1 hf
      exact ⟨sh, (List.mem_filter.1 hsh).1, hfs⟩
  · rintro ⟨sh, hsh, hf⟩
    by_cases h1 : sh.am.length > 1
    · exact ⟨sh, by simp [List.mem_append, List.mem_filter, hsh, h1], hf⟩
    · obtain ⟨a, ha⟩ := single_am sh hsh h1
      have hgr : ∀ s ∈ shells.filter (fun s => s.am = [a]), RectShell s :=
        fun s h => hr s (List.mem_filter.1 h).1
      have hga : ∀ s ∈ shells.filter (fun s => s.am = [a]), s.am = [a] :=
        fun s h => by simpa using (List.mem_filter.1 h).2
      refine ⟨mergeGroup zero [a] (shells.filter (fun s => s.am = [a])), ?_, ?_⟩
      · simp only [List.mem_append, List.mem_map]
        right
        refine ⟨[a], ?_, rfl⟩
        rw [hperm, mem_dedupKeys]
        simp only [List.mem_map, List.mem_filter]
        exact ⟨sh, ⟨hsh, by simpa using h1⟩, ha⟩
      · exact (mergeGroup_funcs val zero hz a _ hgr hga f).2 ⟨sh, List.mem_filter.2 ⟨hsh, by simpa using ha⟩, hf⟩

end BSE
