import BSEModel.ManipOps
/-! Model of `curate/compare.py` and `curate/diff.py` (shell level).  Values are exact rationals;
`tol` is the relative tolerance.  `sort_shell`'s float keys come from outside (see `sortShell`). -/
namespace BSE.Cmp
open BSE
variable {ν : Type}

def absR (x : Rat) : Rat := if x < 0 then -x else x
def minR (x y : Rat) : Rat := if x ≤ y then x else y

/-- `_reldiff`; `none` = `inf` -/
def reldiff (a b : Rat) : Option Rat :=
  if a = 0 ∧ b = 0 then some 0 else
  if a = 0 ∨ b = 0 then none else some (absR (a - b) / minR (absR a) (absR b))

/-- one entry of `_compare_vector` -/
def entryOk (tol a b : Rat) : Bool :=
  if absR (a - b) = 0 then true else
  match reldiff a b with
  | none => false
  | some r => !(r > tol)

def vecEq (val : ν → Rat) (tol : Rat) (a b : List ν) : Bool :=
  a.length == b.length && (a.zip b).all fun p => entryOk tol (val p.1) (val p.2)

def matEq (val : ν → Rat) (tol : Rat) (a b : List (List ν)) : Bool :=
  a.length == b.length && (a.zip b).all fun p => vecEq val tol p.1 p.2

/-- `list(zip(shell['exponents'], *shell['coefficients']))` -/
def shellRows (sh : Shell ν) : List (List ν) := zipStar (sh.exps :: sh.coefs)

/-- `compare_electron_shells` after both shells went through `sort_shell` -/
def compareSorted (val : ν → Rat) (tol : Rat) (cmpMeta : Bool) (s1 s2 : Shell ν) : Bool :=
  s1.am == s2.am && matEq val tol (shellRows s1) (shellRows s2)
    && (!cmpMeta || (s1.region == s2.region && s1.ftype == s2.ftype))

/-- the list-level combinators, for an arbitrary comparison `R` -/
def subsetBy {α} (R : α → α → Bool) (l1 l2 : List α) : Bool := l1.all fun a => l2.any (R a)
def equalBy {α} (R : α → α → Bool) (l1 l2 : List α) : Bool :=
  l1.length == l2.length && subsetBy R l1 l2 && subsetBy R l2 l1
/-- `subtract_electron_shells` -/
def subtractBy {α} (R : α → α → Bool) (l1 l2 : List α) : List α := l1.filter fun a => !(l2.any (R a))

/-- a shell together with its externally supplied sort keys -/
abbrev Keyed (ν : Type) := Shell ν × List Rat

def compareShells (val : ν → Rat) (tol : Rat) (cmpMeta : Bool) (a b : Keyed ν) : Bool :=
  a.1.am == b.1.am && compareSorted val tol cmpMeta (sortShell val a.2 a.1) (sortShell val b.2 b.1)

end BSE.Cmp
