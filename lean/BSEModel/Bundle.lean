import BSEGen.Writers
/-! Model of `bundle._bundle_generic` / `_basis_data_iter`: which archive members are written, under
which names, with which contents.  `get_basis` / `get_references` / notes are parameters. -/
namespace BSE.Bundle
open BSE.Gen.Writers

structure Entry where
  key : String                          -- index key = file-name form of the basis name
  ftypes : List String
  versions : List String
  notes : String
  deriving Repr

/-- the function-type gate of the format, from the writer map of the source -/
def gate (fmt : String) (ftypes : List String) : Bool :=
  match (writerMap.find? (·.1 == fmt)).map (·.2.2.1) with
  | some (some valid) => ftypes.all (valid.contains ·)
  | some none => true
  | none => false

def versionMembers (sub ext refext key v : String) : Option (String × String) → List (String × String)
  | some (bs, ref) => [(sub ++ "/" ++ key ++ "." ++ v ++ ext, bs), (sub ++ "/" ++ key ++ "." ++ v ++ ".ref" ++ refext, ref)]
  | none => []

/-- members contributed by one basis; `data v = none` means get_basis / get_references raised for that version -/
def entryMembers (sub ext refext : String) (e : Entry) (data : String → String → Option (String × String)) : List (String × String) :=
  (e.versions.flatMap fun v => versionMembers sub ext refext e.key v (data e.key v))
  ++ (if e.notes.isEmpty then [] else [(sub ++ "/" ++ e.key ++ ".notes", e.notes)])

def bundleMembers (fmt reffmt ext refext readme : String) (entries : List Entry) (data : String → String → Option (String × String))
    (famNotes : List (String × String)) : List (String × String) :=
  let sub := "basis_set_bundle-" ++ fmt ++ "-" ++ reffmt
  [(sub ++ "/README.txt", readme)]
  ++ (entries.filter (fun e => gate fmt e.ftypes)).flatMap (fun e => entryMembers sub ext refext e data)
  ++ (famNotes.filter (fun f => !f.2.isEmpty)).map (fun f => (sub ++ "/" ++ f.1 ++ ".family_notes", f.2))

end BSE.Bundle
