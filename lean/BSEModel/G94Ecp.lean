import BSEModel.G94
/-! # Token-level model of one Gaussian94 ECP block: `writers/g94.py` and `readers/g94.py:_parse_ecp_lines`

```
CU     0
CU-ECP     2     10
d potential
  1
1      0.70     -1.00
s-d potential
  …
```
The reader cuts the block at the lines that hold a single integer (the number of terms) and takes the line before
each of them as a comment; the momenta are *not* read from the text: they are `[L, 0, 1, …, L-1]` by position, `L` from
the second line — and the number of potentials found must be `L + 1`. -/
namespace BSE.G94
open BSE.Nwchem (Str RErr EPot RPot writeOrder mapR)
variable {ν : Type}

inductive ELine (ν : Type)
  | count (n : ν)               -- a line that is a single integer
  | other (toks : List ν)       -- anything else: title lines and rows of the table

structure ETables (ν : Type) where
  symTok : Nat → ν               -- element symbol, upper case
  zOfTok : ν → Option Nat        -- lut.element_Z_from_sym
  zeroTok : ν                    -- "0"
  tagTok : Nat → ν               -- "SYM-ECP"
  natTok : Nat → ν               -- str(n)
  natOfTok : ν → Option Nat      -- `\d+`, int()
  intOfTok : ν → Option Int      -- is_integer / int() for the count line
  title : Nat → Nat → List ν     -- "f potential" / "s-f potential"
  isInt : ν → Bool
  isNum : ν → Bool

/-! ## writer -/

def potLinesE (T : ETables ν) (maxAm : Nat) (p : EPot ν) : List (ELine ν) :=
  .other (T.title p.am maxAm) :: .count (T.natTok p.terms.length) :: p.terms.map fun t => .other [t.1, t.2.1, t.2.2]

def ecpBlock (T : ETables ν) (z : Nat) (nelec : ν) (pots : List (EPot ν)) : List (ELine ν) :=
  let maxAm := (pots.map (·.am)).foldl max 0
  .other [T.symTok z, T.zeroTok] :: .other [T.tagTok z, T.natTok maxAm, nelec]
    :: (writeOrder pots).flatMap (potLinesE T maxAm)

/-! ## reader -/

/-- `partition_lines(lines, is_integer)` before the `before=1` step: (lines ahead of the first count line, the blocks, each
starting with its count line) -/
def splitBlocks : List (ELine ν) → List (ELine ν) × List (List (ELine ν))
  | [] => ([], [])
  | .other r :: rest => let pb := splitBlocks rest; (.other r :: pb.1, pb.2)
  | .count n :: rest => let pb := splitBlocks rest; ([], (.count n :: pb.1) :: pb.2)

/-- `before=1`: walking left to right, every block takes the last line of the one before it -/
def steal (prev : List (ELine ν)) : List (List (ELine ν)) → List (List (ELine ν))
  | [] => [prev]
  | b :: bs => prev.dropLast :: steal (prev.getLast?.toList ++ b) bs

/-- the blank-separated tokens of a line -/
def lineToks : ELine ν → List ν
  | .other r => r
  | .count n => [n]

/-- `helpers.parse_ecp_table` on the lines of one potential -/
def parseTableE (T : ETables ν) (lines : List (ELine ν)) : Except RErr (List ν × List ν × List ν) :=
  let rows : List (List ν) := lines.map lineToks
  if rows.any (fun r => r.length != 3) then .error .runtime else
  let r := rows.filterMap (·[0]?)
  let g := rows.filterMap (·[1]?)
  let c := rows.filterMap (·[2]?)
  if !r.all T.isInt then .error .runtime else
  if !g.all T.isNum then .error .runtime else
  if !c.all T.isNum then .error .runtime else .ok (r, g, c)

/-- one potential: `[comment, count, rows…]` -/
def parsePotE (T : ETables ν) (blk : List (ELine ν)) : Except RErr (List ν × List ν × List ν) :=
  match blk with
  | _ :: .count n :: rows =>
    match T.intOfTok n with
    | none => .error .runtime
    | some k =>
      if k ≤ 0 then .error .runtime else
      if (rows.length : Int) ≠ k then .error .runtime else parseTableE T rows
  | _ :: .other _ :: _ => .error .runtime      -- "Number of lines for potential is not an integer"
  | _ => .error .index

/-- `[L, 0, 1, …, L-1]` -/
def potentialAmList (maxAm : Nat) : List Nat := maxAm :: List.range maxAm

/-- `_parse_ecp_lines` for one element block: (Z, electron-count token, potentials with their momenta) -/
def parseEcpBlock (T : ETables ν) (lines : List (ELine ν)) : Except RErr (Nat × ν × List (RPot ν)) :=
  match lines with
  | .other (sym :: _) :: .other [_, lmax, nelec] :: body =>
    match T.zOfTok sym with
    | none => .error .key
    | some z =>
      match T.natOfTok lmax, T.natOfTok nelec with
      | some L, some _ =>
        let pb := splitBlocks body
        let all := if pb.1.isEmpty then pb.2 else pb.1 :: pb.2
        match all with
        | first :: b2 :: more =>
          if first.length != 1 then .error .runtime else
          match mapR (parsePotE T) (steal first (b2 :: more)).tail with
          | .error e => .error e
          | .ok tabs =>
            let ams := potentialAmList L
            if ams.length != tabs.length then .error .runtime else
            .ok (z, nelec, (ams.zip tabs).map fun at' =>
              { am := some [at'.1], rexp := at'.2.1, gexp := at'.2.2.1, coef := at'.2.2.2 })
        | _ => .error .runtime
      | _, _ => .error .runtime
  | [] => .error .index
  | _ => .error .runtime

end BSE.G94
