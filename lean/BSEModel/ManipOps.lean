import BSEModel.Manip
import BSEModel.MakeGeneral
import BSEModel.Spdf
import BSEModel.Num
import BSEModel.Pipeline
/-! Element-level model of the remaining `manip.py` / `sort.py` operations, written after the
code.  An operation acts on the shell list of one element and may raise (`Except String`).
`val` gives a number token its exact value (`float(x)` in the code; see `Faithful` in DESIGN.md). -/
namespace BSE
variable {ν : Type}

/-! ### make_general (complete: spdf split, per-momentum merge, type check, prune) -/

/-- `ft1 not in ft2 and ft2 not in ft1` (substring tests) -/
def isInfix (a b : String) : Bool :=
  let la := a.toList
  let lb := b.toList
  (List.range (lb.length + 1)).any fun i => la.isPrefixOf (lb.drop i)

def typesCompatible (ft1 ft2 : String) : Bool := isInfix ft1 ft2 || isInfix ft2 ft1

/-- the function types met while merging a group, compared with the running `newsh['function_type']` -/
def groupTypesOk (group : List (Shell ν)) : Bool :=
  match group with
  | [] => true
  | g :: _ => group.all fun sh => typesCompatible g.ftype sh.ftype

/-- insertion sort of the distinct single-momentum lists: `sorted(all_am)` on lists of one Nat -/
def insertAm (a : List Nat) : List (List Nat) → List (List Nat)
  | [] => [a]
  | b :: bs => if a.headD 0 ≤ b.headD 0 then a :: b :: bs else b :: insertAm a bs

def sortAm (l : List (List Nat)) : List (List Nat) := l.foldr insertAm []

def makeGeneral [DecidableEq ν] (val : ν → Rat) (zero : ν) (skipSpdf : Bool) (shells : List (Shell ν)) :
    Except String (List (Shell ν)) :=
  let shells := if skipSpdf then shells else uncontractSpdf 0 shells
  let single := shells.filter (fun sh => ¬ sh.am.length > 1)
  let allAm := sortAm (dedupKeys (single.map (·.am)))
  if allAm.any (fun am => !groupTypesOk (shells.filter (fun sh => sh.am = am))) then
    .error "Cannot make general contraction of different function types"
  else pruneShells val (makeGeneralCore zero sortAm shells)

/-! ### uncontract_segmented -/

def uncontractSegmented (one : ν) (shells : List (Shell ν)) : List (Shell ν) :=
  shells.flatMap fun sh =>
    sh.exps.map fun e => { sh with exps := [e], coefs := List.replicate sh.am.length [one] }

/-! ### remove_free_primitives -/

def isSingleColumn (val : ν → Rat) (col : List ν) : Bool := (col.filter (fun c => val c != 0)).length == 1

/-- the column filter of `remove_free_primitives`; in a fused shell a column takes its angular momentum with it (fix ed2ae683: before it, the
momentum list was left as it was and the shell came out with fewer columns than momenta) and the tag is dropped when only s/p remain -/
def removeFreeCore (val : ν → Rat) (shells : List (Shell ν)) : List (Shell ν) :=
  shells.filterMap fun sh =>
    if sh.am.length > 1 then
      let kept := (sh.am.zip sh.coefs).filter (fun p => !isSingleColumn val p.2)
      if kept.isEmpty then none else
        some { sh with am := kept.map (·.1), coefs := kept.map (·.2), ftype := lowType (kept.map (·.1)) sh.ftype }
    else
      let kept := sh.coefs.filter (fun c => !isSingleColumn val c)
      if kept.isEmpty then none else some { sh with coefs := kept }

def removeFree [DecidableEq ν] (val : ν → Rat) (shells : List (Shell ν)) : Except String (List (Shell ν)) :=
  pruneShells val (removeFreeCore val shells)

/-! ### optimize_general -/

def nonzeroRows (val : ν → Rat) (col : List ν) : List Nat :=
  (col.zipIdx.filter (fun p => val p.1 != 0)).map (·.2)

/-- `(row, col)` of the non-zero entry of every single column, in column order -/
def rowColPairs (val : ν → Rat) (coefs : List (List ν)) : List (Nat × Nat) :=
  (coefs.zipIdx.filter (fun p => isSingleColumn val p.1)).flatMap fun p =>
    (nonzeroRows val p.1).map (fun i => (i, p.2))

def optimizeShell (val : ν → Rat) (zero : ν) (sh : Shell ν) : Except String (Shell ν) :=
  if sh.am.length > 1 ∨ sh.coefs.length < 2 then .ok sh else
  let pairs := rowColPairs val sh.coefs
  if ¬ (pairs.map (·.1)).Nodup then .error "Badly-formatted basis. Row makes duplicate shells" else
  let zeroed := sh.coefs.zipIdx.map fun pc =>
          pc.1.zipIdx.map fun ce =>
            if val ce.1 != 0 ∧ pairs.any (fun p => p.1 = ce.2 ∧ p.2 ≠ pc.2) then zero else ce.1
  -- a contraction made only of primitives that are also free is all zero now: dropped
  .ok { sh with coefs := zeroed.filter fun col => col.any (fun c => val c != 0) }

def optimizeGeneral [DecidableEq ν] (val : ν → Rat) (mgZero ogZero : ν) (skipSpdf : Bool)
    (shells : List (Shell ν)) : Except String (List (Shell ν)) :=
  match makeGeneral val mgZero skipSpdf shells with
  | .error e => .error e
  | .ok ss => mapE (optimizeShell val ogZero) ss

/-! ### sort_shell / sort_shells with the float keys supplied from outside

`rsq` is `_spatial_extent(shell)` (one number per contraction), an opaque key as far as the model
is concerned.  Python's `sorted` is stable; so is `List.mergeSort`. -/

def sortIdx (n : Nat) (le : Nat → Nat → Bool) : List Nat := (List.range n).mergeSort le

def keyAt (keys : List Rat) (i : Nat) : Rat := (keys[i]?).getD 0

def sortShell (val : ν → Rat) (rsq : List Rat) (sh : Shell ν) : Shell ν :=
  let zidx := sortIdx sh.exps.length (fun i j => decide (((sh.exps[i]?).map val).getD 0 ≥ ((sh.exps[j]?).map val).getD 0))
  let cidx := if sh.am.length = 1 then sortIdx rsq.length (fun i j => decide (keyAt rsq i ≤ keyAt rsq j))
              else List.range sh.coefs.length
  { sh with exps := zidx.filterMap (sh.exps[·]?),
            coefs := cidx.filterMap fun i => (sh.coefs[i]?).map fun col => zidx.filterMap (col[·]?) }

/-- `sort_shells`: every shell sorted, then the list stably sorted by `(max am, min rsq)` -/
def sortShells (val : ν → Rat) (keyed : List (Shell ν × List Rat × Rat)) : List (Shell ν) :=
  let sorted := keyed.map fun t => (sortShell val t.2.1 t.1, t.1.am.foldl max 0, t.2.2)
  (sorted.mergeSort fun a b => decide (a.2.1 < b.2.1 ∨ (a.2.1 = b.2.1 ∧ a.2.2 ≤ b.2.2))).map (·.1)

/-! ### the option pipeline of `get_basis`, interpreted from the generated block list -/

structure Opts where
  uncontractGeneral : Bool := false
  uncontractSpdf : Bool := false
  uncontractSegmented : Bool := false
  removeFree : Bool := false
  makeGeneral : Bool := false
  optimizeGeneral : Bool := false
  augmentDiffuse : Nat := 0
  augmentSteep : Nat := 0
  getAux : Nat := 0
  deriving Repr, DecidableEq

/-- truth value of a block condition (source text of the `if` test) -/
def condHolds (o : Opts) (needsPruning : Bool) : String → Option Bool
  | "remove_free_primitives" => some o.removeFree
  | "optimize_general" => some o.optimizeGeneral
  | "uncontract_segmented" => some o.uncontractSegmented
  | "uncontract_general" => some o.uncontractGeneral
  | "uncontract_spdf" => some o.uncontractSpdf
  | "make_general" => some o.makeGeneral
  | "needs_pruning" => some needsPruning
  | "augment_diffuse > 0" => some (o.augmentDiffuse > 0)
  | "augment_steep > 0" => some (o.augmentSteep > 0)
  | "(augment_diffuse > 0 or augment_steep > 0) and make_general" =>
      some ((o.augmentDiffuse > 0 || o.augmentSteep > 0) && o.makeGeneral)
  | "get_aux == 1" => some (o.getAux == 1)
  | "get_aux == 2" => some (o.getAux == 2)
  | _ => none

structure Lits (ν : Type) where
  mgZero : ν
  ogZero : ν
  usegOne : ν

/-- one normalisation call on an element's shells (augmentation / aux generation are not part of
the exact model: they involve floating point) -/
def applyOp [DecidableEq ν] (val : ν → Rat) (L : Lits ν) (mgCalls ogCalls : List PStep) :
    Op → List (Shell ν) → Except String (List (Shell ν))
  | .uncontractGeneral, s => uncontractGeneral val s
  | .uncontractSpdf k, s => .ok (uncontractSpdf k s)
  | .uncontractSegmented, s => .ok (uncontractSegmented L.usegOne s)
  | .makeGeneral skip, s =>
      -- the inner call `uncontract_spdf(basis, 0, False)` is read from the source
      if skip then makeGeneral val L.mgZero true s
      else if mgCalls.any (fun c => c.op = .uncontractSpdf 0) then makeGeneral val L.mgZero false s
      else .error "model: make_general no longer calls uncontract_spdf(basis, 0)"
  | .optimizeGeneral, s =>
      match ogCalls.find? (fun c => match c.op with | .makeGeneral _ => true | _ => false) with
      | some ⟨.makeGeneral skip, _⟩ => optimizeGeneral val L.mgZero L.ogZero skip s
      | _ => .error "model: optimize_general no longer calls make_general"
  | .pruneBasis, s => pruneShells val s
  | .removeFree, s => removeFree val s
  | .sortBasis, _ => .error "model: sort_basis needs float keys"
  | .augment _ _, _ => .error "model: augmentation is floating point"
  | .aux _, _ => .error "model: auxiliary generation is floating point"

def applySteps [DecidableEq ν] (val : ν → Rat) (L : Lits ν) (mgCalls ogCalls : List PStep) :
    List PStep → List (Shell ν) → Except String (List (Shell ν))
  | [], s => .ok s
  | st :: rest, s =>
    match applyOp val L mgCalls ogCalls st.op s with
    | .error e => .error e
    | .ok s' => applySteps val L mgCalls ogCalls rest s'

/-- run the blocks in source order; `taken` = an earlier branch of the current if/elif chain ran -/
def runBlocks [DecidableEq ν] (val : ν → Rat) (L : Lits ν) (mgCalls ogCalls : List PStep) (o : Opts) :
    List OptBlock → Bool → Bool → List (Shell ν) → Except String (List (Shell ν))
  | [], _, _, s => .ok s
  | b :: rest, needsPruning, taken, s =>
    match condHolds o needsPruning b.cond with
    | none => .error ("model: unknown option block " ++ b.cond)
    | some c =>
      let run := c && !(b.isElif && taken)
      let taken' := if b.isElif then taken || c else c
      if run then
        match applySteps val L mgCalls ogCalls b.steps s with
        | .error e => .error e
        | .ok s' => runBlocks val L mgCalls ogCalls o rest (needsPruning || b.setsPrune) taken' s'
      else runBlocks val L mgCalls ogCalls o rest needsPruning taken' s

end BSE
