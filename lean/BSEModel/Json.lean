/-! A small JSON value type with *insertion-ordered* objects (Python dictionaries keep insertion
order, and that order is observable in this library), and the dictionary operations the model needs. -/
namespace BSE

inductive J
  | null
  | bool (b : Bool)
  | num (text : String)      -- the number's canonical literal
  | str (s : String)
  | arr (l : List J)
  | obj (kvs : List (String × J))
  deriving Repr, Inhabited

mutual
  def J.beq : J → J → Bool
    | .null, .null => true
    | .bool a, .bool b => a == b
    | .num a, .num b => a == b
    | .str a, .str b => a == b
    | .arr a, .arr b => J.beqList a b
    | .obj a, .obj b => J.beqKvs a b
    | _, _ => false
  def J.beqList : List J → List J → Bool
    | [], [] => true
    | a :: as, b :: bs => J.beq a b && J.beqList as bs
    | _, _ => false
  def J.beqKvs : List (String × J) → List (String × J) → Bool
    | [], [] => true
    | (k, a) :: as, (k', b) :: bs => k == k' && J.beq a b && J.beqKvs as bs
    | _, _ => false
end

instance : BEq J := ⟨J.beq⟩

abbrev Dict := List (String × J)

namespace Dict

def get? (d : Dict) (k : String) : Option J := (d.find? (·.1 == k)).map (·.2)
def has (d : Dict) (k : String) : Bool := d.any (·.1 == k)

/-- `d[k] = v` : replace in place, or append -/
def set : Dict → String → J → Dict
  | [], k, v => [(k, v)]
  | (k0, v0) :: rest, k, v => if k0 == k then (k0, v) :: rest else (k0, v0) :: set rest k v

/-- `d.update(other)` -/
def update (d other : Dict) : Dict := other.foldl (fun acc kv => set acc kv.1 kv.2) d

def erase (d : Dict) (k : String) : Dict := d.filter (·.1 != k)

def keys (d : Dict) : List String := d.map (·.1)

end Dict

def J.asObj? : J → Option Dict
  | .obj d => some d
  | _ => none

def J.asArr? : J → Option (List J)
  | .arr l => some l
  | _ => none

def J.asStr? : J → Option String
  | .str s => some s
  | _ => none

/-- Python exception classes that the modelled code can raise -/
inductive PyErr
  | key | runtime | fileNotFound | index | type | value | attribute | assertion
  deriving Repr, DecidableEq

def PyErr.name : PyErr → String
  | .key => "KeyError" | .runtime => "RuntimeError" | .fileNotFound => "FileNotFoundError"
  | .index => "IndexError" | .type => "TypeError" | .value => "ValueError" | .attribute => "AttributeError"
  | .assertion => "AssertionError"

/-- `mapM` in `Except`, structurally recursive -/
def mapEx {α β ε} (f : α → Except ε β) : List α → Except ε (List β)
  | [] => .ok []
  | a :: as =>
    match f a with
    | .error e => .error e
    | .ok b =>
      match mapEx f as with
      | .error e => .error e
      | .ok bs => .ok (b :: bs)

end BSE
