/-! Vocabulary for the generated call-site facts (`BSEGen`): which normalisation operations a
writer / `get_basis` option block / manipulation function calls, in which order, with which
literal arguments. -/
namespace BSE

inductive Op
  | uncontractGeneral
  | uncontractSpdf (maxAm : Nat)
  | uncontractSegmented
  | makeGeneral (skipSpdf : Bool)
  | optimizeGeneral
  | pruneBasis
  | removeFree
  | sortBasis
  | augment (steep asComponent : Bool)
  | aux (name : String)
  deriving DecidableEq, Repr

structure PStep where
  op : Op
  useCopy : Bool
  deriving DecidableEq, Repr

structure OptBlock where
  cond : String
  isElif : Bool
  steps : List PStep
  setsPrune : Bool
  deriving DecidableEq, Repr

end BSE
