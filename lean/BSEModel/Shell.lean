import BSEModel.Matrix
/-! spike: prune_shell model -/
namespace BSE

variable {ν : Type}

structure Shell (ν : Type) where
  am : List Nat
  ftype : String
  region : String
  exps : List ν
  coefs : List (List ν)

/-- group rows by value-equal exponent, first-occurrence order (the double loop of prune_shell) -/
def insertGroup (val : ν → Rat) (e : ν) (row : List ν) :
    List (ν × List (List ν)) → List (ν × List (List ν))
  | [] => [(e, [row])]
  | (e0, rows) :: gs =>
    if val e = val e0 then (e0, rows ++ [row]) :: gs
    else (e0, rows) :: insertGroup val e row gs

def groupRows (val : ν → Rat) (prims : List (ν × List ν)) : List (ν × List (List ν)) :=
  prims.foldl (fun gs p => insertGroup val p.1 p.2 gs) []

/-- `mapM` in `Except`, structurally recursive so that it unfolds in proofs -/
def mapE {α β ε : Type} (f : α → Except ε β) : List α → Except ε (List β)
  | [] => .ok []
  | a :: as =>
    match f a with
    | .error e => .error e
    | .ok b =>
      match mapE f as with
      | .error e => .error e
      | .ok bs => .ok (b :: bs)

def pick (val : ν → Rat) (g : List ν) : Except String ν :=
  match g.filter (fun c => val c != 0), g with
  | [], c :: _ => .ok c
  | [c], _ => .ok c
  | _, _ => .error "Exponent is duplicated within a contraction"

/-- one output row for a group of duplicated exponents -/
def collapse (val : ν → Rat) (rows : List (List ν)) : Except String (List ν) :=
  match rows with
  | [r] => .ok r
  | _ => mapE (pick val) (zipStar rows)

def collapseG (val : ν → Rat) (g : ν × List (List ν)) : Except String (ν × List ν) :=
  match collapse val g.2 with
  | .error e => .error e
  | .ok r => .ok (g.1, r)

def notAllZero (val : ν → Rat) (p : ν × List ν) : Bool := !(p.2.all (fun c => val c == 0))

def pruneShell (val : ν → Rat) (sh : Shell ν) : Except String (Shell ν) :=
  let rows := zipStar sh.coefs
  if rows.length < sh.exps.length then .error "IndexError" else
  match mapE (collapseG val) (groupRows val (sh.exps.zip rows)) with
  | .error e => .error e
  | .ok merged =>
    let kept := merged.filter (notAllZero val)
    .ok { sh with exps := kept.map (·.1), coefs := zipStar (kept.map (·.2)) }

/-! ### semantics -/

/-- coefficient `j` of a row as a rational (missing = 0) -/
def cval (val : ν → Rat) (r : List ν) (j : Nat) : Rat := (r[j]?.map val).getD 0

/-- the contracted function of one column: exponent value ↦ summed coefficient -/
def colFn (val : ν → Rat) (exps col : List ν) (x : Rat) : Rat :=
  ((exps.zip col).map fun p => if val p.1 = x then val p.2 else 0).sum

def wPrims (val : ν → Rat) (x : Rat) (j : Nat) (ps : List (ν × List ν)) : Rat :=
  (ps.map fun p => if val p.1 = x then cval val p.2 j else 0).sum

def wGroups (val : ν → Rat) (x : Rat) (j : Nat) (gs : List (ν × List (List ν))) : Rat :=
  (gs.map fun g => if val g.1 = x then (g.2.map fun r => cval val r j).sum else 0).sum

theorem wGroups_insert (val : ν → Rat) (x : Rat) (j : Nat) (e : ν) (row : List ν)
    (gs : List (ν × List (List ν))) :
    wGroups val x j (insertGroup val e row gs)
      = wGroups val x j gs + (if val e = x then cval val row j else 0) := by
  induction gs with
  | nil => simp [insertGroup, wGroups]; grind
  | cons g gs ih =>
    obtain ⟨e0, rows⟩ := g
    unfold insertGroup
    by_cases h : val e = val e0
    · simp only [h, if_true]
      simp only [wGroups, List.map_cons, List.sum_cons, List.map_append, List.sum_append]
      by_cases hx : val e0 = x <;> simp [hx] <;> grind
    · simp only [h]
      simp only [wGroups, List.map_cons, List.sum_cons] at ih ⊢
      simp only [if_false, List.map_cons, List.sum_cons]
      rw [ih]; grind

theorem wGroups_groupRows (val : ν → Rat) (x : Rat) (j : Nat) (ps : List (ν × List ν)) :
    wGroups val x j (groupRows val ps) = wPrims val x j ps := by
  suffices h : ∀ gs, wGroups val x j (ps.foldl (fun gs p => insertGroup val p.1 p.2 gs) gs)
      = wGroups val x j gs + wPrims val x j ps by
    have := h []; simp only [groupRows]; rw [this]; simp [wGroups]; grind
  induction ps with
  | nil => intro gs; simp [wPrims]; grind
  | cons p ps ih =>
    intro gs
    simp only [List.foldl_cons]
    rw [ih, wGroups_insert val]
    simp only [wPrims, List.map_cons, List.sum_cons]
    grind

/-- group representatives are pairwise value-distinct -/
def DistinctReps (val : ν → Rat) (gs : List (ν × List (List ν))) : Prop :=
  gs.Pairwise (fun a b => val a.1 ≠ val b.1)

theorem insertGroup_reps (val : ν → Rat) (e : ν) (row : List ν) (gs : List (ν × List (List ν))) :
    ∀ g ∈ insertGroup val e row gs, (∃ g0 ∈ gs, g.1 = g0.1) ∨ (g.1 = e ∧ ∀ g0 ∈ gs, val e ≠ val g0.1) := by
  induction gs with
  | nil => intro g hg; simp [insertGroup] at hg; right; simp [hg]
  | cons g0 gs ih =>
    obtain ⟨e0, rows⟩ := g0
    intro g hg
    unfold insertGroup at hg
    by_cases h : val e = val e0
    · simp only [h, if_true, List.mem_cons] at hg
      rcases hg with rfl | hg
      · left; exact ⟨(e0, rows), by simp, rfl⟩
      · left; exact ⟨g, by simp [hg], rfl⟩
    · simp only [h, if_false, List.mem_cons] at hg
      rcases hg with rfl | hg
      · left; exact ⟨(e0, rows), by simp, rfl⟩
      · rcases ih g hg with ⟨g1, hg1, h1⟩ | ⟨h1, h2⟩
        · left; exact ⟨g1, by simp [hg1], h1⟩
        · right; refine ⟨h1, ?_⟩
          intro g2 hg2
          simp only [List.mem_cons] at hg2
          rcases hg2 with rfl | hg2
          · exact h
          · exact h2 g2 hg2

theorem insertGroup_distinct (val : ν → Rat) (e : ν) (row : List ν) (gs : List (ν × List (List ν)))
    (h : DistinctReps val gs) : DistinctReps val (insertGroup val e row gs) := by
  induction gs with
  | nil => simp [insertGroup, DistinctReps]
  | cons g0 gs ih =>
    obtain ⟨e0, rows⟩ := g0
    unfold insertGroup
    simp only [DistinctReps, List.pairwise_cons] at h
    by_cases hv : val e = val e0
    · simp only [hv, if_true, DistinctReps, List.pairwise_cons]
      exact ⟨h.1, h.2⟩
    · simp only [hv, if_false, DistinctReps, List.pairwise_cons]
      refine ⟨?_, ih h.2⟩
      intro g hg
      rcases insertGroup_reps val e row gs g hg with ⟨g1, hg1, h1⟩ | ⟨h1, _⟩
      · rw [h1]; exact h.1 g1 hg1
      · rw [h1]; exact fun hc => hv hc.symm

theorem groupRows_distinct (val : ν → Rat) (ps : List (ν × List ν)) :
    DistinctReps val (groupRows val ps) := by
  suffices h : ∀ gs, DistinctReps val gs →
      DistinctReps val (ps.foldl (fun gs p => insertGroup val p.1 p.2 gs) gs) from
    h [] (by simp [DistinctReps])
  induction ps with
  | nil => intro gs h; simpa using h
  | cons p ps ih => intro gs h; exact ih _ (insertGroup_distinct val _ _ _ h)

end BSE
