import BSEModel.PruneLemmas
namespace BSE
variable {ν : Type}

/-- column semantics read off the transposed (row) representation -/
theorem wPrims_zipStarAux (val : ν → Rat) (x : Rat) (j : Nat) :
    ∀ (n : Nat) (exps : List ν) (cols : List (List ν)), exps.length = n → Rect n cols → cols ≠ [] →
      j < cols.length →
      wPrims val x j (exps.zip (zipStarAux n cols)) = colFn val exps (cols[j]?.getD []) x := by
  intro n
  induction n with
  | zero =>
    intro exps cols he _ _ _
    have : exps = [] := List.eq_nil_of_length_eq_zero he
    subst this
    simp [wPrims, colFn, zipStarAux]
  | succ k ih =>
    intro exps cols he hr hne hj
    cases exps with
    | nil => simp at he
    | cons e es =>
      have hne' : ¬ (cols = [] ∨ cols.any List.isEmpty = true) := by
        intro hc; rcases hc with hc | hc
        · exact hne hc
        · exact rect_nonempty_cols hr hc
      simp only [zipStarAux, hne', if_false, List.zip_cons_cons, wPrims, List.map_cons, List.sum_cons]
      have hrt : Rect k (cols.map List.tail) := by
        intro c hc
        simp only [List.mem_map] at hc
        obtain ⟨c', hc', rfl⟩ := hc
        have := hr c' hc'
        simp [this]
      have ihh := ih es (cols.map List.tail) (by simpa using he) hrt (by simpa using hne) (by simpa using hj)
      simp only [wPrims] at ihh
      rw [ihh]
      -- now the column j
      have hcj : ∃ c cs, cols[j]? = some (c :: cs) := by
        have hm : cols[j] ∈ cols := List.getElem_mem hj
        have := hr _ hm
        cases hc : cols[j] with
        | nil => simp [hc] at this
        | cons c cs => exact ⟨c, cs, by simp [List.getElem?_eq_getElem hj, hc]⟩
      obtain ⟨c, cs, hc⟩ := hcj
      have hhead : cval val (cols.filterMap List.head?) j = val c := by
        -- all columns are nonempty so filterMap head? = map head
        have : ∀ (m : List (List ν)) (j : Nat), (∀ c ∈ m, c ≠ []) → (m.filterMap List.head?)[j]? = (m[j]?).bind List.head? := by
          intro m
          induction m with
          | nil => intro j _; simp
          | cons a as iha =>
            intro j hall
            cases a with
            | nil => exact absurd rfl (hall [] (by simp))
            | cons a0 a1 =>
              cases j with
              | zero => simp
              | succ j' =>
                simp only [List.filterMap_cons, List.head?_cons, List.getElem?_cons_succ]
                exact iha j' (fun c hc => hall c (by simp [hc]))
        have hall : ∀ c ∈ cols, c ≠ [] := by
          intro c hc hnil
          have := hr c hc
          simp [hnil] at this
        simp [cval, this cols j hall, hc]
      rw [hhead]
      simp only [List.getElem?_map, hc, Option.map_some, List.tail_cons, Option.getD_some, colFn,
        List.zip_cons_cons, List.map_cons, List.sum_cons]

/-- every row stored in the groups is one of the input rows -/
theorem insertGroup_rows (val : ν → Rat) (e : ν) (row : List ν) (gs : List (ν × List (List ν)))
    (P : List ν → Prop) (hrow : P row) (hgs : ∀ g ∈ gs, g.2 ≠ [] ∧ ∀ r ∈ g.2, P r) :
    ∀ g ∈ insertGroup val e row gs, g.2 ≠ [] ∧ ∀ r ∈ g.2, P r := by
  induction gs with
  | nil => intro g hg; simp [insertGroup] at hg; subst hg; simp [hrow]
  | cons g0 gs ih =>
    obtain ⟨e0, rows⟩ := g0
    intro g hg
    unfold insertGroup at hg
    have h0 := hgs (e0, rows) (by simp)
    have hrest : ∀ g ∈ gs, g.2 ≠ [] ∧ ∀ r ∈ g.2, P r := fun g hg => hgs g (by simp [hg])
    by_cases hv : val e = val e0
    · simp only [hv, if_true, List.mem_cons] at hg
      rcases hg with rfl | hg
      · refine ⟨by simp, ?_⟩
        intro r hr
        simp only [List.mem_append, List.mem_singleton] at hr
        rcases hr with hr | rfl
        · exact h0.2 r hr
        · exact hrow
      · exact hrest g hg
    · simp only [hv, if_false, List.mem_cons] at hg
      rcases hg with rfl | hg
      · exact h0
      · exact ih hrest g hg

theorem groupRows_rows (val : ν → Rat) (ps : List (ν × List ν)) (P : List ν → Prop)
    (hps : ∀ p ∈ ps, P p.2) : ∀ g ∈ groupRows val ps, g.2 ≠ [] ∧ ∀ r ∈ g.2, P r := by
  suffices h : ∀ gs, (∀ g ∈ gs, g.2 ≠ [] ∧ ∀ r ∈ g.2, P r) →
      ∀ g ∈ ps.foldl (fun gs p => insertGroup val p.1 p.2 gs) gs, g.2 ≠ [] ∧ ∀ r ∈ g.2, P r from
    h [] (by simp)
  induction ps with
  | nil => intro gs h; simpa using h
  | cons p ps ih =>
    intro gs h
    simp only [List.foldl_cons]
    apply ih (fun p' hp' => hps p' (by simp [hp']))
    exact insertGroup_rows val _ _ _ P (hps p (by simp)) h

/-- collapsing every group keeps all column sums -/
theorem wPrims_merged (val : ν → Rat) (x : Rat) (j m : Nat) (hj : j < m)
    (gs : List (ν × List (List ν))) (merged : List (ν × List ν))
    (hgs : ∀ g ∈ gs, g.2 ≠ [] ∧ ∀ r ∈ g.2, r.length = m)
    (h : mapE (collapseG val) gs = .ok merged) :
    wPrims val x j merged = wGroups val x j gs ∧ merged.map (·.1) = gs.map (·.1)
      ∧ ∀ p ∈ merged, p.2.length = m := by
  induction gs generalizing merged with
  | nil => simp [mapE] at h; subst h; simp [wPrims, wGroups]
  | cons g gs ih =>
    simp only [mapE] at h
    cases hc : collapseG val g with
    | error e => simp [hc] at h
    | ok p =>
      simp only [hc] at h
      cases hm : mapE (collapseG val) gs with
      | error e => simp [hm] at h
      | ok ps =>
        simp only [hm] at h
        cases h
        obtain ⟨ih1, ih2, ih3⟩ := ih ps (fun g' hg' => hgs g' (by simp [hg'])) hm
        unfold collapseG at hc
        cases hcc : collapse val g.2 with
        | error e => simp [hcc] at hc
        | ok r =>
          simp only [hcc] at hc
          cases hc
          have hg := hgs g (by simp)
          obtain ⟨hl, hs⟩ := collapse_sum val g.2 m hg.1 (fun r hr => hg.2 r hr) r hcc
          refine ⟨?_, by simp [ih2], ?_⟩
          · simp only [wPrims, wGroups, List.map_cons, List.sum_cons] at ih1 ⊢
            rw [ih1, hs j hj]
          · intro p hp
            simp only [List.mem_cons] at hp
            rcases hp with rfl | hp
            · exact hl
            · exact ih3 p hp

theorem wPrims_filter (val : ν → Rat) (x : Rat) (j : Nat) (ps : List (ν × List ν)) :
    wPrims val x j (ps.filter (notAllZero val)) = wPrims val x j ps := by
  induction ps with
  | nil => rfl
  | cons p ps ih =>
    by_cases h : notAllZero val p = true
    · simp only [List.filter_cons, h, if_true, wPrims, List.map_cons, List.sum_cons] at ih ⊢
      rw [ih]
    · simp only [List.filter_cons, h, wPrims, List.map_cons, List.sum_cons, Bool.false_eq_true, if_false] at ih ⊢
      rw [ih]
      have hz : cval val p.2 j = 0 := by
        simp [notAllZero, List.all_eq_true] at h
        unfold cval
        cases hj : p.2[j]? with
        | none => rfl
        | some c =>
          have hc : c ∈ p.2 := List.mem_of_getElem? hj
          have := h c hc
          simp [this]
      simp [hz]; grind

/-- reading the pruned rows back as columns -/
theorem colFn_of_rows (val : ν → Rat) (x : Rat) (j : Nat) (kept : List (ν × List ν)) :
    colFn val (kept.map (·.1)) ((kept.map (·.2)).filterMap (·[j]?)) x
      = (kept.map fun p => if val p.1 = x then ((p.2[j]?).map val).getD 0 else 0).sum
        ∨ ∃ p ∈ kept, p.2.length ≤ j := by
  induction kept with
  | nil => left; simp [colFn]
  | cons p ps ih =>
    by_cases hl : p.2.length ≤ j
    · right; exact ⟨p, by simp, hl⟩
    · rcases ih with ih | ⟨q, hq, hql⟩
      · left
        have hj : j < p.2.length := by omega
        simp only [List.map_cons, List.filterMap_cons, List.getElem?_eq_getElem hj, colFn,
          List.zip_cons_cons, List.sum_cons, Option.map_some, Option.getD_some] at ih ⊢
        rw [ih]
      · right; exact ⟨q, by simp [hq], hql⟩

/-- **prune_shell preserves every contracted function.** -/
theorem pruneShell_colFn (val : ν → Rat) (sh sh' : Shell ν) (n : Nat)
    (hn : sh.exps.length = n) (hr : Rect n sh.coefs) (hne : sh.coefs ≠ [])
    (h : pruneShell val sh = .ok sh') (j : Nat) (hj : j < sh.coefs.length) (x : Rat) :
    colFn val sh'.exps (sh'.coefs[j]?.getD []) x = colFn val sh.exps (sh.coefs[j]?.getD []) x := by
  unfold pruneShell at h
  simp only at h
  split at h
  · cases h
  · cases hm : mapE (collapseG val) (groupRows val (sh.exps.zip (zipStar sh.coefs))) with
    | error e => simp [hm] at h
    | ok merged =>
      simp only [hm] at h
      cases h
      simp only
      -- input side
      have hz : zipStar sh.coefs = zipStarAux n sh.coefs := by
        unfold zipStar
        cases hc : sh.coefs with
        | nil => exact absurd hc hne
        | cons c cs =>
          have : c.length = n := hr c (by simp [hc])
          simp [this]
      have hin := wPrims_zipStarAux val x j n sh.exps sh.coefs hn hr hne hj
      rw [← hz] at hin
      -- rows all have length m
      have hrows : ∀ p ∈ sh.exps.zip (zipStar sh.coefs), p.2.length = sh.coefs.length := by
        intro p hp
        have := (List.of_mem_zip hp).2
        rw [zipStar_closed hne hr] at this
        simp only [List.mem_map, List.mem_range] at this
        obtain ⟨i, hi, hpi⟩ := this
        rw [← hpi]
        have : ∀ (m : List (List ν)), (∀ c ∈ m, i < c.length) → (m.filterMap (·[i]?)).length = m.length := by
          intro m
          induction m with
          | nil => simp
          | cons a as iha =>
            intro hall
            have ha : i < a.length := hall a (by simp)
            simp [List.filterMap_cons, List.getElem?_eq_getElem ha, iha (fun c hc => hall c (by simp [hc]))]
        exact this _ (fun c hc => by rw [hr c hc]; exact hi)
      have hg := groupRows_rows val _ (fun r => r.length = sh.coefs.length) hrows
      obtain ⟨hm1, _, hm3⟩ := wPrims_merged val x j sh.coefs.length hj _ merged hg hm
      have hfil := wPrims_filter val x j merged
      have hgr := wGroups_groupRows val x j (sh.exps.zip (zipStar sh.coefs))
      -- output side
      have hkept : ∀ p ∈ merged.filter (notAllZero val), p.2.length = sh.coefs.length :=
        fun p hp => hm3 p (List.mem_filter.1 hp).1
      have hout : colFn val ((merged.filter (notAllZero val)).map (·.1))
          ((zipStar ((merged.filter (notAllZero val)).map (·.2)))[j]?.getD []) x
          = wPrims val x j (merged.filter (notAllZero val)) := by
        cases hk : merged.filter (notAllZero val) with
        | nil => simp [zipStar, zipStarAux, colFn, wPrims]
        | cons p ps =>
          have hrect : Rect sh.coefs.length ((p :: ps).map (·.2)) := by
            intro c hc
            simp only [List.mem_map] at hc
            obtain ⟨q, hq, rfl⟩ := hc
            exact hkept q (by rw [hk]; exact hq)
          rw [zipStar_closed (by simp) hrect]
          simp only [List.getElem?_map, List.getElem?_range hj, Option.map_some, Option.getD_some]
          rcases colFn_of_rows val x j (p :: ps) with hc | ⟨q, hq, hql⟩
          · rw [hc]; rfl
          · have := hkept q (by rw [hk]; exact hq)
            omega
      rw [hout, hfil, hm1, hgr, hin]

end BSE
