import BSEModel.Compose
import BSEModel.Notation
/-! Model of the `get_basis` front end: name lookup, version defaulting, element selection. -/
namespace BSE.Api
open BSE BSE.Compose

/-- version argument as the caller may give it -/
inductive VerArg | none | str (s : String) | int (n : Int)
  deriving Repr, DecidableEq

/-- `version = bs_data['latest_version'] if version is None else str(version)`, then membership -/
def resolveVersion (latest : String) (versions : List String) (v : VerArg) : Except PyErr String :=
  let s := match v with
    | .none => latest
    | .str s => s
    | .int n => toString n
  if versions.contains s then .ok s else .error .key

/-- the element filter of `get_basis` on the composed element dictionary;
`sel` = `expand_elements(elements, True)` -/
def selectElements (els : Dict) (sel : List String) : Except PyErr Dict :=
  if sel.isEmpty then .ok els else
  if sel.any (fun z => !(Dict.has els z)) then .error .key else
  .ok (els.filter (fun kv => sel.contains kv.1))

/-- `get_basis(name, elements, version)` without further options on an already composed basis -/
def applySelection (basis : Dict) (display : String) (sel : Option (List String)) : Except PyErr Dict := do
  let b := Dict.set basis "name" (.str display)
  match sel with
  | Option.none => pure b
  | some s =>
    if s.isEmpty then pure b else do
      let els ← asObj (← getKey b "elements")
      let els' ← selectElements els s
      let b := Dict.set b "elements" (.obj els')
      pure (Dict.set b "function_types" (wholeTypes els'))

end BSE.Api
