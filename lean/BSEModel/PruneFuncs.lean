import BSEModel.PruneMain
import BSEModel.Manip
/-! spike: lift prune_shell to the level of `funcs` / `funcSet`, and prune_basis's dedup -/
namespace BSE
variable {ν : Type}

/-- number of columns of the pruned shell: unchanged unless every row was dropped -/
theorem pruneShell_ncols (val : ν → Rat) (sh sh' : Shell ν) (n : Nat)
    (hn : sh.exps.length = n) (hr : Rect n sh.coefs) (hne : sh.coefs ≠ [])
    (h : pruneShell val sh = .ok sh') :
    sh'.am = sh.am ∧ (sh'.exps = [] ∨ sh'.coefs.length = sh.coefs.length) := by
  unfold pruneShell at h
  simp only at h
  split at h
  · cases h
  · cases hm : mapE (collapseG val) (groupRows val (sh.exps.zip (zipStar sh.coefs))) with
    | error e => simp [hm] at h
    | ok merged =>
      simp only [hm] at h
      cases h
      refine ⟨rfl, ?_⟩
      simp only
      cases hk : merged.filter (notAllZero val) with
      | nil => left; simp
      | cons p ps =>
        right
        -- all kept rows have length m
        have hrows : ∀ q ∈ sh.exps.zip (zipStar sh.coefs), q.2.length = sh.coefs.length := by
          intro q hq
          have := (List.of_mem_zip hq).2
          rw [zipStar_closed hne hr] at this
          simp only [List.mem_map, List.mem_range] at this
          obtain ⟨i, hi, hpi⟩ := this
          rw [← hpi]
          have : ∀ (m : List (List ν)), (∀ c ∈ m, i < c.length) → (m.filterMap (·[i]?)).length = m.length := by
            intro m
            induction m with
            | nil => simp
            | cons a as iha =>
              intro hall
              have ha : i < a.length := hall a (by simp)
              simp [List.getElem?_eq_getElem ha, iha (fun c hc => hall c (by simp [hc]))]
          exact this _ (fun c hc => by rw [hr c hc]; exact hi)
        have hg := groupRows_rows val _ (fun r => r.length = sh.coefs.length) hrows
        have hpos : 0 < sh.coefs.length := List.length_pos_iff.2 hne
        obtain ⟨_, _, hm3⟩ := wPrims_merged val 0 0 sh.coefs.length hpos _ merged hg hm
        have hrect : Rect sh.coefs.length ((p :: ps).map (·.2)) := by
          intro c hc
          simp only [List.mem_map] at hc
          obtain ⟨q, hq, rfl⟩ := hc
          exact hm3 q (List.mem_filter.1 (by rw [hk]; exact hq)).1
        rw [zipStar_closed (by simp) hrect]
        simp

/-- the contracted functions of a pruned shell, as a list, unless the shell vanished -/
theorem pruneShell_funcs (val : ν → Rat) (sh sh' : Shell ν) (n : Nat)
    (hn : sh.exps.length = n) (hr : Rect n sh.coefs) (hne : sh.coefs ≠ [])
    (h : pruneShell val sh = .ok sh') (hkeep : sh'.exps ≠ []) :
    sh'.funcs val = sh.funcs val := by
  obtain ⟨ham, hcols⟩ := pruneShell_ncols val sh sh' n hn hr hne h
  have hlen : sh'.coefs.length = sh.coefs.length := by
    rcases hcols with h0 | h1
    · exact absurd h0 hkeep
    · exact h1
  have hcol : ∀ j (hj : j < sh.coefs.length), colFn val sh'.exps (sh'.coefs[j]'(by omega)) = colFn val sh.exps sh.coefs[j] := by
    intro j hj
    funext x
    have := pruneShell_colFn val sh sh' n hn hr hne h j hj x
    simpa [List.getElem?_eq_getElem hj, List.getElem?_eq_getElem (show j < sh'.coefs.length by omega)] using this
  unfold Shell.funcs
  rw [ham]
  split
  · -- fused
    apply List.ext_getElem
    · simp [hlen]
    · intro i h1 h2
      simp only [List.getElem_zipWith]
      have hi : i < sh.coefs.length := by simp at h2; omega
      rw [hcol i hi]
  · apply List.ext_getElem
    · simp [hlen]
    · intro i h1 h2
      simp only [List.getElem_map]
      have hi : i < sh.coefs.length := by simpa using h2
      rw [hcol i hi]

/-- `dedup` keeps exactly the members -/
theorem mem_dedup [DecidableEq ν] (acc l : List (Shell ν)) (s : Shell ν) :
    s ∈ dedup acc l ↔ s ∈ acc ∨ s ∈ l := by
  induction l generalizing acc with
  | nil => simp [dedup]
  | cons a as ih =>
    unfold dedup
    split
    · rename_i hin
      rw [ih]
      constructor
      · rintro (h | h)
        · exact Or.inl h
        · exact Or.inr (by simp [h])
      · rintro (h | h)
        · exact Or.inl h
        · simp only [List.mem_cons] at h
          rcases h with rfl | h
          · exact Or.inl hin
          · exact Or.inr h
    · rw [ih]
      simp only [List.mem_append, List.mem_cons, List.not_mem_nil, or_false]
      constructor
      · rintro ((h | h) | h)
        · exact Or.inl h
        · exact Or.inr (Or.inl h)
        · exact Or.inr (Or.inr h)
      · rintro (h | h | h)
        · exact Or.inl (Or.inl h)
        · exact Or.inl (Or.inr h)
        · exact Or.inr h

theorem funcSet_dedup [DecidableEq ν] (val : ν → Rat) (l : List (Shell ν)) (f : Func) :
    funcSet val (dedup [] l) f ↔ funcSet val l f := by
  unfold funcSet
  constructor
  · rintro ⟨s, hs, hf⟩; exact ⟨s, by simpa [mem_dedup] using hs, hf⟩
  · rintro ⟨s, hs, hf⟩; exact ⟨s, by simpa [mem_dedup] using hs, hf⟩

end BSE
