import BSEModel.Shell
/-! spike: element-level manipulations on shell lists (model) -/
namespace BSE
variable {ν : Type}

instance [DecidableEq ν] : DecidableEq (Shell ν) := by
  intro a b
  cases a; cases b
  simp only [Shell.mk.injEq]
  exact inferInstance

/-- `for sh in shells: if sh not in out: out.append(sh)` -/
def dedup [DecidableEq ν] : List (Shell ν) → List (Shell ν) → List (Shell ν)
  | acc, [] => acc
  | acc, sh :: rest => if sh ∈ acc then dedup acc rest else dedup (acc ++ [sh]) rest

/-- prune_basis on one element's shell list -/
def pruneShells [DecidableEq ν] (val : ν → Rat) (shells : List (Shell ν)) : Except String (List (Shell ν)) :=
  match mapE (pruneShell val) shells with
  | .error e => .error e
  | .ok ss => .ok (dedup [] ss)

/-- uncontract_general on one element's shell list (before the final prune) -/
def uncontractGeneralCore (shells : List (Shell ν)) : List (Shell ν) :=
  shells.flatMap fun sh =>
    if sh.coefs.length = 1 ∨ sh.am.length > 1 then [sh]
    else if sh.am.length = 1 then sh.coefs.map (fun c => { sh with coefs := [c] })
    else []

def uncontractGeneral [DecidableEq ν] (val : ν → Rat) (shells : List (Shell ν)) :=
  pruneShells val (uncontractGeneralCore shells)

/-! ### semantics: the set of contracted functions -/

abbrev Func := Nat × (Rat → Rat)

def Shell.funcs (val : ν → Rat) (sh : Shell ν) : List Func :=
  if sh.am.length > 1 then List.zipWith (fun a c => (a, colFn val sh.exps c)) sh.am sh.coefs
  else sh.coefs.map (fun c => (sh.am.headD 0, colFn val sh.exps c))

def funcSet (val : ν → Rat) (shells : List (Shell ν)) (f : Func) : Prop :=
  ∃ sh ∈ shells, f ∈ sh.funcs val

theorem funcSet_uncontractGeneralCore (val : ν → Rat) (shells : List (Shell ν)) (f : Func)
    (hwf : ∀ sh ∈ shells, sh.am ≠ []) :
    funcSet val (uncontractGeneralCore shells) f ↔ funcSet val shells f := by
  unfold funcSet uncontractGeneralCore
  constructor
  · rintro ⟨sh', hsh', hf⟩
    simp only [List.mem_flatMap] at hsh'
    obtain ⟨sh, hsh, hin⟩ := hsh'
    refine ⟨sh, hsh, ?_⟩
    split at hin
    · simp at hin; subst hin; exact hf
    · rename_i hc
      split at hin
      · rename_i ham
        simp only [List.mem_map] at hin
        obtain ⟨c, hc', rfl⟩ := hin
        have h1 : ¬ (sh.am.length > 1) := by omega
        simp only [Shell.funcs, h1, if_false, List.map_cons, List.map_nil, List.mem_singleton] at hf ⊢
        simp only [List.mem_map]
        exact ⟨c, hc', hf.symm⟩
      · simp at hin
  · rintro ⟨sh, hsh, hf⟩
    by_cases hc : sh.coefs.length = 1 ∨ sh.am.length > 1
    · exact ⟨sh, by simp only [List.mem_flatMap]; exact ⟨sh, hsh, by simp [hc]⟩, hf⟩
    · have h1 : ¬ (sh.am.length > 1) := by omega
      simp only [Shell.funcs, h1, if_false, List.mem_map] at hf
      obtain ⟨c, hc', rfl⟩ := hf
      by_cases ham : sh.am.length = 1
      · refine ⟨{ sh with coefs := [c] }, ?_, ?_⟩
        · simp only [List.mem_flatMap]
          exact ⟨sh, hsh, by rw [if_neg hc, if_pos ham]; exact List.mem_map.2 ⟨c, hc', rfl⟩⟩
        · simp [Shell.funcs, h1]
      · -- am empty is excluded by the schema (minItems 1)
        have := hwf sh hsh
        cases hsa : sh.am with
        | nil => exact absurd hsa this
        | cons a as =>
          have hl : sh.am.length = as.length + 1 := by simp [hsa]
          omega

end BSE
