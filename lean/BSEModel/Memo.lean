/-! Model of `memo._make_key` (line by line, with the argument-shape guard) and of the memoiser
as a state machine at the granularity of its dictionary operations. -/
namespace BSE.Memo

structure Spec (β : Type) where
  args : List String
  defaults : List β          -- defaults of the last `defaults.length` parameters

variable {β : Type}

def lookup (kw : List (String × β)) (k : String) : Option β := (kw.find? (·.1 == k)).map (·.2)

/-- `args_spec.args[-num_defaults:]` — the WHOLE list when there are no defaults (`args[-0:]`) -/
def defaultsNames (s : Spec β) : List String :=
  if s.defaults.length = 0 then s.args else s.args.drop (s.args.length - s.defaults.length)

inductive KeyRes (β : Type)
  | none                -- `return None`: let the call fail
  | raise               -- IndexError inside `_make_key` (a default that does not exist)
  | key (k : List β)
  deriving Repr, DecidableEq

def go (s : Spec β) (kw : List (String × β)) (dn : List String) : List String → Nat → List β → KeyRes β
  | [], _, acc => .key acc
  | la :: rest, start, acc =>
    let start' := if dn.contains la then start + 1 else start
    match lookup kw la with
    | some v => go s kw dn rest start' (acc ++ [v])
    | Option.none =>
      match s.defaults[start]? with
      | some d => go s kw dn rest start' (acc ++ [d])
      | Option.none => .raise

def makeKey (s : Spec β) (pos : List β) (kw : List (String × β)) : KeyRes β :=
  let kws := kw.map (·.1)
  -- guard: too many positionals, or a keyword repeating a positional
  if pos.length > s.args.length || (s.args.take pos.length).any (kws.contains ·) then .none else
  let left := s.args.drop pos.length
  let dn := defaultsNames s
  let symdiff := (left.filter (fun a => !kws.contains a)) ++ (kws.filter (fun a => !left.contains a))
  if !(symdiff.all (dn.contains ·)) then .none else
  let start0 := ((pos.zip s.args).filter (fun p => dn.contains p.2)).length
  let key0 := (pos.zip s.args).map (·.1)
  go s kw dn left start0 key0

/-- what Python's own binding gives: `none` = TypeError -/
def bound (s : Spec β) (pos : List β) (kw : List (String × β)) : Option (List β) :=
  let n := s.args.length
  if pos.length > n then Option.none else
  if kw.any (fun p => !(s.args.contains p.1) || (s.args.take pos.length).contains p.1) then Option.none else
  (List.range n).mapM fun i =>
    if h : i < pos.length then some pos[i] else
    match lookup kw (s.args.getD i "") with
    | some v => some v
    | Option.none => (s.defaults[i - (n - s.defaults.length)]?).filter (fun _ => i ≥ n - s.defaults.length)

/-! ### enumeration of call shapes -/

def subsets : List String → List (List String)
  | [] => [[]]
  | x :: xs => (subsets xs) ++ (subsets xs).map (x :: ·)

/-- positional prefixes of length 0..n+1 (values 1,2,…), every keyword subset of the parameters plus
one unknown name (value 50+index): all binding shapes, bindable or not -/
def allCalls (s : Spec Nat) : List (List Nat × List (String × Nat)) :=
  (List.range (s.args.length + 2)).flatMap fun np =>
    (subsets (s.args ++ ["zz"])).map fun ks => ((List.range np).map (· + 1), ks.zipIdx.map (fun k => (k.1, 50 + k.2)))

def okCall (s : Spec Nat) (c : List Nat × List (String × Nat)) : Bool :=
  match bound s c.1 c.2 with
  | some b => (match makeKey s c.1 c.2 with | .key k => k == b | _ => false)
  -- not bindable: no key (the call is passed through and raises) or `_make_key` itself raises
  | Option.none => (match makeKey s c.1 c.2 with | .key _ => false | _ => true)

/-! ### the memoiser as a state machine -/

variable {A K V : Type} [DecidableEq K]

structure MState (A K V : Type) where
  enabled : Bool
  cache : List (K × V)
  /-- calls in flight: a thread that missed the cache and is computing -/
  inflight : List (Nat × A × K)

inductive Step (A : Type)
  | toggle
  | begin (t : Nat) (a : A)     -- read flag, make key, look up
  | finish (t : Nat)            -- body done: store and return
  deriving Repr

def cacheGet (c : List (K × V)) (k : K) : Option V := (c.find? (·.1 == k)).map (·.2)

/-- one step; the output is the value returned to a caller at this step, if any -/
def step (key : A → Option K) (F : A → V) (s : MState A K V) : Step A → MState A K V × Option (A × V)
  | .toggle => ({ s with enabled := !s.enabled }, none)
  | .begin t a =>
    if !s.enabled then (s, some (a, F a)) else
    match key a with
    | none => (s, some (a, F a))
    | some k =>
      match cacheGet s.cache k with
      | some v => (s, some (a, v))
      | none => ({ s with inflight := (t, a, k) :: s.inflight }, none)
  | .finish t =>
    match s.inflight.find? (·.1 == t) with
    | none => (s, none)
    | some (_, a, k) =>
      ({ s with cache := (k, F a) :: s.cache, inflight := s.inflight.filter (·.1 != t) }, some (a, F a))

def run (key : A → Option K) (F : A → V) : MState A K V → List (Step A) → List (A × V)
  | _, [] => []
  | s, st :: rest =>
    let (s', out) := step key F s st
    (match out with | some o => [o] | none => []) ++ run key F s' rest

end BSE.Memo
