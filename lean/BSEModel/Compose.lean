import BSEModel.Json
/-! Model of `compose.py` (+ `manip.merge_element_data`, the `get_basis` front end without options)
over a data directory `dir : path → file content`.  Written after the code, phase by phase, so that
the first error raised is the one the code raises. -/
namespace BSE.Compose
open BSE

abbrev Dir := String → Option J

/-- `fileio.read_json_basis`: file must exist and carry the schema key -/
def readBasis (dir : Dir) (p : String) : Except PyErr Dict :=
  match dir p with
  | none => .error .fileNotFound
  | some (.obj d) => if Dict.has d "molssi_bse_schema" then .ok d else .error .runtime
  | some _ => .error .type

def getKey (d : Dict) (k : String) : Except PyErr J :=
  match d.get? k with
  | some v => .ok v
  | none => .error .key

def asObj (j : J) : Except PyErr Dict := match j with | .obj d => .ok d | _ => .error .attribute
def asArr (j : J) : Except PyErr (List J) := match j with | .arr l => .ok l | _ => .error .type
def asStr (j : J) : Except PyErr String := match j with | .str s => .ok s | _ => .error .type

/-! ### manip.merge_element_data(None, sources) -/

/-- `if k in s: ret.setdefault(k, []).extend(s[k])` -/
def appendField (ret : Dict) (k : String) (s : Dict) : Except PyErr Dict :=
  match Dict.get? s k with
  | none => .ok ret
  | some (.arr add) =>
    match Dict.get? ret k with
    | none => .ok (Dict.set ret k (.arr add))
    | some (.arr cur) => .ok (Dict.set ret k (.arr (cur ++ add)))
    | some _ => .error .type
  | some _ => .error .type

/-- the ECP part: a second ECP is refused -/
def setEcp (ret s : Dict) : Except PyErr Dict :=
  match Dict.get? s "ecp_potentials" with
  | none => .ok ret
  | some p =>
    if Dict.has ret "ecp_potentials" then .error .runtime else
    match Dict.get? s "ecp_electrons" with
    | none => .error .key
    | some n => .ok (Dict.set (Dict.set ret "ecp_potentials" p) "ecp_electrons" n)

/-- one source merged into the running result -/
def mergeOne (ret : Dict) (s : Dict) : Except PyErr Dict :=
  match appendField ret "electron_shells" s with
  | .error e => .error e
  | .ok r1 =>
    match setEcp r1 s with
    | .error e => .error e
    | .ok r2 => appendField r2 "references" s

def mergeElementData : List Dict → Dict → Except PyErr Dict
  | [], ret => .ok ret
  | s :: rest, ret =>
    match mergeOne ret s with
    | .error e => .error e
    | .ok r => mergeElementData rest r

/-! ### compose_elemental_basis -/

/-- `el_data['references'] = [{'reference_description': v['description'], 'reference_keys': el_data['references']}]` -/
def wrapRefs (desc : J) (el : Dict) : Except PyErr Dict := do
  let keys ← getKey el "references"
  pure (Dict.set el "references" (.arr [.obj [("reference_description", desc), ("reference_keys", keys)]]))

/-- a component file after its reference keys have been wrapped: element → entry -/
def loadComponent (dir : Dir) (p : String) : Except PyErr (List (String × Dict)) := do
  let c ← readBasis dir p
  let els ← asObj (← getKey c "elements")
  -- the description is looked up once per element (KeyError only if there is an element)
  mapEx (fun kv => do
    let desc ← getKey c "description"
    let el ← asObj kv.2
    let w ← wrapRefs desc el
    pure (kv.1, w)) els

def lookupEl (m : List (String × Dict)) (z : String) : Option Dict := (m.find? (·.1 == z)).map (·.2)

def dedupStr : List String → List String
  | [] => []
  | x :: xs => x :: (dedupStr xs).filter (· != x)

def componentsOf (v : J) : Except PyErr (List String) := do
  let d ← asObj v
  let cs ← asArr (← getKey d "components")
  mapEx asStr cs

def composeElemental (dir : Dir) (p : String) : Except PyErr Dict := do
  let el_bs ← readBasis dir p
  let els ← asObj (← getKey el_bs "elements")
  -- phase 1: which component files
  let comps ← mapEx (fun kv => componentsOf kv.2) els
  let files := dedupStr comps.flatten
  -- phase 2: read and wrap all of them
  let cmap ← mapEx (fun f => do let c ← loadComponent dir f; pure (f, c)) files
  -- phase 3: per element
  let newEls ← mapEx (fun kvc => do
      let (kv, cs) := kvc
      let datas ← mapEx (fun c =>
        match (cmap.find? (·.1 == c)).map (·.2) with
        | none => .error PyErr.key
        | some centry =>
          match lookupEl centry kv.1 with
          | none => .error PyErr.runtime
          | some d => .ok d) cs
      let merged ← mergeElementData datas []
      pure (kv.1, J.obj merged)) (els.zip comps)
  pure (Dict.set el_bs "elements" (.obj newEls))

/-! ### compose_table_basis -/

/-- `str.split(c)` on character lists (structural, so that the kernel can evaluate it) -/
def splitChars (c : Char) : List Char → List (List Char)
  | [] => [[]]
  | x :: xs =>
    if x = c then [] :: splitChars c xs
    else match splitChars c xs with
      | [] => [[x]]
      | p :: ps => (x :: p) :: ps

def splitOn (c : Char) (s : String) : List String := (splitChars c s.toList).map String.ofList

def basename (p : String) : String := (splitOn '/' p).getLast?.getD ""
def dirname (p : String) : String :=
  let parts := splitOn '/' p
  "/".intercalate parts.dropLast

/-- `file_base.split('.')[-3]` -/
def versionOf (p : String) : Except PyErr String :=
  let parts := splitOn '.' (basename p)
  if parts.length < 3 then .error .index else .ok (parts.getD (parts.length - 3) "")

def insertStr (x : String) : List String → List String
  | [] => [x]
  | y :: ys => if x < y then x :: y :: ys else if x = y then y :: ys else y :: insertStr x ys

def sortDedupStr (l : List String) : List String := l.foldr insertStr []

def typesOfElement (el : J) : List String :=
  match el with
  | .obj d =>
    (match Dict.get? d "electron_shells" with
     | some (.arr shs) => shs.filterMap (fun sh => match sh with | .obj s => (Dict.get? s "function_type").bind J.asStr? | _ => none)
     | _ => []) ++
    (match Dict.get? d "ecp_potentials" with
     | some (.arr ps) => ps.filterMap (fun p => match p with | .obj s => (Dict.get? s "ecp_type").bind J.asStr? | _ => none)
     | _ => [])
  | _ => []

/-- `_whole_basis_types` -/
def wholeTypes (els : Dict) : J := .arr ((sortDedupStr (els.flatMap (fun kv => typesOfElement kv.2))).map .str)

def metaPath (tablePath : String) : String :=
  let d := dirname tablePath
  let f := (splitOn '.' (basename tablePath)).headD "" ++ ".metadata.json"
  if d = "" then f else d ++ "/" ++ f

def composeTable (dir : Dir) (p : String) : Except PyErr Dict := do
  let table ← readBasis dir p
  let els ← asObj (← getKey table "elements")
  let efiles ← mapEx (fun kv => asStr kv.2) els
  let emap ← mapEx (fun f => do let e ← composeElemental dir f; pure (f, e)) (dedupStr efiles)
  let newEls ← mapEx (fun kvf => do
      let (kv, f) := kvf
      match (emap.find? (·.1 == f)).map (·.2) with
      | none => .error PyErr.key
      | some data => do
        let dels ← asObj (← getKey data "elements")
        match dels.get? kv.1 with
        | none => .error PyErr.key
        | some v => pure (kv.1, v)) (els.zip efiles)
  let t := Dict.set table "elements" (.obj newEls)
  let v ← versionOf p
  let t := Dict.set t "version" (.str v)
  let t := Dict.set t "function_types" (wholeTypes newEls)
  let md ← readBasis dir (metaPath p)
  let t := Dict.update t md
  pure (Dict.set t "molssi_bse_schema" (.obj [("schema_type", .str "complete"), ("schema_version", .str "0.1")]))

/-! ### the specification side: what the chain table → element file → components designates -/

/-- the entries of element `z` in its components, in component order (already wrapped) -/
def designated (dir : Dir) (efile z : String) : Except PyErr (List Dict) := do
  let el_bs ← readBasis dir efile
  let els ← asObj (← getKey el_bs "elements")
  let v ← getKey els z
  let cs ← componentsOf v
  mapEx (fun c => do
    let centry ← loadComponent dir c
    match lookupEl centry z with
    | none => .error PyErr.runtime
    | some d => .ok d) cs

def shellsOf (d : Dict) : List J := match Dict.get? d "electron_shells" with | some (.arr l) => l | _ => []
def refsOf (d : Dict) : List J := match Dict.get? d "references" with | some (.arr l) => l | _ => []

end BSE.Compose
