import BSEModel.Index
/-! Model of `references.compact_references` (grouping of elements by reference information) and of
`notes.process_notes`. -/
namespace BSE.Refs
open BSE

variable {ρ : Type} [DecidableEq ρ]

/-- add element `el` with reference info `r`: to the first group with equal info, else a new group -/
def addToGroups (el : String) (r : ρ) : List (ρ × List String) → List (ρ × List String)
  | [] => [(r, [el])]
  | (r0, els) :: rest => if r0 = r then (r0, els ++ [el]) :: rest else (r0, els) :: addToGroups el r rest

/-- `compact_references` without the key resolution: elements (already sorted by Z) ↦ groups -/
def compactGroups (els : List (String × ρ)) : List (ρ × List String) :=
  els.foldl (fun gs e => addToGroups e.1 e.2 gs) []

/-- is `pat` a substring of `s` -/
def isSub (pat : List Char) : List Char → Bool
  | [] => pat.isPrefixOf []
  | c :: cs => pat.isPrefixOf (c :: cs) || isSub pat cs

def insertS (x : String) : List String → List String
  | [] => [x]
  | y :: ys => if x < y then x :: y :: ys else if x = y then y :: ys else y :: insertS x ys

def sortKeys (l : List String) : List String := l.foldr insertS []

def banner : String :=
  "\n\n-------------------------------------------------\n REFERENCES MENTIONED ABOVE\n (not necessarily references for the basis sets)\n-------------------------------------------------\n"

/-- `process_notes(notes, ref_data)`; `refText` = `references.reference_text` (not modelled: uses textwrap) -/
def processNotes (notes : String) (keys : List String) (refText : String → String) : String :=
  let found := sortKeys (keys.filter fun k => isSub k.toList notes.toList)
  if found.isEmpty then notes
  else notes ++ banner ++ String.join (found.map fun k => refText k ++ "\n\n")

end BSE.Refs
