import BSEModel.Compose
import BSEProofs.Lemmas.Dict
import BSEProofs.Lemmas.ComposeSpec
/-! # C01 — get_basis returns exactly the curated data it is composed from

Statements about `BSE.Compose` (the model of `compose.py` + `manip.merge_element_data`): what the
merged element contains, in which order, and when composition is refused. -/
namespace BSE.Props.C01
open BSE BSE.Compose BSE.Dict

/-- list stored under `k` (empty when absent) -/
def listOf (d : Dict) (k : String) : List J := match get? d k with | some (.arr l) => l | _ => []

theorem listOf_set_other (d : Dict) (k k' : String) (v : J) (h : k ≠ k') : listOf (Dict.set d k v) k' = listOf d k' := by
  unfold listOf; rw [get?_set_other d k k' v h]

theorem listOf_set (d : Dict) (k : String) (l : List J) : listOf (Dict.set d k (.arr l)) k = l := by
  unfold listOf; rw [get?_set_same]

/-- `appendField` appends the source's list under `k` and leaves every other key alone -/
theorem appendField_spec (ret s r : Dict) (k : String) (h : appendField ret k s = .ok r) :
    listOf r k = listOf ret k ++ listOf s k ∧ ∀ k', k' ≠ k → get? r k' = get? ret k' := by
  unfold appendField at h
  cases hs : get? s k with
  | none =>
    simp only [hs] at h; cases h
    exact ⟨by simp [listOf, hs], fun _ _ => rfl⟩
  | some v =>
    cases v with
    | arr add =>
      simp only [hs] at h
      cases hr : get? ret k with
      | none =>
        simp only [hr] at h; cases h
        exact ⟨by rw [listOf_set]; simp [listOf, hs, hr], fun k' hk => get?_set_other _ _ _ _ (Ne.symm hk)⟩
      | some c =>
        cases c with
        | arr cur =>
          simp only [hr] at h; cases h
          exact ⟨by rw [listOf_set]; simp [listOf, hs, hr], fun k' hk => get?_set_other _ _ _ _ (Ne.symm hk)⟩
        | _ => simp [hr] at h
    | _ => simp [hs] at h

theorem setEcp_keeps (ret s r : Dict) (h : setEcp ret s = .ok r) (k' : String)
    (h1 : k' ≠ "ecp_potentials") (h2 : k' ≠ "ecp_electrons") : get? r k' = get? ret k' := by
  unfold setEcp at h
  cases hp : get? s "ecp_potentials" with
  | none => simp only [hp] at h; cases h; rfl
  | some p =>
    simp only [hp] at h
    split at h
    · cases h
    · cases hn : get? s "ecp_electrons" with
      | none => simp [hn] at h
      | some n =>
        simp only [hn] at h; cases h
        rw [get?_set_other _ _ _ _ (Ne.symm h2), get?_set_other _ _ _ _ (Ne.symm h1)]

/-- **a second ECP for one element is refused** (RuntimeError), whatever else the source holds -/
theorem setEcp_second_refused (ret s : Dict) (hr : has ret "ecp_potentials" = true)
    (hs : has s "ecp_potentials" = true) : setEcp ret s = .error .runtime := by
  unfold setEcp
  have : (get? s "ecp_potentials").isSome = true := (has_iff_get? s _).1 hs
  cases hp : get? s "ecp_potentials" with
  | none => simp [hp] at this
  | some p => simp [hr]

/-- a first ECP is taken over verbatim, together with its electron count -/
theorem setEcp_first (ret s : Dict) (p n : J) (hr : has ret "ecp_potentials" = false)
    (hp : get? s "ecp_potentials" = some p) (hn : get? s "ecp_electrons" = some n) :
    ∃ r, setEcp ret s = .ok r ∧ get? r "ecp_potentials" = some p ∧ get? r "ecp_electrons" = some n := by
  refine ⟨Dict.set (Dict.set ret "ecp_potentials" p) "ecp_electrons" n, by simp [setEcp, hp, hr, hn], ?_, ?_⟩
  · rw [get?_set_other _ _ _ _ (by decide), get?_set_same]
  · rw [get?_set_same]

/-- **one merge step appends the shells and the reference groups of the source, in order** -/
theorem mergeOne_spec (ret s r : Dict) (h : mergeOne ret s = .ok r) :
    listOf r "electron_shells" = listOf ret "electron_shells" ++ listOf s "electron_shells"
      ∧ listOf r "references" = listOf ret "references" ++ listOf s "references" := by
  unfold mergeOne at h
  cases h1 : appendField ret "electron_shells" s with
  | error e => simp [h1] at h
  | ok r1 =>
    simp only [h1] at h
    cases h2 : setEcp r1 s with
    | error e => simp [h2] at h
    | ok r2 =>
      simp only [h2] at h
      obtain ⟨a1, k1⟩ := appendField_spec ret s r1 _ h1
      obtain ⟨a3, k3⟩ := appendField_spec r2 s r _ h
      have e2 : ∀ k', k' ≠ "ecp_potentials" → k' ≠ "ecp_electrons" → get? r2 k' = get? r1 k' :=
        fun k' x y => setEcp_keeps r1 s r2 h2 k' x y
      constructor
      · have : listOf r "electron_shells" = listOf r2 "electron_shells" := by
          unfold listOf; rw [k3 _ (by decide)]
        rw [this]
        have : listOf r2 "electron_shells" = listOf r1 "electron_shells" := by
          unfold listOf; rw [e2 _ (by decide) (by decide)]
        rw [this, a1]
      · rw [a3]
        have : listOf r2 "references" = listOf ret "references" := by
          unfold listOf; rw [e2 _ (by decide) (by decide), k1 _ (by decide)]
        rw [this]

/-- **the merged element holds exactly the shells and reference groups of its components,
concatenated in component order — nothing invented, dropped, duplicated or reordered** -/
theorem mergeElementData_spec (sources : List Dict) (acc r : Dict) (h : mergeElementData sources acc = .ok r) :
    listOf r "electron_shells" = listOf acc "electron_shells" ++ sources.flatMap (listOf · "electron_shells")
      ∧ listOf r "references" = listOf acc "references" ++ sources.flatMap (listOf · "references") := by
  induction sources generalizing acc with
  | nil => simp [mergeElementData] at h; cases h; simp
  | cons s rest ih =>
    simp only [mergeElementData] at h
    cases hm : mergeOne acc s with
    | error e => simp [hm] at h
    | ok r1 =>
      simp only [hm] at h
      obtain ⟨a, b⟩ := mergeOne_spec acc s r1 hm
      obtain ⟨c, d⟩ := ih r1 h
      simp only [List.flatMap_cons]
      rw [c, d, a, b]
      simp [List.append_assoc]

theorem mergeElementData_from_empty (sources : List Dict) (r : Dict) (h : mergeElementData sources [] = .ok r) :
    listOf r "electron_shells" = sources.flatMap (listOf · "electron_shells")
      ∧ listOf r "references" = sources.flatMap (listOf · "references") := by
  have := mergeElementData_spec sources [] r h
  simpa [listOf, get?] using this

/-- **two ECPs among the components of one element ⇒ the element is refused** -/
theorem mergeElementData_two_ecps (s1 s2 : Dict) (acc : Dict) (n : J)
    (h1 : has s1 "ecp_potentials" = true) (hn : get? s1 "ecp_electrons" = some n) (h2 : has s2 "ecp_potentials" = true)
    (hacc : has acc "ecp_potentials" = false) :
    ∀ r, mergeElementData [s1, s2] acc ≠ .ok r := by
  intro r h
  simp only [mergeElementData] at h
  cases hm : mergeOne acc s1 with
  | error e => simp [hm] at h
  | ok r1 =>
    simp only [hm] at h
    -- r1 carries an ECP
    have hr1 : has r1 "ecp_potentials" = true := by
      unfold mergeOne at hm
      cases ha : appendField acc "electron_shells" s1 with
      | error e => simp [ha] at hm
      | ok a1 =>
        simp only [ha] at hm
        cases hb : setEcp a1 s1 with
        | error e => simp [hb] at hm
        | ok a2 =>
          simp only [hb] at hm
          have hp : (get? s1 "ecp_potentials").isSome = true := (has_iff_get? s1 _).1 h1
          cases hpp : get? s1 "ecp_potentials" with
          | none => simp [hpp] at hp
          | some p =>
            have : get? a2 "ecp_potentials" = some p := by
              unfold setEcp at hb
              simp only [hpp] at hb
              split at hb
              · cases hb
              · simp only [hn] at hb; cases hb
                rw [get?_set_other _ _ _ _ (by decide), get?_set_same]
            have k3 := (appendField_spec a2 s1 r1 _ hm).2 "ecp_potentials" (by decide)
            exact (has_iff_get? r1 _).2 (by rw [k3, this]; rfl)
    cases hm2 : mergeOne r1 s2 with
    | ok r2 =>
      -- impossible: the second ECP is refused
      unfold mergeOne at hm2
      cases ha : appendField r1 "electron_shells" s2 with
      | error e => simp [ha] at hm2
      | ok a1 =>
        simp only [ha] at hm2
        have hk : get? a1 "ecp_potentials" = get? r1 "ecp_potentials" :=
          (appendField_spec r1 s2 a1 _ ha).2 _ (by decide)
        have ha1 : has a1 "ecp_potentials" = true := (has_iff_get? a1 _).2 (by rw [hk]; exact (has_iff_get? r1 _).1 hr1)
        rw [setEcp_second_refused a1 s2 ha1 h2] at hm2
        cases hm2
    | error e => simp [hm2] at h

/-! ### function_types lists exactly the types present -/

theorem mem_insertStr (x y : String) (l : List String) : y ∈ insertStr x l ↔ y = x ∨ y ∈ l := by
  induction l with
  | nil => simp [insertStr]
  | cons a as ih =>
    unfold insertStr
    by_cases h1 : x < a
    · simp [h1]
    · by_cases h2 : x = a
      · subst h2; simp
      · simp only [h1, h2, if_false, List.mem_cons, ih]
        constructor
        · rintro (h | h | h) <;> simp [h]
        · rintro (h | h | h) <;> simp [h]

/-- `function_types` contains a type iff some shell / potential of the returned elements has it -/
theorem mem_sortDedupStr (l : List String) (y : String) : y ∈ sortDedupStr l ↔ y ∈ l := by
  induction l with
  | nil => simp [sortDedupStr]
  | cons a as ih =>
    show y ∈ insertStr a (sortDedupStr as) ↔ _
    rw [mem_insertStr, ih]; simp

/-! ### metadata merge: later file wins, schema tag rewritten -/

theorem get?_update_of_not_has (d o : Dict) (k : String) (h : has o k = false) : get? (Dict.update d o) k = get? d k := by
  unfold Dict.update
  induction o generalizing d with
  | nil => rfl
  | cons kv rest ih =>
    simp only [List.foldl_cons]
    have hk : (kv.1 == k) = false := by simp only [has, List.any_cons, Bool.or_eq_false_iff] at h; exact h.1
    have hr : has rest k = false := by simp only [has, List.any_cons, Bool.or_eq_false_iff] at h; exact h.2
    rw [ih _ hr, get?_set_other _ _ _ _ (by simpa using hk)]

/-- a key that occurs once in the metadata file is taken from there -/
theorem get?_update_single (d : Dict) (pre post : Dict) (k : String) (v : J)
    (h1 : has post k = false) : get? (Dict.update d (pre ++ (k, v) :: post)) k = some v := by
  unfold Dict.update
  rw [List.foldl_append, List.foldl_cons]
  have := get?_update_of_not_has (Dict.set (List.foldl (fun acc kv => Dict.set acc kv.1 kv.2) d pre) k v) post k h1
  unfold Dict.update at this
  rw [this, get?_set_same]

/-! ### refinement: the composition the code performs (with its per-file tables) is the specification -/

/-- **compose_elemental_basis = specification**: if it returns, the result is the element file with each element
replaced, in order, by the merge of exactly the component entries `designated` names for it (element file →
`components` list → that element's entry in each component, reference keys wrapped with the component's description) -/
theorem composeElemental_refines (dir : Dir) (p : String) (r : Dict) (h : composeElemental dir p = .ok r) :
    ∃ (el_bs els : Dict) (newEls : List (String × J)),
      readBasis dir p = .ok el_bs ∧ Dict.get? el_bs "elements" = some (.obj els)
      ∧ r = Dict.set el_bs "elements" (.obj newEls)
      ∧ newEls.length = els.length
      ∧ ∀ i (h1 : i < els.length) (h2 : i < newEls.length), Dict.get? els els[i].1 = some els[i].2 →
          ∃ datas merged, designated dir p els[i].1 = .ok datas ∧ mergeElementData datas [] = .ok merged
            ∧ newEls[i] = (els[i].1, J.obj merged) :=
  composeElemental_spec dir p r h

/-- … hence the shells and reference groups of every composed element are exactly those of its designated components,
concatenated in component order -/
theorem composeElemental_shells (dir : Dir) (p : String) (r : Dict) (h : composeElemental dir p = .ok r) :
    ∃ (els : Dict) (newEls : List (String × J)), Dict.get? r "elements" = some (.obj newEls) ∧ newEls.length = els.length
      ∧ ∀ i (h1 : i < els.length) (h2 : i < newEls.length), Dict.get? els els[i].1 = some els[i].2 →
          ∃ datas merged, designated dir p els[i].1 = .ok datas ∧ newEls[i] = (els[i].1, J.obj merged)
            ∧ listOf merged "electron_shells" = datas.flatMap (listOf · "electron_shells")
            ∧ listOf merged "references" = datas.flatMap (listOf · "references") := by
  obtain ⟨el_bs, els, newEls, _, _, hr, hl, hi⟩ := composeElemental_spec dir p r h
  refine ⟨els, newEls, by rw [hr, get?_set_same], hl, ?_⟩
  intro i h1 h2 hf
  obtain ⟨datas, merged, hd, hm, hn⟩ := hi i h1 h2 hf
  obtain ⟨a, b⟩ := mergeElementData_from_empty datas merged hm
  exact ⟨datas, merged, hd, hn, a, b⟩

/-- **compose_table_basis = specification**: if it returns, the result is the table file with every element replaced,
in order, by that element's entry of the composed element file the table names for it, `version` taken from the file
name, `function_types` recomputed from the composed elements, the basis metadata merged over it, and the schema stamp -/
theorem composeTable_refines (dir : Dir) (p : String) (t : Dict) (h : composeTable dir p = .ok t) :
    ∃ (table els md : Dict) (newEls : List (String × J)) (v : String),
      readBasis dir p = .ok table ∧ Dict.get? table "elements" = some (.obj els)
      ∧ versionOf p = .ok v ∧ readBasis dir (metaPath p) = .ok md
      ∧ t = Dict.set (Dict.update (Dict.set (Dict.set (Dict.set table "elements" (.obj newEls)) "version" (.str v))
                "function_types" (wholeTypes newEls)) md)
              "molssi_bse_schema" (.obj [("schema_type", .str "complete"), ("schema_version", .str "0.1")])
      ∧ newEls.length = els.length
      ∧ ∀ i (h1 : i < els.length) (h2 : i < newEls.length),
          ∃ (f : String) (data dels : Dict) (val : J), els[i].2 = .str f ∧ composeElemental dir f = .ok data
            ∧ Dict.get? data "elements" = some (.obj dels) ∧ Dict.get? dels els[i].1 = some val
            ∧ newEls[i] = (els[i].1, val) :=
  composeTable_spec dir p t h

/-! ### version = third-from-last dot field of the table file name -/
example : (versionOf "ahlrichs/def2-SVP.1.table.json").toOption = some "1" ∧ (versionOf "x/a.b").toOption = none := by
  decide +kernel

/-! non-vacuity: a two-component element -/
def c1 : Dict := [("electron_shells", .arr [.str "s1", .str "s2"]), ("references", .arr [.str "r1"])]
def c2 : Dict := [("ecp_potentials", .arr [.str "p"]), ("ecp_electrons", .num "10"), ("references", .arr [.str "r2"])]
example : (mergeElementData [c1, c2] []).toOption.map (fun r => ((listOf r "electron_shells").length, (listOf r "references").length, Dict.keys r))
    = some (2, 2, ["electron_shells", "references", "ecp_potentials", "ecp_electrons"]) := by
  decide +kernel
example : (mergeElementData [c2, c2] []).toOption.isNone = true := by decide +kernel

/-! non-vacuity of the refinement theorems: a four-file directory on which both compositions return -/
def schemaKV : String × J := ("molssi_bse_schema", .obj [("schema_type", .str "x")])
def toyDir : Dir := fun p =>
  if p = "b.0.table.json" then some (.obj [schemaKV, ("elements", .obj [("1", .str "b.0.element.json")])])
  else if p = "b.0.element.json" then some (.obj [schemaKV, ("elements", .obj [("1", .obj [("components", .arr [.str "c.0.json"])])])])
  else if p = "c.0.json" then some (.obj [schemaKV, ("description", .str "d"), ("elements", .obj [("1", .obj [("electron_shells", .arr [.str "s"]), ("references", .arr [.str "k"])])])])
  else if p = "b.metadata.json" then some (.obj [schemaKV, ("names", .arr [.str "b"])])
  else none
example : (composeElemental toyDir "b.0.element.json").toOption.isSome = true
    ∧ (composeTable toyDir "b.0.table.json").toOption.isSome = true
    ∧ ((composeTable toyDir "b.0.table.json").toOption.map Dict.keys)
        = some ["molssi_bse_schema", "elements", "version", "function_types", "names"] := by
  decide +kernel

end BSE.Props.C01
