import BSEModel.Refs
import BSEModel.RefRender
import BSEProofs.Lemmas.RefRenderSpec
/-! # C09 — references cover exactly the data that was returned -/
namespace BSE.Props.C09
open BSE BSE.Refs

section
variable {ρ : Type} [DecidableEq ρ]

/-- groups never share reference information -/
def DistinctInfo (gs : List (ρ × List String)) : Prop := gs.Pairwise (fun a b => a.1 ≠ b.1)

theorem addToGroups_infos (el : String) (r : ρ) (gs : List (ρ × List String)) :
    ∀ g ∈ addToGroups el r gs, g.1 = r ∨ ∃ g0 ∈ gs, g.1 = g0.1 := by
  induction gs with
  | nil => intro g hg; simp [addToGroups] at hg; left; rw [hg]
  | cons g0 rest ih =>
    obtain ⟨r0, els⟩ := g0
    intro g hg
    unfold addToGroups at hg
    by_cases h : r0 = r
    · simp only [h, if_true, List.mem_cons] at hg
      rcases hg with rfl | hg
      · left; rfl
      · right; exact ⟨g, by simp [hg], rfl⟩
    · simp only [h, if_false, List.mem_cons] at hg
      rcases hg with rfl | hg
      · right; exact ⟨(r0, els), by simp, rfl⟩
      · rcases ih g hg with h1 | ⟨g1, hg1, h1⟩
        · left; exact h1
        · right; exact ⟨g1, by simp [hg1], h1⟩

theorem addToGroups_distinct (el : String) (r : ρ) (gs : List (ρ × List String)) (h : DistinctInfo gs) :
    DistinctInfo (addToGroups el r gs) := by
  induction gs with
  | nil => simp [addToGroups, DistinctInfo]
  | cons g0 rest ih =>
    obtain ⟨r0, els⟩ := g0
    unfold addToGroups
    have hp := List.pairwise_cons.1 h
    by_cases hr : r0 = r
    · simp only [hr, if_true]
      exact List.pairwise_cons.2 ⟨by intro g hg; have := hp.1 g hg; simpa [hr] using this, hp.2⟩
    · simp only [hr, if_false]
      refine List.pairwise_cons.2 ⟨?_, ih hp.2⟩
      intro g hg
      rcases addToGroups_infos el r rest g hg with h1 | ⟨g1, hg1, h1⟩
      · rw [h1]; exact hr
      · rw [h1]; exact hp.1 g1 hg1

/-- **different groups carry different reference information** -/
theorem compactGroups_distinct (els : List (String × ρ)) : DistinctInfo (compactGroups els) := by
  unfold compactGroups
  suffices h : ∀ gs, DistinctInfo gs → DistinctInfo (els.foldl (fun gs e => addToGroups e.1 e.2 gs) gs) from
    h [] (by simp [DistinctInfo])
  induction els with
  | nil => intro gs h; simpa using h
  | cons e es ih => intro gs h; exact ih _ (addToGroups_distinct e.1 e.2 gs h)

/-- membership of (info, element) pairs -/
def Holds (gs : List (ρ × List String)) (el : String) (r : ρ) : Prop := ∃ g ∈ gs, g.1 = r ∧ el ∈ g.2

theorem addToGroups_holds (el : String) (r : ρ) (gs : List (ρ × List String)) (el' : String) (r' : ρ) :
    Holds (addToGroups el r gs) el' r' ↔ Holds gs el' r' ∨ (el' = el ∧ r' = r) := by
  induction gs with
  | nil =>
    simp only [addToGroups, Holds, List.mem_singleton, List.not_mem_nil, false_and, exists_false, false_or]
    constructor
    · rintro ⟨g, rfl, h1, h2⟩
      have : el' = el := by simpa using h2
      exact ⟨this, h1.symm⟩
    · rintro ⟨rfl, rfl⟩; exact ⟨_, rfl, rfl, by simp⟩
  | cons g0 rest ih =>
    obtain ⟨r0, els⟩ := g0
    unfold addToGroups
    by_cases hr : r0 = r
    · subst hr
      simp only [if_true, Holds, List.mem_cons, exists_eq_or_imp, List.mem_append, List.mem_singleton, List.not_mem_nil, or_false]
      constructor
      · rintro (⟨h1, h2 | h2⟩ | h)
        · exact Or.inl (Or.inl ⟨h1, h2⟩)
        · exact Or.inr ⟨h2, h1.symm⟩
        · exact Or.inl (Or.inr h)
      · rintro ((⟨h1, h2⟩ | h) | ⟨h1, h2⟩)
        · exact Or.inl ⟨h1, Or.inl h2⟩
        · exact Or.inr h
        · exact Or.inl ⟨h2.symm, Or.inr h1⟩
    · simp only [hr, if_false]
      have := ih
      simp only [Holds, List.mem_cons, exists_eq_or_imp] at this ⊢
      constructor
      · rintro (h | h)
        · exact Or.inl (Or.inl h)
        · rcases this.1 h with h' | h'
          · exact Or.inl (Or.inr h')
          · exact Or.inr h'
      · rintro ((h | h) | h)
        · exact Or.inl h
        · exact Or.inr (this.2 (Or.inl h))
        · exact Or.inr (this.2 (Or.inr h))

/-- **every element sits in a group carrying exactly its own reference information, and nothing else
is in any group**: `(el, info)` is held by the grouping iff it is one of the input pairs -/
theorem compactGroups_holds (els : List (String × ρ)) (el : String) (r : ρ) :
    Holds (compactGroups els) el r ↔ (el, r) ∈ els := by
  unfold compactGroups
  suffices h : ∀ gs, Holds (els.foldl (fun gs e => addToGroups e.1 e.2 gs) gs) el r ↔ Holds gs el r ∨ (el, r) ∈ els by
    have := h []
    simpa [Holds] using this
  induction els with
  | nil => intro gs; simp
  | cons e es ih =>
    intro gs
    simp only [List.foldl_cons, List.mem_cons]
    rw [ih, addToGroups_holds]
    constructor
    · rintro ((h | ⟨h1, h2⟩) | h)
      · exact Or.inl h
      · exact Or.inr (Or.inl (by rw [h1, h2]))
      · exact Or.inr (Or.inr h)
    · rintro (h | h | h)
      · exact Or.inl (Or.inl h)
      · exact Or.inl (Or.inr (by cases h; exact ⟨rfl, rfl⟩))
      · exact Or.inr h

/-- **exactly one group per element** (for distinct element keys): two groups holding the same element are the same group -/
theorem compactGroups_unique (els : List (String × ρ)) (hnd : (els.map (·.1)).Nodup) (el : String) (r1 r2 : ρ)
    (h1 : Holds (compactGroups els) el r1) (h2 : Holds (compactGroups els) el r2) : r1 = r2 := by
  rw [compactGroups_holds] at h1 h2
  -- element keys are distinct, so the pair is determined by the key
  induction els with
  | nil => cases h1
  | cons e es ih =>
    have hn : e.1 ∉ es.map (·.1) ∧ (es.map (·.1)).Nodup := List.nodup_cons.1 hnd
    simp only [List.mem_cons] at h1 h2
    rcases h1 with h1 | h1
    · rcases h2 with h2 | h2
      · rw [Prod.mk.injEq] at h1 h2; rw [h1.2, h2.2]
      · exfalso; apply hn.1; rw [Prod.mk.injEq] at h1; rw [← h1.1]
        exact List.mem_map.2 ⟨(el, r2), h2, rfl⟩
    · rcases h2 with h2 | h2
      · exfalso; apply hn.1; rw [Prod.mk.injEq] at h2; rw [← h2.1]
        exact List.mem_map.2 ⟨(el, r1), h1, rfl⟩
      · exact ih hn.2 h1 h2
end

/-! ## notes -/

theorem mem_insertS (x y : String) (l : List String) : y ∈ insertS x l ↔ y = x ∨ y ∈ l := by
  induction l with
  | nil => simp [insertS]
  | cons a as ih =>
    unfold insertS
    by_cases h1 : x < a
    · simp [h1]
    · by_cases h2 : x = a
      · subst h2; simp
      · simp only [h1, h2, if_false, List.mem_cons, ih]
        constructor
        · rintro (h | h | h) <;> simp [h]
        · rintro (h | h | h) <;> simp [h]

theorem mem_sortKeys (l : List String) (y : String) : y ∈ sortKeys l ↔ y ∈ l := by
  induction l with
  | nil => simp [sortKeys]
  | cons a as ih =>
    show y ∈ insertS a (sortKeys as) ↔ _
    rw [mem_insertS, ih]; simp

/-- **`isSub` is the substring relation**: `key in notes` of the code -/
theorem isSub_iff (pat s : List Char) : isSub pat s = true ↔ ∃ pre post, s = pre ++ pat ++ post := by
  induction s with
  | nil =>
    simp only [isSub]
    constructor
    · intro h
      have : pat = [] := by
        cases pat with
        | nil => rfl
        | cons a as => simp [List.isPrefixOf] at h
      exact ⟨[], [], by simp [this]⟩
    · rintro ⟨pre, post, h⟩
      have : pat = [] := by
        have := congrArg List.length h
        simp only [List.length_nil, List.length_append] at this
        exact List.eq_nil_of_length_eq_zero (by omega)
      simp [this]
  | cons c cs ih =>
    simp only [isSub, Bool.or_eq_true, ih]
    constructor
    · rintro (h | ⟨pre, post, h⟩)
      · obtain ⟨t, ht⟩ := List.isPrefixOf_iff_prefix.1 h
        exact ⟨[], t, by simp [ht]⟩
      · exact ⟨c :: pre, post, by simp [h]⟩
    · rintro ⟨pre, post, h⟩
      cases pre with
      | nil =>
        left
        exact List.isPrefixOf_iff_prefix.2 ⟨post, by simpa using h.symm⟩
      | cons a pre' =>
        right
        simp only [List.cons_append, List.cons.injEq] at h
        exact ⟨pre', post, h.2⟩

/-- **notes are returned as stored when they mention no reference key, and otherwise followed by
the banner and the text of exactly the mentioned keys** -/
theorem processNotes_spec (notes : String) (keys : List String) (refText : String → String) :
    (∀ k ∈ keys, isSub k.toList notes.toList = false) → processNotes notes keys refText = notes := by
  intro h
  unfold processNotes
  have : keys.filter (fun k => isSub k.toList notes.toList) = [] := by
    apply List.filter_eq_nil_iff.2
    intro k hk; simp [h k hk]
  simp [this, sortKeys]

theorem processNotes_mentions (notes : String) (keys : List String) (refText : String → String) (k : String) :
    k ∈ sortKeys (keys.filter fun k => isSub k.toList notes.toList) ↔ k ∈ keys ∧ isSub k.toList notes.toList = true := by
  rw [mem_sortKeys, List.mem_filter]

example : (compactGroups [("1", "a"), ("2", "b"), ("3", "a")]) = [("a", ["1", "3"]), ("b", ["2"])] := by decide +kernel

/-! ## the three renderers: every stored field value is in the text -/

section Renderers
open BSE.RefRender

/-- **BibTeX rendering is complete**: the key and every stored value (each author, each editor, title, journal, volume,
pages, year, doi, …, any further field) of the entry occur in `write_bib(key, entry)` -/
theorem bib_renders_every_field (key : Str) (e : Entry) :
    Sub key (writeBib key e) ∧ ∀ kv ∈ e.fields, WellTyped kv → ∀ x ∈ valStrings kv.2, Sub x (writeBib key e) :=
  writeBib_complete key e

/-- **RIS rendering is complete** -/
theorem ris_renders_every_field (key : Str) (e : Entry) :
    Sub key (writeRis key e) ∧ ∀ kv ∈ e.fields, WellTyped kv → ∀ x ∈ valStrings kv.2, Sub x (writeRis key e) :=
  writeTagged_complete risTags risType key e

/-- **EndNote rendering is complete** -/
theorem endnote_renders_every_field (key : Str) (e : Entry) :
    Sub key (writeEndnote key e) ∧ ∀ kv ∈ e.fields, WellTyped kv → ∀ x ∈ valStrings kv.2, Sub x (writeEndnote key e) :=
  writeTagged_complete endnoteTags endnoteType key e

/-- non-vacuity: an entry with authors, editors (which RIS and EndNote file under the generic tag) and a doi -/
def demoEntry : Entry :=
  { etype := "incollection".toList,
    fields := [("authors".toList, .list ["Dunning, T. H.".toList, "Hay, P. J.".toList]), ("title".toList, .str "Gaussian Basis Sets".toList),
               ("editors".toList, .list ["Schaefer, H. F.".toList]), ("year".toList, .str "1977".toList), ("doi".toList, .str "10.1007/x".toList)] }

example : String.ofList (writeEndnote "dunning1977b".toList demoEntry)
    = "#incollection dunning1977b\n%0 Book \n%A Dunning, T. H.\n%A Hay, P. J.\n%T Gaussian Basis Sets\n%Z editors:['Schaefer, H. F.']\n%D 1977\n%R 10.1007/x\n" := by
  decide +kernel

example : ∀ kv ∈ demoEntry.fields, WellTyped kv := by
  have h : demoEntry.fields.all wellTypedB = true := by decide +kernel
  intro kv hkv
  exact wellTyped_of_B kv (List.all_eq_true.1 h kv hkv)

end Renderers

end BSE.Props.C09
