import BSEModel.Header
import BSEProofs.Lemmas.Resplit
import BSEProofs.Lemmas.ReadBack
import BSEGen.ReaderPrune
/-! # C14 — the information header can never change or corrupt the payload -/
namespace BSE.Props.C14
open BSE.Header BSE.Gen.Writers

/-- the special cases and the comment prefixing of the source are the ones the model implements -/
theorem assembly_as_modelled :
    fmtSpecial = ["gaussian94lib", "psi4"]
      ∧ headerPrefixing = "header_str = comment_str + comment_str.join(header.splitlines(True))" := by decide

/-- **formats without a comment syntax receive no header at all** — for every format of the writer map -/
theorem no_comment_no_header (body h : Str) (cart : Bool) :
    ∀ e ∈ writerMap, e.2.1 = none → assemble e.1 body (some h) cart = assemble e.1 body none cart := by
  intro e he hc
  unfold assemble
  cases hf : commentOf e.1 with
  | none => rfl
  | some c =>
    -- the map has one entry per format, so the looked-up comment is this entry's
    have : ∀ e ∈ writerMap, e.2.1 = none → commentOf e.1 = some none := by decide
    rw [this e he hc] at hf
    cases hf
    rfl

/-- `c + c.join(lines)` is the concatenation of the marker-prefixed lines -/
theorem joinWith_prefixed (c : Str) (ls : List Str) (hne : ls ≠ []) :
    c ++ joinWith c ls = (ls.map (c ++ ·)).flatten := by
  induction ls with
  | nil => exact absurd rfl hne
  | cons x xs ih =>
    cases xs with
    | nil => simp [joinWith]
    | cons y ys =>
      simp only [joinWith, List.map_cons, List.flatten_cons]
      have := ih (by simp)
      simp only [List.map_cons, List.flatten_cons] at this
      rw [← this]
      simp [List.append_assoc]

/-- **the header block is made of marker-prefixed lines only** -/
theorem commentBlock_is_prefixed_lines (c h : Str) (hne : splitlinesKeep h ≠ []) :
    commentBlock c h = ((splitlinesKeep h).map (c ++ ·)).flatten :=
  joinWith_prefixed c _ hne

/-- **the headed text is the bare text with the block inserted in front of the payload**: for every
format that has a comment marker `c`, `headed = pre ++ block ++ sep ++ body` and `bare = pre ++ body`
with `pre` the psi4 harmonic line (else empty) and `sep` two newlines (none for gaussian94lib) -/
theorem headed_is_bare_plus_block (body h : Str) (cart : Bool) :
    ∀ e ∈ writerMap, ∀ c, e.2.1 = some c →
      ∃ pre sep : Str, assemble e.1 body none cart = some (pre ++ body)
        ∧ assemble e.1 body (some h) cart = some (pre ++ commentBlock c.toList h ++ sep ++ body)
        ∧ (sep = ['\n', '\n'] ∨ (sep = [] ∧ e.1 = "gaussian94lib"))
        ∧ (pre = [] ∨ (e.1 = "psi4" ∧ (pre = "cartesian".toList ++ ['\n', '\n'] ∨ pre = "spherical".toList ++ ['\n', '\n']))) := by
  intro e he c hc
  have hlook : ∀ e ∈ writerMap, ∀ c, e.2.1 = some c → commentOf e.1 = some (some c) := by decide
  have hcm := hlook e he c hc
  unfold assemble
  rw [hcm]
  by_cases hg : e.1 = "gaussian94lib"
  · have hp : (e.1 == "psi4") = false := by rw [hg]; decide
    have hg' : (e.1 == "gaussian94lib") = true := by rw [hg]; decide
    refine ⟨[], [], ?_, ?_, Or.inr ⟨rfl, hg⟩, Or.inl rfl⟩
    · simp [hp]
    · simp [hp, hg']
  · have hg' : (e.1 == "gaussian94lib") = false := by simpa using hg
    by_cases hp : e.1 = "psi4"
    · have hp' : (e.1 == "psi4") = true := by rw [hp]; decide
      cases cart with
      | true =>
        refine ⟨"cartesian".toList ++ ['\n', '\n'], ['\n', '\n'], ?_, ?_, Or.inl rfl, Or.inr ⟨hp, Or.inl rfl⟩⟩
        · simp [hp']
        · simp [hp', hg', List.append_assoc]
      | false =>
        refine ⟨"spherical".toList ++ ['\n', '\n'], ['\n', '\n'], ?_, ?_, Or.inl rfl, Or.inr ⟨hp, Or.inr rfl⟩⟩
        · simp [hp']
        · simp [hp', hg', List.append_assoc]
    · have hp' : (e.1 == "psi4") = false := by simpa using hp
      refine ⟨[], ['\n', '\n'], ?_, ?_, Or.inl rfl, Or.inl rfl⟩
      · simp [hp']
      · simp [hp', hg', List.append_assoc]

/-- the comment markers contain no line boundary (so a marker never splits a line) -/
theorem markers_have_no_break : ∀ e ∈ writerMap, ∀ c, e.2.1 = some c → c.toList ≠ [] ∧ c.toList.all (fun x => !isBreak x) = true := by
  decide

/-- **every line of the header block, as a line-splitting reader sees it, is one of the header's own lines behind the
comment marker** — for every format of the writer map (markers regenerated from `writers/write.py`), every header text
(any Unicode line boundaries included) -/
theorem header_lines_are_marked (e : String × Option String × Option (List String) × String) (he : e ∈ writerMap)
    (c : String) (hc : e.2.1 = some c) (h : Str) (hne : h ≠ []) :
    splitlinesKeep (commentBlock c.toList h) = (splitlinesKeep h).map (c.toList ++ ·)
    ∧ ∀ l ∈ splitlinesKeep (commentBlock c.toList h), c.toList.isPrefixOf l = true := by
  obtain ⟨hcne, hall⟩ := markers_have_no_break e he c hc
  have hnb : NoBreak c.toList := by
    intro x hx
    have := List.all_eq_true.1 hall x hx
    simpa using this
  exact ⟨splitlines_commentBlock c.toList hnb hcne h hne, commentBlock_lines_marked c.toList hnb hcne h hne⟩

example : splitlinesKeep "ab\ncd\r\ne f".toList = ["ab\n".toList, "cd\r\n".toList, "e ".toList, "f".toList] := by decide +kernel
example : commentBlock ['!'] "a\nb\n".toList = "!a\n!b\n".toList := by decide +kernel

/-! ## reading the headed text back

Every reader begins with `prune_lines(text.splitlines(), skipchars)` (`readerLines`); the characters are regenerated from
the reader modules (`BSEGen/ReaderPrune.lean`).  If the comment marker of the format starts with one of them, what the parser
goes on with is the same for the headed and the bare text — hence the same data, or the same error. -/

open BSE.Notation (isPySpace) in
/-- **the reader sees the same lines with and without the header**: for every format of the writer map whose comment marker
starts with a (non-blank) character the reader prunes, every payload `body`, every header text `h` that ends with a line feed
(the header builder ends it with its rule line and `\n`; the harness checks that on every explored text), spherical or cartesian -/
theorem readBack_headed (e : String × Option String × Option (List String) × String) (he : e ∈ writerMap)
    (c : String) (hc : e.2.1 = some c) (c0 : Char) (cs : Str) (hc0 : c.toList = c0 :: cs)
    (skip : List Char) (hskip : skip.contains c0 = true) (hsp : isPySpace c0 = false)
    (body h : Str) (hne : h ≠ []) (hlf : h.getLast? = some '\n') (cart : Bool) :
    (assemble e.1 body (some h) cart).map (readerLines skip) = (assemble e.1 body none cart).map (readerLines skip) := by
  obtain ⟨hcne, hall⟩ := markers_have_no_break e he c hc
  have hnb : NoBreak c.toList := by
    intro x hx
    have := List.all_eq_true.1 hall x hx
    simpa using this
  have hblk : (commentBlock c.toList h).getLast? = some '\n' := by rw [commentBlock_last c.toList h hne]; exact hlf
  have hfound : commentOf e.1 = some (some c) := by
    have : ∀ e' ∈ writerMap, ∀ c', e'.2.1 = some c' → commentOf e'.1 = some (some c') := by decide
    exact this e he c hc
  have key : ∀ rest : Str, readerLines skip (commentBlock c.toList h ++ rest) = readerLines skip rest :=
    fun rest => readerLines_block skip c.toList c0 cs hc0 hskip hsp hnb h hne hblk rest
  have key2 : readerLines skip (commentBlock c.toList h ++ ['\n', '\n'] ++ body) = readerLines skip body := by
    rw [List.append_assoc, key]
    exact readerLines_lf_lf skip body
  -- the psi4 line in front of both texts ends with line feeds: the lines behind it are read separately
  have pre : ∀ (p x y : Str), p.getLast? = some '\n' → readerLines skip x = readerLines skip y →
      readerLines skip (p ++ x) = readerLines skip (p ++ y) := by
    intro p x y hp hxy
    unfold readerLines at *
    rw [splitlinesKeep_append_lf p x hp, splitlinesKeep_append_lf p y hp, pruneLines_append, pruneLines_append, hxy]
  unfold assemble
  simp only [hfound, Option.map_some]
  congr 1
  by_cases hg : (e.1 == "gaussian94lib") = true
  · by_cases hp : (e.1 == "psi4") = true
    · have h1 : e.1 = "gaussian94lib" := by simpa using hg
      have h2 : e.1 = "psi4" := by simpa using hp
      rw [h1] at h2; exact absurd h2 (by decide)
    · simp only [hg, hp, if_true, Bool.false_eq_true, if_false]
      exact key body
  · by_cases hp : (e.1 == "psi4") = true
    · simp only [hg, hp, if_true, Bool.false_eq_true, if_false]
      cases cart
      · simp only [Bool.false_eq_true, if_false]
        exact pre ("spherical".toList ++ ['\n', '\n']) _ _ (by decide) key2
      · simp only [if_true]
        exact pre ("cartesian".toList ++ ['\n', '\n']) _ _ (by decide) key2
    · simp only [hg, hp, Bool.false_eq_true, if_false]
      exact key2

/-- the formats whose reader prunes the lines behind the writer's comment marker — among them the three whose read-back
must succeed (regenerated from `writers/write.py` and the reader modules) -/
theorem readback_formats :
    (writerMap.filter fun e => match e.2.1, (BSE.Gen.ReaderPrune.readerSkip.find? (·.1 == e.1)).bind (·.2) with
      | some c, some s => (match c.toList with | c0 :: _ => s.toList.contains c0 && !BSE.Notation.isPySpace c0 | [] => false)
      | _, _ => false).map (·.1)
      = ["nwchem", "gaussian94", "molcas", "molcas_library", "demon2k", "gamess_us", "turbomole", "molpro", "libmol", "veloxchem"] := by
  decide

/-- non-vacuity: a two-line header in front of an NWChem payload -/
example : readerLines ['#'] "#----\n# Basis X\n#----\n\n\nBASIS \"ao basis\" SPHERICAL PRINT\nH    S\n".toList
    = ["BASIS \"ao basis\" SPHERICAL PRINT".toList, "H    S".toList] := by decide +kernel

end BSE.Props.C14
