import BSEModel.Index
import BSEProofs.Lemmas.IndexSpec
import BSEProofs.Lemmas.SortStr
/-! # C11 — the index, filters and role lookups agree with the data store -/
namespace BSE.Props.C11
open BSE BSE.Index

/-- **latest_version is the maximum of the listed versions** (in the order the builder uses: string order) -/
theorem maxStr_is_max (l : List String) (m : String) (h : maxStr l = some m) :
    m ∈ l ∧ ∀ x ∈ l, ¬ m < x := by
  induction l generalizing m with
  | nil => simp [maxStr] at h
  | cons a as ih =>
    unfold maxStr at h
    cases hm : maxStr as with
    | none =>
      simp only [hm, Option.some.injEq] at h
      subst h
      cases as with
      | nil => exact ⟨by simp, by intro x hx; simp at hx; subst hx; exact String.lt_irrefl _⟩
      | cons b bs =>
        exfalso
        unfold maxStr at hm
        cases hh : maxStr bs <;> simp [hh] at hm
    | some m' =>
      simp only [hm, Option.some.injEq] at h
      obtain ⟨hin, hall⟩ := ih m' hm
      by_cases hlt : m' < a
      · simp only [hlt, if_true] at h
        subst h
        refine ⟨by simp, ?_⟩
        intro x hx
        rcases List.mem_cons.1 hx with rfl | hx
        · exact String.lt_irrefl _
        · intro hax
          exact hall x hx (String.lt_trans hlt hax)
      · simp only [hlt, if_false] at h
        subst h
        refine ⟨by simp [hin], ?_⟩
        intro x hx
        rcases List.mem_cons.1 hx with rfl | hx
        · exact hlt
        · exact hall x hx

theorem mem_insertKV (kv x : String × J) (d : Dict) : x ∈ insertKV kv d ↔ x = kv ∨ x ∈ d := by
  induction d with
  | nil => simp [insertKV]
  | cons y ys ih =>
    unfold insertKV
    split
    · simp
    · simp only [List.mem_cons, ih]
      constructor
      · rintro (h | h | h) <;> simp [h]
      · rintro (h | h | h) <;> simp [h]

/-- sorting the index keeps exactly its entries -/
theorem mem_sortDict (d : Dict) (x : String × J) : x ∈ sortDict d ↔ x ∈ d := by
  induction d with
  | nil => simp [sortDict]
  | cons a as ih =>
    show x ∈ insertKV a (sortDict as) ↔ _
    rw [mem_insertKV, ih]; simp

/-! ## filter_basis_sets -/

/-- **family and role filters**: exactly the entries whose family / role equal the (lower-cased) criterion -/
theorem filter_family_role (md : List Entry) (family role : Option String) (e : Entry) :
    e ∈ filterEntries md none family role none
      ↔ e ∈ md ∧ (∀ f, family = some f → e.family = lower f) ∧ (∀ r, role = some r → e.role = lower r) := by
  unfold filterEntries
  cases family with
  | none =>
    cases role with
    | none => simp
    | some r => simp [List.mem_filter]
  | some f =>
    cases role with
    | none => simp [List.mem_filter]
    | some r =>
      simp only [List.mem_filter, beq_iff_eq, Option.some.injEq, forall_eq']
      constructor
      · rintro ⟨⟨h1, h2⟩, h3⟩; exact ⟨h1, h2, h3⟩
      · rintro ⟨h1, h2, h3⟩; exact ⟨⟨h1, h2⟩, h3⟩

/-- **element filter**: an entry survives with exactly those of its versions that contain every
requested element, and is dropped when no version is left -/
theorem filter_elements (md : List Entry) (els : List String) (e' : Entry) :
    e' ∈ filterEntries md none none none (some els)
      ↔ ∃ e ∈ md, e' = { e with versions := e.versions.filter fun v => els.all (v.2.contains ·) } ∧ e'.versions ≠ [] := by
  unfold filterEntries
  simp only [List.mem_filter, List.mem_map]
  constructor
  · rintro ⟨⟨e, he, rfl⟩, hne⟩
    exact ⟨e, he, rfl, by simpa using hne⟩
  · rintro ⟨e, he, rfl, hne⟩
    exact ⟨⟨e, he, rfl⟩, by simpa using hne⟩

/-- **substring filter**, case-insensitive: the lower-cased criterion occurs in the (lower-case) key or in the lower-cased
display name -/
theorem filter_substr (md : List Entry) (s : String) (hs : s.isEmpty = false) (e : Entry) :
    e ∈ filterEntries md (some s) none none none
      ↔ e ∈ md ∧ (isSubstr (lower s) e.key = true ∨ isSubstr (lower s) (lower e.display) = true) := by
  unfold filterEntries
  simp [hs, List.mem_filter]

/-- the criteria are ANDed: filtering by all of them is filtering by each in turn -/
theorem filter_and (md : List Entry) (s f r : Option String) (els : Option (List String)) :
    filterEntries md s f r els
      = filterEntries (filterEntries (filterEntries (filterEntries md none f none none) none none r none) none none none els) s none none none := by
  unfold filterEntries
  cases s <;> cases f <;> cases r <;> cases els <;> simp

def demoMd : List Entry :=
  [⟨"sto-3g", "STO-3G", "sto", "orbital", [("0", ["1", "2"]), ("1", ["1", "2", "3"])]⟩,
   ⟨"def2-svp", "def2-SVP", "ahlrichs", "orbital", [("1", ["1", "6"])]⟩,
   ⟨"def2-svp-jkfit", "def2-SVP-JKFIT", "ahlrichs_fit", "jkfit", [("1", ["1", "6"])]⟩]

example : (filterEntries demoMd (some "SVP") none (some "ORBITAL") (some ["6"])).map (·.key) = ["def2-svp"]
    ∧ (filterEntries demoMd none none none (some ["3"])).map (fun e => (e.key, e.versions.map (·.1))) = [("sto-3g", ["1"])] := by
  decide +kernel
example : maxStr ["0", "2", "1"] = some "2" := by decide +kernel

/-! ## the index builder: listed versions = table files present -/

open BSE.Compose in
/-- **the versions the index builder lists for a basis are exactly its table files**: every listed version names one of
the table files of that version, with that file's path and the (numerically sorted) elements of its composition; and the
version of every table file is listed -/
theorem index_versions_are_table_files (dir : Dir) (tables : List String) (res : Dict × Option J × Option Dict)
    (h : versionInfo dir tables = .ok res) :
    (∀ ver r, Dict.get? res.1 ver = some r → RecordOf dir tables ver r)
    ∧ (∀ t ∈ tables, (Dict.get? res.1 (versionField t)).isSome = true) :=
  versionInfo_spec dir tables res h

/-! ## aliases: every name of a basis has its own record, and the records differ only in the two name fields -/

/-- **one entry per listed name, under the transformed name, in the order the metadata file lists them** -/
theorem alias_keys (names : List String) (mk : String → List String → J) :
    (aliasEntries names mk).map (·.1) = names.map transformName := by
  simp [aliasEntries, Function.comp_def]

/-- **each alias carries its own display name and the other names** -/
theorem alias_own_names (names : List String) (desc : J) (latest : String) (tags : J) (base rel : String) (fam role ft aux : J)
    (vinfo : Dict) (e : String × J) (he : e ∈ aliasEntries names (commonRecord desc latest tags base rel fam role ft aux vinfo)) :
    ∃ n ∈ names, e.1 = transformName n ∧
      ∃ d, e.2 = .obj d ∧ Dict.get? d "display_name" = some (.str n) ∧
        Dict.get? d "other_names" = some (.arr ((names.erase n).map .str)) := by
  simp only [aliasEntries, List.mem_map] at he
  obtain ⟨n, hn, rfl⟩ := he
  exact ⟨n, hn, rfl, _, rfl, by simp [Dict.get?], by simp [Dict.get?]⟩

/-- **every alias maps to the same record**: any two entries of one basis agree on every field other than
`display_name` and `other_names` (description, latest version, tags, file base, family, role, function types,
auxiliaries and the whole version table) -/
theorem alias_records_agree (names : List String) (desc : J) (latest : String) (tags : J) (base rel : String) (fam role ft aux : J)
    (vinfo : Dict) (e1 e2 : String × J)
    (h1 : e1 ∈ aliasEntries names (commonRecord desc latest tags base rel fam role ft aux vinfo))
    (h2 : e2 ∈ aliasEntries names (commonRecord desc latest tags base rel fam role ft aux vinfo)) :
    ∃ d1 d2, e1.2 = .obj d1 ∧ e2.2 = .obj d2 ∧ d1.drop 2 = d2.drop 2 ∧ Dict.keys d1 = Dict.keys d2 := by
  simp only [aliasEntries, List.mem_map] at h1 h2
  obtain ⟨n1, _, rfl⟩ := h1
  obtain ⟨n2, _, rfl⟩ := h2
  exact ⟨_, _, rfl, rfl, rfl, rfl⟩

/-- what the common part holds: the fields of the composed basis and the version table -/
theorem alias_common_fields (desc : J) (latest : String) (tags : J) (base rel : String) (fam role ft aux : J) (vinfo : Dict)
    (disp : String) (others : List String) :
    ∃ d, commonRecord desc latest tags base rel fam role ft aux vinfo disp others = .obj d ∧
      Dict.get? d "description" = some desc ∧ Dict.get? d "latest_version" = some (.str latest) ∧
      Dict.get? d "family" = some fam ∧ Dict.get? d "role" = some role ∧ Dict.get? d "function_types" = some ft ∧
      Dict.get? d "auxiliaries" = some aux ∧ Dict.get? d "versions" = some (.obj vinfo) ∧ Dict.get? d "basename" = some (.str base) :=
  ⟨_, rfl, by simp [Dict.get?], by simp [Dict.get?], by simp [Dict.get?], by simp [Dict.get?], by simp [Dict.get?],
    by simp [Dict.get?], by simp [Dict.get?], by simp [Dict.get?]⟩

/-- two names: two entries, each carrying the other name -/
example : (aliasEntries ["6-31G**", "6-31G(d,p)"] (fun _ o => .arr (o.map .str))).map (fun e => (e.1, match e.2 with | .arr [.str s] => s | _ => ""))
    = [("6-31g_st__st_", "6-31G(d,p)"), ("6-31g(d,p)", "6-31G**")] := by decide

/-! ## the whole index: `create_metadata_file` as one statement -/

def addStep (acc : Dict) (e : String × J) : Except PyErr Dict :=
  if Dict.has acc e.1 then throw PyErr.runtime else pure (acc ++ [e])

open BSE.Compose in
def metaStep (dir : Dir) (tables : List String) (acc : Dict) (m : String) : Except PyErr Dict := do
  let es ← entriesOf dir tables m
  es.foldlM addStep acc

open BSE.Compose in
theorem createMetadata_eq (dir : Dir) (paths : List String) :
    createMetadata dir paths = (do
      let all ← (paths.filter isMeta).foldlM (metaStep dir (paths.filter isTable)) []
      pure (sortDict all)) := rfl

/-- adding the records of one metadata file to the index: refused if a name is there already, appended otherwise -/
theorem addEntries_spec (es : List (String × J)) : ∀ (acc acc' : Dict),
    es.foldlM addStep acc = .ok acc' →
    acc' = acc ++ es ∧ (∀ e ∈ es, Dict.has acc e.1 = false) ∧ (es.map (·.1)).Nodup := by
  induction es with
  | nil =>
    intro acc acc' h
    simp only [List.foldlM_nil, pure, Except.pure, Except.ok.injEq] at h
    subst h
    simp
  | cons e rest ih =>
    intro acc acc' h
    simp only [List.foldlM_cons, bind, Except.bind] at h
    by_cases hh : Dict.has acc e.1 = true
    · simp [addStep, hh, throw, throwThe, MonadExceptOf.throw] at h
    · have hh' : Dict.has acc e.1 = false := by simpa using hh
      simp only [addStep, hh', Bool.false_eq_true, if_false, pure, Except.pure] at h
      obtain ⟨h1, h2, h3⟩ := ih (acc ++ [e]) acc' h
      refine ⟨by rw [h1]; simp, ?_, ?_⟩
      · intro x hx
        rcases List.mem_cons.1 hx with rfl | hx'
        · exact hh'
        · have := h2 x hx'
          simp only [Dict.has, List.any_append, Bool.or_eq_false_iff] at this
          exact this.1
      · rw [List.map_cons, List.nodup_cons]
        refine ⟨?_, h3⟩
        intro hmem
        obtain ⟨x, hx, hxe⟩ := List.mem_map.1 hmem
        have := h2 x hx
        simp only [Dict.has, List.any_append, List.any_cons, List.any_nil, Bool.or_false, Bool.or_eq_false_iff] at this
        have h4 := this.2
        rw [hxe] at h4
        simp at h4

open BSE.Compose in
theorem metaFold_spec (dir : Dir) (tables : List String) (ms : List String) : ∀ (acc acc' : Dict),
    ms.foldlM (metaStep dir tables) acc = .ok acc' → (acc.map (·.1)).Nodup →
    (∀ e, e ∈ acc' ↔ e ∈ acc ∨ ∃ m ∈ ms, ∃ es, entriesOf dir tables m = .ok es ∧ e ∈ es) ∧ (acc'.map (·.1)).Nodup := by
  induction ms with
  | nil =>
    intro acc acc' hf hn
    simp only [List.foldlM_nil, pure, Except.pure, Except.ok.injEq] at hf
    subst hf
    exact ⟨by simp, hn⟩
  | cons m rest ih =>
    intro acc acc' hf hn
    simp only [List.foldlM_cons, bind, Except.bind] at hf
    cases hstep : metaStep dir tables acc m with
    | error e => simp [hstep] at hf
    | ok acc1 =>
      simp only [hstep] at hf
      unfold metaStep at hstep
      simp only [bind, Except.bind] at hstep
      cases hes : entriesOf dir tables m with
      | error e => simp [hes] at hstep
      | ok es =>
        simp only [hes] at hstep
        obtain ⟨h1, h2, h3⟩ := addEntries_spec es acc acc1 hstep
        have hn1 : (acc1.map (·.1)).Nodup := by
          rw [h1, List.map_append, List.nodup_append]
          refine ⟨hn, h3, ?_⟩
          intro a ha b hb hab
          obtain ⟨x, hx, rfl⟩ := List.mem_map.1 ha
          obtain ⟨y, hy, rfl⟩ := List.mem_map.1 hb
          have := h2 y hy
          simp only [Dict.has, List.any_eq_false] at this
          exact this x hx (by simpa using hab)
        obtain ⟨i1, i2⟩ := ih acc1 acc' hf hn1
        refine ⟨?_, i2⟩
        intro e
        rw [i1 e, h1]
        constructor
        · rintro (he | ⟨m', hm', es', hes', he'⟩)
          · rcases List.mem_append.1 he with he | he
            · exact Or.inl he
            · exact Or.inr ⟨m, by simp, es, hes, he⟩
          · exact Or.inr ⟨m', by simp [hm'], es', hes', he'⟩
        · rintro (he | ⟨m', hm', es', hes', he'⟩)
          · exact Or.inl (List.mem_append.2 (Or.inl he))
          · rcases List.mem_cons.1 hm' with rfl | hm''
            · rw [hes] at hes'
              cases hes'
              exact Or.inl (List.mem_append.2 (Or.inr he'))
            · exact Or.inr ⟨m', hm'', es', hes', he'⟩

theorem sortDict_perm (l : Dict) : (sortDict l).Perm l := by
  induction l with
  | nil => exact List.Perm.refl _
  | cons a as ih =>
    show (insertKV a (sortDict as)).Perm (a :: as)
    have hins : ∀ (kv : String × J) (l : Dict), (insertKV kv l).Perm (kv :: l) := by
      intro kv l
      induction l with
      | nil => exact List.Perm.refl _
      | cons y ys ihy =>
        unfold insertKV
        split
        · exact List.Perm.refl _
        · exact (List.Perm.cons y ihy).trans (List.Perm.swap kv y ys)
    exact (hins a _).trans (List.Perm.cons a ih)

open BSE.Compose in
/-- **the index, as one statement.**  If `create_metadata_file` returns, the index holds exactly the records that the
metadata files of the directory contribute (for each: one record per listed name, `alias_*` above; versions = its table files,
`index_versions_are_table_files`), nothing else, no name twice — in sorted order; a name that occurs twice makes it raise. -/
theorem createMetadata_spec (dir : Dir) (paths : List String) (d : Dict) (h : createMetadata dir paths = .ok d) :
    (∀ e, e ∈ d ↔ ∃ m ∈ paths.filter isMeta, ∃ es, entriesOf dir (paths.filter isTable) m = .ok es ∧ e ∈ es)
    ∧ (d.map (·.1)).Nodup := by
  rw [createMetadata_eq] at h
  simp only [bind, Except.bind] at h
  cases hall : (paths.filter isMeta).foldlM (metaStep dir (paths.filter isTable)) [] with
  | error e => simp [hall] at h
  | ok all =>
    simp only [hall, pure, Except.pure, Except.ok.injEq] at h
    subst h
    obtain ⟨k1, k2⟩ := metaFold_spec dir _ _ [] all hall (by simp)
    refine ⟨?_, (List.Perm.nodup_iff ((sortDict_perm all).map (·.1))).2 k2⟩
    intro e
    rw [mem_sortDict, k1 e]
    simp

/-! ### the enumerations -/

/-- **`get_families` enumerates exactly the families of the index**: every family of an entry, nothing else, each once, in
increasing order -/
theorem families_exact (md : List Entry) :
    (∀ f, f ∈ families md ↔ ∃ e ∈ md, e.family = f) ∧ (families md).Nodup ∧ (families md).Pairwise (· < ·) := by
  refine ⟨fun f => ?_, BSE.SortStr.sortDedupStr_nodup _, BSE.SortStr.sortDedupStr_sorted _⟩
  unfold families
  rw [BSE.SortStr.mem_sortDedupStr]
  simp [List.mem_map]

/-- **`get_all_basis_names` enumerates exactly the index**: the display names of the entries, each as often as it is listed
(a permutation, so neither an entry nor an alias is dropped or invented), in non-decreasing order -/
theorem allNames_exact (md : List Entry) :
    (allNames md).Perm (md.map (·.display)) ∧ (allNames md).Pairwise (fun a b => ¬ b < a) := by
  unfold allNames
  generalize md.map (·.display) = l
  induction l with
  | nil => simp
  | cons x xs ih =>
    constructor
    · exact (BSE.SortStr.insertDup_perm x _).trans (List.Perm.cons x ih.1)
    · exact BSE.SortStr.insertDup_sorted x _ ih.2

example : families [⟨"b", "B", "f2", "orbital", []⟩, ⟨"a", "A", "f1", "orbital", []⟩, ⟨"c", "C", "f2", "orbital", []⟩] = ["f1", "f2"]
    ∧ allNames [⟨"b", "B", "f2", "orbital", []⟩, ⟨"a", "A", "f1", "orbital", []⟩, ⟨"c", "B", "f2", "orbital", []⟩] = ["A", "B", "B"] := by
  decide

end BSE.Props.C11
