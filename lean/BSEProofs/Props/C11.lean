import BSEModel.Index
import BSEProofs.Lemmas.IndexSpec
/-! # C11 — the index, filters and role lookups agree with the data store -/
namespace BSE.Props.C11
open BSE BSE.Index

/-- **latest_version is the maximum of the listed versions** (in the order the builder uses: string order) -/
theorem maxStr_is_max (l : List String) (m : String) (h : maxStr l = some m) :
    m ∈ l ∧ ∀ x ∈ l, ¬ m < x := by
  induction l generalizing m with
  | nil => simp [maxStr] at h
  | cons a as ih =>
    unfold maxStr at h
    cases hm : maxStr as with
    | none =>
      simp only [hm, Option.some.injEq] at h
      subst h
      cases as with
      | nil => exact ⟨by simp, by intro x hx; simp at hx; subst hx; exact String.lt_irrefl _⟩
      | cons b bs =>
        exfalso
        unfold maxStr at hm
        cases hh : maxStr bs <;> simp [hh] at hm
    | some m' =>
      simp only [hm, Option.some.injEq] at h
      obtain ⟨hin, hall⟩ := ih m' hm
      by_cases hlt : m' < a
      · simp only [hlt, if_true] at h
        subst h
        refine ⟨by simp, ?_⟩
        intro x hx
        rcases List.mem_cons.1 hx with rfl | hx
        · exact String.lt_irrefl _
        · intro hax
          exact hall x hx (String.lt_trans hlt hax)
      · simp only [hlt, if_false] at h
        subst h
        refine ⟨by simp [hin], ?_⟩
        intro x hx
        rcases List.mem_cons.1 hx with rfl | hx
        · exact hlt
        · exact hall x hx

theorem mem_insertKV (kv x : String × J) (d : Dict) : x ∈ insertKV kv d ↔ x = kv ∨ x ∈ d := by
  induction d with
  | nil => simp [insertKV]
  | cons y ys ih =>
    unfold insertKV
    split
    · simp
    · simp only [List.mem_cons, ih]
      constructor
      · rintro (h | h | h) <;> simp [h]
      · rintro (h | h | h) <;> simp [h]

/-- sorting the index keeps exactly its entries -/
theorem mem_sortDict (d : Dict) (x : String × J) : x ∈ sortDict d ↔ x ∈ d := by
  induction d with
  | nil => simp [sortDict]
  | cons a as ih =>
    show x ∈ insertKV a (sortDict as) ↔ _
    rw [mem_insertKV, ih]; simp

/-! ## filter_basis_sets -/

/-- **family and role filters**: exactly the entries whose family / role equal the (lower-cased) criterion -/
theorem filter_family_role (md : List Entry) (family role : Option String) (e : Entry) :
    e ∈ filterEntries md none family role none
      ↔ e ∈ md ∧ (∀ f, family = some f → e.family = lower f) ∧ (∀ r, role = some r → e.role = lower r) := by
  unfold filterEntries
  cases family with
  | none =>
    cases role with
    | none => simp
    | some r => simp [List.mem_filter]
  | some f =>
    cases role with
    | none => simp [List.mem_filter]
    | some r =>
      simp only [List.mem_filter, beq_iff_eq, Option.some.injEq, forall_eq']
      constructor
      · rintro ⟨⟨h1, h2⟩, h3⟩; exact ⟨h1, h2, h3⟩
      · rintro ⟨h1, h2, h3⟩; exact ⟨⟨h1, h2⟩, h3⟩

/-- **element filter**: an entry survives with exactly those of its versions that contain every
requested element, and is dropped when no version is left -/
theorem filter_elements (md : List Entry) (els : List String) (e' : Entry) :
    e' ∈ filterEntries md none none none (some els)
      ↔ ∃ e ∈ md, e' = { e with versions := e.versions.filter fun v => els.all (v.2.contains ·) } ∧ e'.versions ≠ [] := by
  unfold filterEntries
  simp only [List.mem_filter, List.mem_map]
  constructor
  · rintro ⟨⟨e, he, rfl⟩, hne⟩
    exact ⟨e, he, rfl, by simpa using hne⟩
  · rintro ⟨e, he, rfl, hne⟩
    exact ⟨⟨e, he, rfl⟩, by simpa using hne⟩

/-- **substring filter**, case-insensitive: the lower-cased criterion occurs in the (lower-case) key or in the lower-cased
display name -/
theorem filter_substr (md : List Entry) (s : String) (hs : s.isEmpty = false) (e : Entry) :
    e ∈ filterEntries md (some s) none none none
      ↔ e ∈ md ∧ (isSubstr (lower s) e.key = true ∨ isSubstr (lower s) (lower e.display) = true) := by
  unfold filterEntries
  simp [hs, List.mem_filter]

/-- the criteria are ANDed: filtering by all of them is filtering by each in turn -/
theorem filter_and (md : List Entry) (s f r : Option String) (els : Option (List String)) :
    filterEntries md s f r els
      = filterEntries (filterEntries (filterEntries (filterEntries md none f none none) none none r none) none none none els) s none none none := by
  unfold filterEntries
  cases s <;> cases f <;> cases r <;> cases els <;> simp

def demoMd : List Entry :=
  [⟨"sto-3g", "STO-3G", "sto", "orbital", [("0", ["1", "2"]), ("1", ["1", "2", "3"])]⟩,
   ⟨"def2-svp", "def2-SVP", "ahlrichs", "orbital", [("1", ["1", "6"])]⟩,
   ⟨"def2-svp-jkfit", "def2-SVP-JKFIT", "ahlrichs_fit", "jkfit", [("1", ["1", "6"])]⟩]

example : (filterEntries demoMd (some "SVP") none (some "ORBITAL") (some ["6"])).map (·.key) = ["def2-svp"]
    ∧ (filterEntries demoMd none none none (some ["3"])).map (fun e => (e.key, e.versions.map (·.1))) = [("sto-3g", ["1"])] := by
  decide +kernel
example : maxStr ["0", "2", "1"] = some "2" := by decide +kernel

/-! ## the index builder: listed versions = table files present -/

open BSE.Compose in
/-- **the versions the index builder lists for a basis are exactly its table files**: every listed version names one of
the table files of that version, with that file's path and the (numerically sorted) elements of its composition; and the
version of every table file is listed -/
theorem index_versions_are_table_files (dir : Dir) (tables : List String) (res : Dict × Option J × Option Dict)
    (h : versionInfo dir tables = .ok res) :
    (∀ ver r, Dict.get? res.1 ver = some r → RecordOf dir tables ver r)
    ∧ (∀ t ∈ tables, (Dict.get? res.1 (versionField t)).isSome = true) :=
  versionInfo_spec dir tables res h

/-! ## aliases: every name of a basis has its own record, and the records differ only in the two name fields -/

/-- **one entry per listed name, under the transformed name, in the order the metadata file lists them** -/
theorem alias_keys (names : List String) (mk : String → List String → J) :
    (aliasEntries names mk).map (·.1) = names.map transformName := by
  simp [aliasEntries, Function.comp_def]

/-- **each alias carries its own display name and the other names** -/
theorem alias_own_names (names : List String) (desc : J) (latest : String) (tags : J) (base rel : String) (fam role ft aux : J)
    (vinfo : Dict) (e : String × J) (he : e ∈ aliasEntries names (commonRecord desc latest tags base rel fam role ft aux vinfo)) :
    ∃ n ∈ names, e.1 = transformName n ∧
      ∃ d, e.2 = .obj d ∧ Dict.get? d "display_name" = some (.str n) ∧
        Dict.get? d "other_names" = some (.arr ((names.erase n).map .str)) := by
  simp only [aliasEntries, List.mem_map] at he
  obtain ⟨n, hn, rfl⟩ := he
  exact ⟨n, hn, rfl, _, rfl, by simp [Dict.get?], by simp [Dict.get?]⟩

/-- **every alias maps to the same record**: any two entries of one basis agree on every field other than
`display_name` and `other_names` (description, latest version, tags, file base, family, role, function types,
auxiliaries and the whole version table) -/
theorem alias_records_agree (names : List String) (desc : J) (latest : String) (tags : J) (base rel : String) (fam role ft aux : J)
    (vinfo : Dict) (e1 e2 : String × J)
    (h1 : e1 ∈ aliasEntries names (commonRecord desc latest tags base rel fam role ft aux vinfo))
    (h2 : e2 ∈ aliasEntries names (commonRecord desc latest tags base rel fam role ft aux vinfo)) :
    ∃ d1 d2, e1.2 = .obj d1 ∧ e2.2 = .obj d2 ∧ d1.drop 2 = d2.drop 2 ∧ Dict.keys d1 = Dict.keys d2 := by
  simp only [aliasEntries, List.mem_map] at h1 h2
  obtain ⟨n1, _, rfl⟩ := h1
  obtain ⟨n2, _, rfl⟩ := h2
  exact ⟨_, _, rfl, rfl, rfl, rfl⟩

/-- what the common part holds: the fields of the composed basis and the version table -/
theorem alias_common_fields (desc : J) (latest : String) (tags : J) (base rel : String) (fam role ft aux : J) (vinfo : Dict)
    (disp : String) (others : List String) :
    ∃ d, commonRecord desc latest tags base rel fam role ft aux vinfo disp others = .obj d ∧
      Dict.get? d "description" = some desc ∧ Dict.get? d "latest_version" = some (.str latest) ∧
      Dict.get? d "family" = some fam ∧ Dict.get? d "role" = some role ∧ Dict.get? d "function_types" = some ft ∧
      Dict.get? d "auxiliaries" = some aux ∧ Dict.get? d "versions" = some (.obj vinfo) ∧ Dict.get? d "basename" = some (.str base) :=
  ⟨_, rfl, by simp [Dict.get?], by simp [Dict.get?], by simp [Dict.get?], by simp [Dict.get?], by simp [Dict.get?],
    by simp [Dict.get?], by simp [Dict.get?], by simp [Dict.get?]⟩

/-- two names: two entries, each carrying the other name -/
example : (aliasEntries ["6-31G**", "6-31G(d,p)"] (fun _ o => .arr (o.map .str))).map (fun e => (e.1, match e.2 with | .arr [.str s] => s | _ => ""))
    = [("6-31g_st__st_", "6-31G(d,p)"), ("6-31g(d,p)", "6-31G**")] := by decide

end BSE.Props.C11
