import BSEModel.ReadWrite
import BSEModel.Canon
import BSEModel.Notation
import BSEProofs.Props.C04
import BSEGen.Formats
import BSEModel.NwchemInst
import BSEProofs.Lemmas.NwchemRT
import BSEProofs.Lemmas.NwchemEcp
import BSEModel.G94Inst
import BSEProofs.Lemmas.G94RT
import BSEProofs.Lemmas.G94EcpRT
import BSEModel.TurbomoleInst
import BSEProofs.Lemmas.TurbomoleRT
import BSEProofs.Lemmas.TurbomoleEcpRT
/-! # C03 — reading back what the library wrote never silently changes the basis

What is proved: (1) the number tables survive print → read token for token (only the exponent marker
may change); (2) for the formats whose read-back must succeed, writer and reader use the same
angular-momentum letter convention, and letters ↔ integers are mutually inverse for every supported l
(C20); (3) the checker used on all write+read formats is sound (C02). The per-format section
parsers are validated by that verified checker on the explored inputs. -/
namespace BSE.Props.C03
open BSE BSE.Printing BSE.ReadWrite BSE.Gen.Formats

/-! ## (1) print → tokens → parse keeps every number -/

theorem tokensAux_map (f : Char → Char) (hf : ∀ c, f c = ' ' ↔ c = ' ') (s cur : Str) :
    tokensAux (s.map f) (cur.map f) = (tokensAux s cur).map (·.map f) := by
  induction s generalizing cur with
  | nil =>
    simp only [List.map_nil, tokensAux]
    by_cases h : cur.isEmpty = true
    · have : cur = [] := by simpa using h
      subst this; simp
    · have : (cur.map f).isEmpty = false := by cases cur <;> simp_all
      simp [h, this, List.map_reverse]
  | cons c cs ih =>
    simp only [List.map_cons, tokensAux]
    by_cases hc : c = ' '
    · subst hc
      have : f ' ' = ' ' := (hf ' ').2 rfl
      simp only [this, if_true]
      by_cases h : cur.isEmpty = true
      · have : cur = [] := by simpa using h
        subst this
        simpa using ih []
      · have h' : (cur.map f).isEmpty = false := by cases cur <;> simp_all
        simp only [h, h', Bool.false_eq_true, if_false, List.map_cons, List.map_reverse]
        have := ih []
        simp only [List.map_nil] at this
        rw [this]
    · have : f c ≠ ' ' := fun h => hc ((hf c).1 h)
      simp only [hc, this, if_false]
      have := ih (c :: cur)
      simpa using this

/-- character maps that never create or destroy a blank commute with tokenisation -/
theorem tokens_map (f : Char → Char) (hf : ∀ c, f c = ' ' ↔ c = ' ') (s : Str) :
    tokens (s.map f) = (tokens s).map (·.map f) := by
  have := tokensAux_map f hf s []
  simpa [tokens] using this

def dToE : Char → Char := fun c => if c = 'D' then 'E' else if c = 'd' then 'e' else c
def eToD : Char → Char := fun c => if c = 'e' ∨ c = 'E' then 'D' else c

theorem dToE_blank (c : Char) : dToE c = ' ' ↔ c = ' ' := by
  unfold dToE
  by_cases h1 : c = 'D'
  · subst h1; decide
  · by_cases h2 : c = 'd'
    · subst h2; decide
    · simp [h1, h2]

theorem eToD_blank (c : Char) : eToD c = ' ' ↔ c = ' ' := by
  unfold eToD
  by_cases h : c = 'e' ∨ c = 'E'
  · rcases h with rfl | rfl <;> decide
  · simp [h]

/-- **a printed row is read back as exactly its cells, up to the exponent marker**: the reader's
tokens of `replace_d(line)` are the cells of the row with `D/d` read as `E/e` (and, when the writer
converted, `e/E` written as `D`) — no cell lost, none altered otherwise -/
theorem read_printed_row (cells : List (Nat × Str)) (conv : Bool) (hc : ∀ p ∈ cells, C04.WordOk p.2) :
    tokens (replaceD (convExp conv (rowLine cells [])))
      = cells.map fun p => replaceD (convExp conv p.2) := by
  have hrow := C04.writeMatrix_row_tokens cells hc
  have e1 : replaceD = fun s : Str => s.map dToE := rfl
  cases conv with
  | false =>
    simp only [convExp, Bool.false_eq_true, if_false]
    rw [e1]
    simp only
    rw [tokens_map dToE dToE_blank, hrow, List.map_map]
    rfl
  | true =>
    have e2 : ∀ s : Str, convExp true s = s.map eToD := by intro s; simp [convExp, eToD]
    simp only [e2]
    rw [e1]
    simp only
    rw [tokens_map dToE dToE_blank, tokens_map eToD eToD_blank, hrow]
    simp [List.map_map, Function.comp]

/-- reading `D` for `E` changes nothing else: on a number written with `e`/`E` the round trip only
upper-cases the marker -/
theorem marker_roundtrip (c : Char) (h : c ≠ 'd' ∧ c ≠ 'D') : dToE (eToD c) = if c = 'e' then 'E' else c := by
  unfold dToE eToD
  by_cases h1 : c = 'e'
  · subst h1; decide
  · by_cases h2 : c = 'E'
    · subst h2; decide
    · simp [h1, h2, h.1, h.2]

/-! ## (2) letter conventions of the formats whose read-back must succeed -/

def shellConv (tab : List (String × String × List Bool)) (fmt : String) : Option Bool :=
  (tab.find? (·.1 == fmt)).bind (·.2.2.head?)

/-- gaussian94 and nwchem: the writer's shell letters are decoded with the same convention
(read from the writer and reader modules); turbomole likewise -/
theorem letter_conventions_agree :
    shellConv writers "gaussian94" = some true ∧ shellConv readers "gaussian94" = some true
      ∧ shellConv writers "nwchem" = some false ∧ shellConv readers "nwchem" = some false
      ∧ shellConv writers "turbomole" = some false ∧ shellConv readers "turbomole" = some false := by decide

/-- gaussian94 uses one convention for all its letters (shells and ECP) -/
theorem g94_uniform : (writers.find? (·.1 == "gaussian94")).map (·.2.2) = some [true, true, true] := by decide

/-- and in either convention letters and integers are mutually inverse for every supported l -/
theorem letters_inverse : ∀ hij : Bool, ∀ l ∈ List.range 25,
    (BSE.Notation.amChar hij l).bind (BSE.Notation.amInt hij) = some l := by decide +kernel

/-- the formats that can be both written and read, and their shared extensions (autodetection) -/
theorem write_read_formats :
    ((writers.map (·.1)).filter (fun f => (readers.map (·.1)).contains f))
      = ["nwchem", "gaussian94", "molcas", "molcas_library", "dalton", "cp2k", "demon2k", "gamess_us", "turbomole", "molpro",
         "libmol", "cfour", "crystal", "veloxchem"] := by decide

/-! ## (3) the checker applied to (source, read-back) is sound -/

theorem readback_checker_sound {ν : Type} (val : ν → Rat) (a b : List (Shell ν)) (h : sameFuncs val a b = true) (f : Func) :
    funcSet val a f ↔ funcSet val b f := sameFuncs_sound val a b h f

/-! ## (4) a whole section: the NWChem electron basis, written then read, is the same list of shells

Token level (`BSEModel/Nwchem.lean`): a line is a *head* line (first character alphabetic) or a row of number tokens —
the reader's own partition test.  The tables are the library's (`realTables`, regenerated from `lut.py`). -/

open BSE.Nwchem BSE.Notation in
/-- the element symbols the writer prints are read back to the same Z, and are alphabetic, for every Z of the table -/
theorem nwchem_symbols_roundtrip {ν : Type} (isNum : ν → Bool) :
    ∀ z ∈ List.range' 1 118, (realTables isNum).zOf ((realTables isNum).symOf z) = some z
      ∧ isAlphaStr ((realTables isNum).symOf z) = true := by
  have h : ∀ z ∈ List.range' 1 118, zFromSym ((symFromZNorm z).getD []) = some z
      ∧ isAlphaStr ((symFromZNorm z).getD []) = true := by decide +kernel
  exact h

open BSE.Nwchem BSE.Notation in
theorem nwchem_letter (l : Nat) (hl : l < 25) :
    ∃ c, amChar false l = some c ∧ amInt false c.toUpper = some l ∧ c.toUpper.isAlpha = true := by
  have h : ∀ l ∈ List.range 25, ∃ c, amChar false l = some c ∧ amInt false c.toUpper = some l ∧ c.toUpper.isAlpha = true := by
    decide +kernel
  exact h l (List.mem_range.2 hl)

open BSE.Nwchem BSE.Notation in
/-- the momentum letters the writer prints (upper case, hik) are read back to the same momenta, for every momentum
list with `l < 25` — fused shells included -/
theorem nwchem_am_roundtrip {ν : Type} (isNum : ν → Bool) (am : List Nat) (hne : am ≠ []) (hl : ∀ l ∈ am, l < 25) :
    (realTables isNum).amOf ((realTables isNum).amStr am) = some am
      ∧ isAlphaStr ((realTables isNum).amStr am) = true := by
  show amOfReal ((am.filterMap (amChar false)).map Char.toUpper) = some am
    ∧ isAlphaStr ((am.filterMap (amChar false)).map Char.toUpper) = true
  have key : amOfReal ((am.filterMap (amChar false)).map Char.toUpper) = some am
      ∧ ((am.filterMap (amChar false)).map Char.toUpper).all Char.isAlpha = true
      ∧ ((am.filterMap (amChar false)).map Char.toUpper).length = am.length := by
    clear hne
    induction am with
    | nil => simp [amOfReal]
    | cons l ls ih =>
      obtain ⟨c, hc, hi, ha⟩ := nwchem_letter l (hl l (by simp))
      obtain ⟨h1, h2, h3⟩ := ih (fun l' hl' => hl l' (by simp [hl']))
      simp only [List.filterMap_cons, hc, List.map_cons, amOfReal, hi, h1, List.all_cons, ha, h2, Bool.and_self,
        List.length_cons, h3, and_self]
  refine ⟨key.1, ?_⟩
  unfold isAlphaStr
  have : ((am.filterMap (amChar false)).map Char.toUpper).isEmpty = false := by
    cases h0 : (am.filterMap (amChar false)).map Char.toUpper with
    | nil =>
      have := key.2.2
      rw [h0] at this
      exact absurd (List.eq_nil_of_length_eq_zero this.symm) hne
    | cons _ _ => rfl
  simp [this, key.2.1]

open BSE.Nwchem in
/-- **NWChem, electron section: read(write(elements)) = elements** — every element in order, every shell in order,
momenta / exponents / coefficient columns token for token, function type recomputed from the momenta; for every list
of elements with distinct Z in 1..118, non-empty shell lists and rectangular shells of number tokens with `l < 25` -/
theorem nwchem_electron_roundtrip {ν : Type} (isNum : ν → Bool) (harm : List Char) (els : List (Nat × List (EShell ν)))
    (hharm : harm = "SPHERICAL".toList ∨ harm = "CARTESIAN".toList)
    (hnd : (els.map (·.1)).Nodup) (hne : ∀ e ∈ els, e.2 ≠ [])
    (hz : ∀ e ∈ els, e.1 ∈ List.range' 1 118)
    (hsh : ∀ e ∈ els, ∀ sh ∈ e.2, 0 < sh.exps.length ∧ sh.coefs ≠ [] ∧ Rect sh.exps.length sh.coefs
        ∧ (∀ x ∈ sh.exps, isNum x = true) ∧ (∀ c ∈ sh.coefs, ∀ x ∈ c, isNum x = true)
        ∧ sh.am ≠ [] ∧ (∀ l ∈ sh.am, l < 25) ∧ (sh.am.length > 1 → sh.coefs.length = sh.am.length)) :
    readElectron (realTables isNum) (electronLines (realTables isNum) harm els)
      = .ok (els.map fun e => (e.1, e.2.map (toR (realTables isNum) (harm == "SPHERICAL".toList)))) := by
  apply readElectron_write (realTables isNum) harm els hharm hnd hne
  · intro e he; exact nwchem_symbols_roundtrip isNum e.1 (hz e he)
  · intro e he sh hs
    obtain ⟨h1, h2, h3, h4, h5, h6, h7, h8⟩ := hsh e he sh hs
    exact ⟨h1, h2, h3, ⟨h4, h5⟩, nwchem_am_roundtrip isNum sh.am h6 h7, h8⟩

/-! ## (5) the NWChem ECP section: what comes back, and what the format cannot hold -/

open BSE.Nwchem in
/-- **NWChem ECP section: read(write(els))**, over the library's tables.  Every element, electron count and potential
comes back in write order with its terms token for token; every potential but the first keeps its momentum; the first
(the highest, written as `ul`) gets `ulAm` = (highest other momentum) + 1, because the text does not record it. -/
theorem nwchem_ecp_readback {ν : Type} (isNum isInt : ν → Bool) (els : List (Nat × List Char × List (EPot ν)))
    (hnd : (els.map (·.1)).Nodup)
    (hok : ∀ e ∈ els, ElOK (realEcpTables isNum isInt) e) (hs : ∀ e ∈ els, ElShape e) :
    readEcp (realEcpTables isNum isInt) (ecpLines (realEcpTables isNum isInt) els) = .ok (els.map readEl) :=
  readEcp_write (realEcpTables isNum isInt) els hnd hok hs

open BSE.Nwchem BSE.Notation in
/-- the premises `ElOK` of `nwchem_ecp_readback` hold over the library's tables for every element 1..118 whose potentials
have typed, non-empty term lists and momenta below 25 -/
theorem nwchem_ecp_premises {ν : Type} (isNum isInt : ν → Bool) (e : Nat × List Char × List (EPot ν))
    (hz : e.1 ∈ List.range' 1 118) (hn : (!e.2.1.isEmpty && e.2.1.all Char.isDigit) = true)
    (hp : ∀ p ∈ writeOrder e.2.2, p.terms ≠ [] ∧ p.am < 25
      ∧ ∀ t ∈ p.terms, isInt t.1 = true ∧ isNum t.2.1 = true ∧ isNum t.2.2 = true) :
    ElOK (realEcpTables isNum isInt) e := by
  have hsym : ∀ z ∈ List.range' 1 118, zFromSym ((symFromZNorm z).getD []) = some z
      ∧ isAlphaStr ((symFromZNorm z).getD []) = true
      ∧ zFromSym (lower ((symFromZNorm z).getD [])) = some z := by decide +kernel
  have hul : ∀ l ∈ List.range 25, (lower (([l].filterMap (amChar false)).map Char.toUpper) == "ul".toList) = false := by
    decide +kernel
  refine ⟨⟨(hsym e.1 hz).1, (hsym e.1 hz).2.1⟩, (hsym e.1 hz).2.2, hn, ?_⟩
  intro p hpw
  obtain ⟨h1, h2, h3⟩ := hp p hpw
  have ham := nwchem_am_roundtrip isNum [p.am] (by simp) (by intro l hl; simp at hl; omega)
  exact ⟨h1, h3, ham.1, ham.2, hul p.am (List.mem_range.2 h2)⟩

open BSE.Nwchem in
/-- the shape premise of `nwchem_ecp_readback` follows from the natural one: at least two potentials, momenta pairwise
different — the writer's order then is "highest first, the others ascending" -/
theorem nwchem_ecp_shape {ν : Type} (e : Nat × List Char × List (EPot ν))
    (hn : (e.2.2.map (·.am)).Nodup) (h2 : 2 ≤ e.2.2.length) : ElShape e :=
  elShape_of_distinct e hn h2

open BSE.Nwchem in
/-- **the ECP round trip is faithful exactly when the highest momentum is one above the next** -/
theorem nwchem_ecp_faithful_iff {ν : Type} (e : Nat × List Char × List (EPot ν)) (top : EPot ν) (rest : List (EPot ν))
    (hw : writeOrder e.2.2 = top :: rest) :
    readEl e = (e.1, e.2.1, (top :: rest).map readPot) ↔ top.am = ulAm rest :=
  readEl_faithful_iff e top rest hw

/-- a copper ECP with potentials for l = 0 and l = 2 only (the validator accepts it) -/
def gapEcp : List (Nat × List Char × List (BSE.Nwchem.EPot String)) :=
  [(29, "10".toList, [{ am := 0, terms := [("2", "1.5", "3.0")] }, { am := 2, terms := [("1", "0.7", "-1.0")] }])]

def allTok : String → Bool := fun _ => true

open BSE.Nwchem in
/-- **limit of the format, proved on the model and replayed on the library (finding F14):** the l = 2 potential of
`gapEcp` is written as `ul` and read back as l = 1 — silently altered -/
theorem nwchem_ecp_gap_limit :
    (readEcp (realEcpTables allTok allTok) (ecpLines (realEcpTables allTok allTok) gapEcp)).toOption
      = some [(29, "10".toList, [{ am := some [1], rexp := ["1"], gexp := ["0.7"], coef := ["-1.0"] },
                                  { am := some [0], rexp := ["2"], gexp := ["1.5"], coef := ["3.0"] }])] := by
  decide +kernel

open BSE.Nwchem in
/-- … and a lone local potential cannot be read at all (`max()` of nothing) -/
theorem nwchem_ecp_single_limit :
    (readEcp (realEcpTables allTok allTok) (ecpLines (realEcpTables allTok allTok)
      [(29, "10".toList, [{ am := 2, terms := [("1", "0.7", "-1.0")] }])])).toOption = none := by
  decide +kernel

open BSE.Nwchem in
/-- non-vacuity of `nwchem_ecp_readback`: a contiguous ECP (l = 0, 1, 2) meets `ElOK` and `ElShape` and comes back unchanged -/
example :
    (readEcp (realEcpTables allTok allTok) (ecpLines (realEcpTables allTok allTok)
      [(29, "10".toList, [{ am := 1, terms := [("2", "1.1", "2.0")] }, { am := 0, terms := [("2", "1.5", "3.0")] },
                          { am := 2, terms := [("1", "0.7", "-1.0")] }])])).toOption
      = some [(29, "10".toList, [{ am := some [2], rexp := ["1"], gexp := ["0.7"], coef := ["-1.0"] },
                                  { am := some [0], rexp := ["2"], gexp := ["1.5"], coef := ["3.0"] },
                                  { am := some [1], rexp := ["2"], gexp := ["1.1"], coef := ["2.0"] }])] := by
  decide +kernel

/-! ## (6) Gaussian94: one element's electron block, written then read -/

open BSE.G94 BSE.Notation

open BSE.Nwchem in
theorem g94_letter (l : Nat) (hl : l < 26) :
    ∃ c, amChar true l = some c ∧ amInt true c.toUpper = some l ∧ c.toUpper.isAlpha = true := by
  have h : ∀ l ∈ List.range 26, ∃ c, amChar true l = some c ∧ amInt true c.toUpper = some l ∧ c.toUpper.isAlpha = true := by
    decide +kernel
  exact h l (List.mem_range.2 hl)

open BSE.Nwchem in
/-- the hij letters the Gaussian writer prints are read back to the same momenta (fused shells included) -/
theorem g94_am_roundtrip {ν : Type} (isNum : ν → Bool) (am : List Nat) (hne : am ≠ []) (hl : ∀ l ∈ am, l < 26) :
    (realGTables isNum).amOf ((realGTables isNum).amStr am) = some am
      ∧ isAlphaStr ((realGTables isNum).amStr am) = true := by
  show amOfHij ((am.filterMap (amChar true)).map Char.toUpper) = some am
    ∧ isAlphaStr ((am.filterMap (amChar true)).map Char.toUpper) = true
  have key : amOfHij ((am.filterMap (amChar true)).map Char.toUpper) = some am
      ∧ ((am.filterMap (amChar true)).map Char.toUpper).all Char.isAlpha = true
      ∧ ((am.filterMap (amChar true)).map Char.toUpper).length = am.length := by
    clear hne
    induction am with
    | nil => simp [amOfHij]
    | cons l ls ih =>
      obtain ⟨c, hc, hi, ha⟩ := g94_letter l (hl l (by simp))
      obtain ⟨h1, h2, h3⟩ := ih (fun l' hl' => hl l' (by simp [hl']))
      simp only [List.filterMap_cons, hc, List.map_cons, amOfHij, hi, h1, List.all_cons, ha, h2, Bool.and_self,
        List.length_cons, h3, and_self]
  refine ⟨key.1, ?_⟩
  unfold isAlphaStr
  have : ((am.filterMap (amChar true)).map Char.toUpper).isEmpty = false := by
    cases h0 : (am.filterMap (amChar true)).map Char.toUpper with
    | nil =>
      have := key.2.2
      rw [h0] at this
      exact absurd (List.eq_nil_of_length_eq_zero this.symm) hne
    | cons _ _ => rfl
  simp [this, key.2.1]

/-- the primitive count printed on a shell line parses back, for every shell with fewer than 400 primitives -/
theorem g94_count_roundtrip : ∀ n ∈ List.range 400, natOfStr (toString n).toList = some n := by decide +kernel

theorem g94_scale_ok {ν : Type} (isNum : ν → Bool) : ScaleOK (realGTables isNum) := by
  have h1 : BSE.ReadWrite.isFloatTok "1.00".toList = true := by decide +kernel
  have h2 : ((BSE.parseNumChars true "1.00".toList).getD 1 == 0) = false := by decide +kernel
  have h3 : ((BSE.parseNumChars true "1.00".toList).getD 0 * (BSE.parseNumChars true "1.00".toList).getD 0 == 1) = true := by
    decide +kernel
  exact ⟨h1, h2, h3⟩

open BSE.Nwchem in
/-- **Gaussian94, one element's electron block: read(write(shells)) = shells**, over the library's tables: every shell in
order, momenta / exponents / coefficient columns token for token, for every element 1..118 and every list of rectangular
shells of number tokens with `l < 26`, as many contractions as fused momenta, fewer than 400 primitives -/
theorem g94_electron_roundtrip {ν : Type} (isNum : ν → Bool) (z : Nat) (shells : List (EShell ν))
    (hz : z ∈ List.range' 1 118)
    (hsh : ∀ sh ∈ shells, 0 < sh.exps.length ∧ sh.exps.length < 400 ∧ sh.coefs ≠ [] ∧ Rect sh.exps.length sh.coefs
        ∧ (∀ x ∈ sh.exps, isNum x = true) ∧ (∀ c ∈ sh.coefs, ∀ x ∈ c, isNum x = true)
        ∧ sh.am ≠ [] ∧ (∀ l ∈ sh.am, l < 26) ∧ sh.coefs.length = sh.am.length) :
    parseElectron (realGTables isNum) (electronBlock (realGTables isNum) z shells)
      = .ok (z, shells.map (toR (realGTables isNum).toTables true)) := by
  have hsym : ∀ z ∈ List.range' 1 118, zFromSym ((symFromZNorm z).getD []) = some z := by decide +kernel
  apply parseElectron_write (realGTables isNum) (g94_scale_ok isNum) z shells (hsym z hz)
  intro sh hs
  obtain ⟨h1, h1', h2, h3, h4, h5, h6, h7, h8⟩ := hsh sh hs
  have ham := g94_am_roundtrip isNum sh.am h6 h7
  exact ⟨⟨h1, h2, h3, ⟨h4, h5⟩, ham, fun _ => h8⟩, h8, g94_count_roundtrip _ (List.mem_range.2 h1'), ham.2⟩

/-! ## (7) Gaussian94: one element's ECP block — read back iff the momenta are contiguous -/

def allTokS : String → Bool := fun _ => true

/-- copper, potentials l = 0, 1, 2 (contiguous) -/
def cuFull : List (BSE.Nwchem.EPot String) :=
  [{ am := 1, terms := [("2", "1.1", "2.0")] }, { am := 0, terms := [("2", "1.5", "3.0"), ("1", "0.5", "1.0")] }, { am := 2, terms := [("1", "0.7", "-1.0")] }]

/-- copper, potentials l = 0 and l = 2 only -/
def cuGap : List (BSE.Nwchem.EPot String) :=
  [{ am := 0, terms := [("2", "1.5", "3.0")] }, { am := 2, terms := [("1", "0.7", "-1.0")] }]

/-- **Gaussian94 ECP block: read(write(pots))**, over the library's tables: with `L` the highest momentum, the block is
read back iff there are exactly `L + 1` potentials, and then the momenta are assigned by position -/
theorem g94_ecp_readback (isNum isInt : String → Bool) (z : Nat) (nelec : String) (pots : List (BSE.Nwchem.EPot String))
    (ok : BlockOK (realETables isNum isInt) z nelec pots) (hne : BSE.Nwchem.writeOrder pots ≠ []) :
    parseEcpBlock (realETables isNum isInt) (ecpBlock (realETables isNum isInt) z nelec pots)
      = if (BSE.Nwchem.writeOrder pots).length = (pots.map (·.am)).foldl max 0 + 1
        then .ok (z, nelec, numbered ((pots.map (·.am)).foldl max 0) (BSE.Nwchem.writeOrder pots))
        else .error .runtime :=
  parseEcpBlock_write (realETables isNum isInt) z nelec pots ok hne

/-- the premises `BlockOK` hold over the library's tables for every element 1..118, highest momentum and term counts below
400, a numeric electron count and typed, non-empty term lists -/
theorem g94_ecp_premises (isNum isInt : String → Bool) (z : Nat) (nelec : String) (pots : List (BSE.Nwchem.EPot String))
    (hz : z ∈ List.range' 1 118) (hL : (pots.map (·.am)).foldl max 0 < 400)
    (hn : (natOfStr nelec.toList).isSome = true)
    (hp : ∀ p ∈ BSE.Nwchem.writeOrder pots, p.terms ≠ [] ∧ p.terms.length < 400
      ∧ ∀ t ∈ p.terms, isInt t.1 = true ∧ isNum t.2.1 = true ∧ isNum t.2.2 = true) :
    BlockOK (realETables isNum isInt) z nelec pots := by
  have hsym : ∀ z ∈ List.range' 1 118, zFromSym (String.ofList (upperStr ((symFromZ z).getD []))).toList = some z := by
    decide +kernel
  have hnat : ∀ n ∈ List.range 400, natOfStr (toString n).toList = some n ∧ intOfStr (toString n).toList = some (n : Int) := by
    decide +kernel
  refine ⟨hsym z hz, (hnat _ (List.mem_range.2 hL)).1, hn, ?_⟩
  intro p hpw
  obtain ⟨h1, h2, h3⟩ := hp p hpw
  exact ⟨h1, h3, (hnat _ (List.mem_range.2 h2)).2⟩

/-- … and then they are the potentials' own momenta exactly when these are `L, 0, 1, …, L-1` in write order -/
theorem g94_ecp_faithful (L : Nat) (top : BSE.Nwchem.EPot String) (rest : List (BSE.Nwchem.EPot String)) (htop : top.am = L)
    (hrest : rest.map (·.am) = List.range L) :
    numbered L (top :: rest) = (top :: rest).map BSE.Nwchem.readPot :=
  numbered_faithful L top rest htop hrest

/-- non-vacuity: the contiguous copper ECP is read back with its own momenta -/
example : (parseEcpBlock (realETables allTokS allTokS) (ecpBlock (realETables allTokS allTokS) 29 "10" cuFull)).toOption
    = some (29, "10", [{ am := some [2], rexp := ["1"], gexp := ["0.7"], coef := ["-1.0"] },
                        { am := some [0], rexp := ["2", "1"], gexp := ["1.5", "0.5"], coef := ["3.0", "1.0"] },
                        { am := some [1], rexp := ["2"], gexp := ["1.1"], coef := ["2.0"] }]) := by
  decide +kernel

/-- **limit of the format, proved on the model and replayed on the library (finding F14-g94):** the Gaussian94 reader
refuses the block the writer produced for potentials l = 0, 2 -/
theorem g94_ecp_gap_limit :
    (parseEcpBlock (realETables allTokS allTokS) (ecpBlock (realETables allTokS allTokS) 29 "10" cuGap)).toOption = none := by
  decide +kernel

/-! ## (8) Turbomole: the electron section, written then read -/

open BSE.Turbomole in
theorem tm_letter (l : Nat) (hl : l < 25) : ∃ c, amChar false l = some c ∧ amInt false c = some l := by
  have h : ∀ l ∈ List.range 25, ∃ c, amChar false l = some c ∧ amInt false c = some l := by decide +kernel
  exact h l (List.mem_range.2 hl)

open BSE.Turbomole in
/-- **Turbomole, electron section: read(write(elements)) = elements**, over the library's tables: every element 1..118
(distinct), at least one shell each, shells with one momentum `l < 25`, one contraction, fewer than 400 primitives -/
theorem turbomole_electron_roundtrip {ν : Type} (isNum isInt : ν → Bool) (name : List Char) (els : List (Nat × List (BSE.Nwchem.EShell ν)))
    (hne : els ≠ []) (hnd : (els.map (·.1)).Nodup) (hz : ∀ e ∈ els, e.1 ∈ List.range' 1 118) (hsn : ∀ e ∈ els, e.2 ≠ [])
    (hsh : ∀ e ∈ els, ∀ sh ∈ e.2, 0 < sh.exps.length ∧ sh.exps.length < 400 ∧ sh.coefs.length = 1 ∧ Rect sh.exps.length sh.coefs
        ∧ (∀ x ∈ sh.exps, isNum x = true) ∧ (∀ c ∈ sh.coefs, ∀ x ∈ c, isNum x = true)
        ∧ (∃ l, sh.am = [l] ∧ l < 25)) :
    readElectronT (realTTables isNum isInt) (electronLinesT (realTTables isNum isInt) name els)
      = .ok (els.map fun e => (e.1, e.2.map (BSE.Nwchem.toR (realTTables isNum isInt).toTables true))) := by
  have hsym : ∀ z ∈ List.range' 1 118, zFromSym ((symFromZ z).getD []) = some z := by decide +kernel
  have hcnt : ∀ n ∈ List.range 400, BSE.G94.natOfStr (toString n).toList = some n := by decide +kernel
  apply readElectronT_write (realTTables isNum isInt) name els hne hnd
  intro e he
  refine ⟨hsym e.1 (hz e he), hsn e he, ?_⟩
  intro sh hs
  obtain ⟨h1, h1', h2, h3, h4, h5, l, hl, hl25⟩ := hsh e he sh hs
  obtain ⟨c, hc, hi⟩ := tm_letter l hl25
  have hcne : sh.coefs ≠ [] := by intro h0; rw [h0] at h2; simp at h2
  have ham : amOfHik (sh.am.filterMap (amChar false)) = some sh.am := by
    rw [hl]; simp [hc, amOfHik, hi]
  have halpha : BSE.Nwchem.isAlphaStr (sh.am.filterMap (amChar false)) = true := by
    rw [hl]
    have h : ∀ l ∈ List.range 25, BSE.Nwchem.isAlphaStr ([l].filterMap (amChar false)) = true := by decide +kernel
    exact h l (List.mem_range.2 hl25)
  exact ⟨⟨h1, hcne, h3, ⟨h4, h5⟩, ⟨ham, halpha⟩, fun hgt => by rw [hl] at hgt; simp at hgt⟩, h2,
    hcnt _ (List.mem_range.2 h1')⟩

/-- non-vacuity -/
def tmDemo : List (Nat × List (BSE.Nwchem.EShell String)) :=
  [(1, [{ am := [0], exps := ["3.0", "1.0"], coefs := [["0.1", "0.9"]] }]),
   (6, [{ am := [0], exps := ["2.0"], coefs := [["1.0"]] }, { am := [2], exps := ["0.8"], coefs := [["1.0"]] }])]

open BSE.Turbomole in
example : (readElectronT (realTTables (fun _ => true) (fun _ => true)) (electronLinesT (realTTables (fun _ => true) (fun _ => true)) "X".toList tmDemo)).toOption
    = some [(1, [{ ftype := "gto".toList, am := [0], exps := ["3.0", "1.0"], coefs := [["0.1", "0.9"]] }]),
            (6, [{ ftype := "gto".toList, am := [0], exps := ["2.0"], coefs := [["1.0"]] },
                 { ftype := "gto_spherical".toList, am := [2], exps := ["0.8"], coefs := [["1.0"]] }])] := by
  decide +kernel

example : tokens (replaceD (convExp true (rowLine [(7, "1.5e+01".toList), (20, "-2.0E-01".toList)] [])))
    = ["1.5E+01".toList, "-2.0E-01".toList] := by decide +kernel
example : isFloatTok "1.5E+01".toList = true ∧ isFloatTok "15".toList = false ∧ isFloatTok "-.5D-3".toList = true := by decide +kernel

/-- non-vacuity: hydrogen with an s shell of two contractions and carbon with a fused sp shell -/
def demoEls : List (Nat × List (BSE.Nwchem.EShell String)) :=
  [(1, [{ am := [0], exps := ["3.0", "1.0"], coefs := [["0.1", "0.9"], ["0.0", "1.0"]] }]),
   (6, [{ am := [0, 1], exps := ["2.0"], coefs := [["1.0"], ["1.0"]] }, { am := [2], exps := ["0.8"], coefs := [["1.0"]] }])]

open BSE.Nwchem in
example :
    (readElectron (realTables (fun _ => true)) (electronLines (realTables (fun _ => true)) "SPHERICAL".toList demoEls)).toOption
      = some [(1, [{ ftype := "gto".toList, am := [0], exps := ["3.0", "1.0"], coefs := [["0.1", "0.9"], ["0.0", "1.0"]] }]),
              (6, [{ ftype := "gto".toList, am := [0, 1], exps := ["2.0"], coefs := [["1.0"], ["1.0"]] },
                   { ftype := "gto_spherical".toList, am := [2], exps := ["0.8"], coefs := [["1.0"]] }])] := by
  decide +kernel

/-! ## (9) Turbomole: the `$ecp` section, written then read -/

open BSE.Turbomole in
/-- the letter the Turbomole writer prints for an ECP momentum (hij table) is read back (hik table) as that momentum up to l = 6 -/
theorem tm_ecp_letter : ∀ l ∈ List.range 7, amOfHik ([l].filterMap (amChar true)) = some [l] := by decide +kernel

open BSE.Turbomole in
/-- **limit of the pair, proved on the model**: from l = 7 on the two tables differ — `j` (l = 7) is unknown to the reader, and
`k` (l = 8 for the writer) is read as l = 7.  No ECP of the store goes beyond l = 5. -/
theorem tm_ecp_letter_limit :
    amOfHik ([7].filterMap (amChar true)) = none ∧ amOfHik ([8].filterMap (amChar true)) = some [7] := by decide +kernel

open BSE.Turbomole BSE.Nwchem in
/-- **Turbomole, `$ecp` section: read(write(potentials)) = potentials**, over the library's tables: every element 1..118
(distinct), electron counts and term counts below 400, potentials with pairwise different momenta `l ≤ 6` and at least one term
each; what comes back is every element in order with its electron count and every potential, in write order (highest momentum
first), with its own momentum and its terms token for token.  A gap in the momenta (l = 0, 2) or a lone local potential are
fine here: this format writes the letter of every potential. -/
theorem turbomole_ecp_roundtrip {ν : Type} (isNum isInt : ν → Bool) (name : List Char) (count : Nat × List Char × List (EPot ν) → Nat)
    (els : List (Nat × List Char × List (EPot ν)))
    (hne : els ≠ []) (hnd : (els.map (·.1)).Nodup) (hz : ∀ e ∈ els, e.1 ∈ List.range' 1 118)
    (hcount : ∀ e ∈ els, BSE.G94.natOfStr e.2.1 = some (count e))
    (ham : ∀ e ∈ els, (e.2.2.map (·.am)).Nodup ∧ ∀ p ∈ e.2.2, p.am < 7)
    (hterms : ∀ e ∈ els, ∀ p ∈ e.2.2, p.terms ≠ [] ∧ ∀ t ∈ p.terms, isInt t.1 = true ∧ isNum t.2.1 = true ∧ isNum t.2.2 = true) :
    readEcpP (realPTables isNum isInt) (ecpLinesP (realPTables isNum isInt) name els)
      = .ok (els.map fun e => (e.1, count e, (writeOrder e.2.2).map readPotP)) := by
  have hsym : ∀ z ∈ List.range' 1 118, zFromSym ((symFromZ z).getD []) = some z := by decide +kernel
  have hcnt : ∀ n ∈ List.range 7, BSE.G94.natOfStr (toString n).toList = some n := by decide +kernel
  apply readEcpP_write (realPTables isNum isInt) name count els hne hnd
  intro e he
  have hmax : maxAmOf e.2.2 < 7 := by
    unfold maxAmOf
    have : ∀ (l : List Nat) (a : Nat), a < 7 → (∀ x ∈ l, x < 7) → l.foldl max a < 7 := by
      intro l
      induction l with
      | nil => intro a ha _; exact ha
      | cons x xs ih =>
        intro a ha hx
        simp only [List.foldl_cons]
        exact ih _ (by have := hx x (by simp); omega) (fun y hy => hx y (by simp [hy]))
    exact this _ 0 (by omega) (by intro x hx; obtain ⟨p, hp, rfl⟩ := List.mem_map.1 hx; exact (ham e he).2 p hp)
  refine ⟨hsym e.1 (hz e he), hcount e he, hcnt _ (List.mem_range.2 hmax), tm_ecp_letter _ (List.mem_range.2 hmax), ?_,
    pShape_of_distinct e (ham e he).1⟩
  intro p hp
  obtain ⟨h1, h2⟩ := hterms e he p hp
  exact ⟨h1, fun t ht => (h2 t ht).1, fun t ht => (h2 t ht).2.1, fun t ht => (h2 t ht).2.2,
    tm_ecp_letter _ (List.mem_range.2 ((ham e he).2 p hp))⟩

/-- non-vacuity: copper with potentials l = 0, 2 (a gap) comes back with its own momenta, highest first -/
example : (BSE.Turbomole.readEcpP (BSE.Turbomole.realPTables (fun (_ : String) => true) (fun _ => true))
      (BSE.Turbomole.ecpLinesP (BSE.Turbomole.realPTables (fun _ => true) (fun _ => true)) "X-ecp".toList [(29, "10".toList, cuGap)])).toOption
    = some [(29, 10, [{ am := some [2], rexp := ["1"], gexp := ["0.7"], coef := ["-1.0"] },
                       { am := some [0], rexp := ["2"], gexp := ["1.5"], coef := ["3.0"] }])] := by
  decide +kernel

end BSE.Props.C03
