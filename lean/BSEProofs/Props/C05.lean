import BSEModel.Api
import BSEProofs.Lemmas.Dict
/-! # C05 — all spellings of a query select the same data -/
namespace BSE.Props.C05
open BSE BSE.Api BSE.Notation

/-- **names are case-insensitive**: two spellings that agree up to (ASCII) case transform to the same
index key -/
theorem transform_case_insensitive (a b : Str) (h : lowerAscii a = lowerAscii b) :
    transformName a = transformName b := by
  unfold transformName; rw [h]

/-- **empty selection means all elements** -/
theorem select_empty_is_all (els : Dict) : selectElements els [] = .ok els := by
  simp [selectElements]

/-- **an element that the basis does not define ⇒ KeyError, never partial data** -/
theorem select_missing_keyerror (els : Dict) (sel : List String) (z : String) (hz : z ∈ sel)
    (hmiss : Dict.has els z = false) : selectElements els sel = .error .key := by
  unfold selectElements
  have hne : sel.isEmpty = false := by cases sel <;> simp_all
  have hany : sel.any (fun z => !(Dict.has els z)) = true := List.any_eq_true.2 ⟨z, hz, by simp [hmiss]⟩
  simp [hne, hany]

/-- **the result is exactly the full basis restricted to the selected set**: every kept entry is
the original (key, data) pair, the file order is kept, and a key is kept iff it was selected -/
theorem select_is_restriction (els r : Dict) (sel : List String) (hne : sel ≠ [])
    (h : selectElements els sel = .ok r) :
    r = els.filter (fun kv => sel.contains kv.1) ∧ r.Sublist els
      ∧ (∀ kv, kv ∈ r ↔ kv ∈ els ∧ kv.1 ∈ sel) ∧ (∀ z ∈ sel, Dict.has els z = true) := by
  unfold selectElements at h
  have h0 : sel.isEmpty = false := by cases sel <;> simp_all
  simp only [h0, Bool.false_eq_true, if_false] at h
  split at h
  · cases h
  · rename_i hany
    cases h
    refine ⟨rfl, List.filter_sublist, ?_, ?_⟩
    · intro kv; simp [List.mem_filter]
    · intro z hz
      cases hh : Dict.has els z with
      | true => rfl
      | false => exact absurd (List.any_eq_true.2 ⟨z, hz, by simp [hh]⟩) hany

/-- **the notation does not matter**: two selections with the same expansion *set* (any order, any
repetitions — ints, numeric strings, symbols in any case, ranges and comma lists all expand to such
lists, see C20) give the same result, error cases included -/
theorem select_notation_invariant (els : Dict) (s1 s2 : List String) (h : ∀ z, z ∈ s1 ↔ z ∈ s2) :
    selectElements els s1 = selectElements els s2 := by
  unfold selectElements
  have he : s1.isEmpty = s2.isEmpty := by
    cases s1 with
    | nil =>
      cases s2 with
      | nil => rfl
      | cons b bs => exact absurd ((h b).2 (by simp)) (by simp)
    | cons a as =>
      cases s2 with
      | nil => exact absurd ((h a).1 (by simp)) (by simp)
      | cons b bs => rfl
  have ha : s1.any (fun z => !(Dict.has els z)) = s2.any (fun z => !(Dict.has els z)) := by
    rw [Bool.eq_iff_iff]
    simp only [List.any_eq_true]
    constructor
    · rintro ⟨z, hz, hp⟩; exact ⟨z, (h z).1 hz, hp⟩
    · rintro ⟨z, hz, hp⟩; exact ⟨z, (h z).2 hz, hp⟩
  have hf : els.filter (fun kv => s1.contains kv.1) = els.filter (fun kv => s2.contains kv.1) := by
    apply List.filter_congr
    intro kv _
    rw [Bool.eq_iff_iff]
    simp only [List.contains_iff_mem]
    exact h kv.1
  rw [he, ha, hf]

/-- **version as int or as str is the same query; no version means the latest; an unknown version is a KeyError** -/
theorem version_int_str (latest : String) (vs : List String) (n : Int) :
    resolveVersion latest vs (.int n) = resolveVersion latest vs (.str (toString n)) := rfl

theorem version_default_latest (latest : String) (vs : List String) (h : latest ∈ vs) :
    resolveVersion latest vs .none = .ok latest := by
  simp [resolveVersion, h]

theorem version_unknown_keyerror (latest : String) (vs : List String) (s : String) (h : s ∉ vs) :
    resolveVersion latest vs (.str s) = .error .key := by
  simp [resolveVersion, h]

/-- non-vacuity -/
def demoEls : Dict := [("8", .str "O"), ("1", .str "H"), ("6", .str "C")]
example : (selectElements demoEls ["1", "8", "1"]).toOption.map Dict.keys = some ["8", "1"]
    ∧ (selectElements demoEls ["1", "7"]).toOption = none := by decide +kernel
example : (resolveVersion "1" ["0", "1"] (.int 0)).toOption = some "0" := by decide +kernel

end BSE.Props.C05
