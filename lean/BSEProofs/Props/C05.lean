import BSEModel.Api
import BSEProofs.Lemmas.Dict
/-! # C05 — all spellings of a query select the same data -/
namespace BSE.Props.C05
open BSE BSE.Api BSE.Notation

/-- **names are case-insensitive**: two spellings that agree up to (ASCII) case transform to the same
index key -/
theorem transform_case_insensitive (a b : Str) (h : lowerAscii a = lowerAscii b) :
    transformName a = transformName b := by
  unfold transformName; rw [h]

/-- **empty selection means all elements** -/
theorem select_empty_is_all (els : Dict) : selectElements els [] = .ok els := by
  simp [selectElements]

/-- **an element that the basis does not define ⇒ KeyError, never partial data** -/
theorem select_missing_keyerror (els : Dict) (sel : List String) (z : String) (hz : z ∈ sel)
    (hmiss : Dict.has els z = false) : selectElements els sel = .error .key := by
  unfold selectElements
  have hne : sel.isEmpty = false := by cases sel <;> simp_all
  have hany : sel.any (fun z => !(Dict.has els z)) = true := List.any_eq_true.2 ⟨z, hz, by simp [hmiss]⟩
  simp [hne, hany]

/-- **the result is exactly the full basis restricted to the selected set**: every kept entry is
the original (key, data) pair, the file order is kept, and a key is kept iff it was selected -/
theorem select_is_restriction (els r : Dict) (sel : List String) (hne : sel ≠ [])
    (h : selectElements els sel = .ok r) :
    r = els.filter (fun kv => sel.contains kv.1) ∧ r.Sublist els
      ∧ (∀ kv, kv ∈ r ↔ kv ∈ els ∧ kv.1 ∈ sel) ∧ (∀ z ∈ sel, Dict.has els z = true) := by
  unfold selectElements at h
  have h0 : sel.isEmpty = false := by cases sel <;> simp_all
  simp only [h0, Bool.false_eq_true, if_false] at h
  split at h
  · cases h
  · rename_i hany
    cases h
    refine ⟨rfl, List.filter_sublist, ?_, ?_⟩
    · intro kv; simp [List.mem_filter]
    · intro z hz
      cases hh : Dict.has els z with
      | true => rfl
      | false => exact absurd (List.any_eq_true.2 ⟨z, hz, by simp [hh]⟩) hany

/-- **the notation does not matter**: two selections with the same expansion *set* (any order, any
repetitions — ints, numeric strings, symbols in any case, ranges and comma lists all expand to such
lists, see C20) give the same result, error cases included -/
theorem select_notation_invariant (els : Dict) (s1 s2 : List String) (h : ∀ z, z ∈ s1 ↔ z ∈ s2) :
    selectElements els s1 = selectElements els s2 := by
  unfold selectElements
  have he : s1.isEmpty = s2.isEmpty := by
    cases s1 with
    | nil =>
      cases s2 with
      | nil => rfl
      | cons b bs => exact absurd ((h b).2 (by simp)) (by simp)
    | cons a as =>
      cases s2 with
      | nil => exact absurd ((h a).1 (by simp)) (by simp)
      | cons b bs => rfl
  have ha : s1.any (fun z => !(Dict.has els z)) = s2.any (fun z => !(Dict.has els z)) := by
    rw [Bool.eq_iff_iff]
    simp only [List.any_eq_true]
    constructor
    · rintro ⟨z, hz, hp⟩; exact ⟨z, (h z).1 hz, hp⟩
    · rintro ⟨z, hz, hp⟩; exact ⟨z, (h z).2 hz, hp⟩
  have hf : els.filter (fun kv => s1.contains kv.1) = els.filter (fun kv => s2.contains kv.1) := by
    apply List.filter_congr
    intro kv _
    rw [Bool.eq_iff_iff]
    simp only [List.contains_iff_mem]
    exact h kv.1
  rw [he, ha, hf]

/-- **version as int or as str is the same query; no version means the latest; an unknown version is a KeyError** -/
theorem version_int_str (latest : String) (vs : List String) (n : Int) :
    resolveVersion latest vs (.int n) = resolveVersion latest vs (.str (toString n)) := rfl

theorem version_default_latest (latest : String) (vs : List String) (h : latest ∈ vs) :
    resolveVersion latest vs .none = .ok latest := by
  simp [resolveVersion, h]

theorem version_unknown_keyerror (latest : String) (vs : List String) (s : String) (h : s ∉ vs) :
    resolveVersion latest vs (.str s) = .error .key := by
  simp [resolveVersion, h]


/-! ### the whole front end (`applySelection` = what `get_basis` does between composing and the option pipeline) -/

/-- **`None` and the empty selection mean all elements**: only the display name is set -/
theorem apply_none_or_empty (basis : Dict) (display : String) :
    applySelection basis display none = .ok (Dict.set basis "name" (.str display))
    ∧ applySelection basis display (some []) = .ok (Dict.set basis "name" (.str display)) := by
  constructor <;> rfl

/-- **a selection is the restriction, with `function_types` recomputed for the subset, the display name set, and every other
field of the composed basis left as it is** -/
theorem apply_selection_spec (basis els r : Dict) (display : String) (sel : List String) (hne : sel ≠ [])
    (hels : Dict.get? basis "elements" = some (.obj els))
    (h : applySelection basis display (some sel) = .ok r) :
    Dict.get? r "elements" = some (.obj (els.filter (fun kv => sel.contains kv.1)))
    ∧ Dict.get? r "function_types" = some (Compose.wholeTypes (els.filter (fun kv => sel.contains kv.1)))
    ∧ Dict.get? r "name" = some (.str display)
    ∧ (∀ z ∈ sel, Dict.has els z = true)
    ∧ (∀ k, k ≠ "name" → k ≠ "elements" → k ≠ "function_types" → Dict.get? r k = Dict.get? basis k) := by
  have h0 : sel.isEmpty = false := by cases sel <;> simp_all
  have hels' : Dict.get? (Dict.set basis "name" (.str display)) "elements" = some (.obj els) := by
    rw [Dict.get?_set_other _ _ _ _ (by decide)]; exact hels
  simp only [applySelection, h0, Bool.false_eq_true, if_false, Compose.getKey, hels', Compose.asObj, bind, Except.bind, pure, Except.pure] at h
  cases hs : selectElements els sel with
  | error e => simp [hs] at h
  | ok els' =>
    simp only [hs] at h
    obtain ⟨hr, _, _, hall⟩ := select_is_restriction els els' sel hne hs
    injection h with h
    subst h
    subst hr
    refine ⟨?_, ?_, ?_, hall, ?_⟩
    · rw [Dict.get?_set_other _ _ _ _ (by decide), Dict.get?_set_same]
    · rw [Dict.get?_set_same]
    · rw [Dict.get?_set_other _ _ _ _ (by decide), Dict.get?_set_other _ _ _ _ (by decide), Dict.get?_set_same]
    · intro k h1 h2 h3
      rw [Dict.get?_set_other _ _ _ _ (Ne.symm h3), Dict.get?_set_other _ _ _ _ (Ne.symm h2), Dict.get?_set_other _ _ _ _ (Ne.symm h1)]

/-- **an element the basis does not define ⇒ KeyError from the whole front end, never a partial basis** -/
theorem apply_missing_keyerror (basis els : Dict) (display : String) (sel : List String) (z : String) (hz : z ∈ sel)
    (hels : Dict.get? basis "elements" = some (.obj els)) (hmiss : Dict.has els z = false) :
    applySelection basis display (some sel) = .error .key := by
  have h0 : sel.isEmpty = false := by cases sel <;> simp_all
  have hels' : Dict.get? (Dict.set basis "name" (.str display)) "elements" = some (.obj els) := by
    rw [Dict.get?_set_other _ _ _ _ (by decide)]; exact hels
  simp only [applySelection, h0, Bool.false_eq_true, if_false, Compose.getKey, hels', Compose.asObj, bind, Except.bind, pure, Except.pure,
    select_missing_keyerror els sel z hz hmiss]

/-- **restricting a restriction**: selecting `s2 ⊆ s1` from the result for `s1` is selecting `s2` from the full basis
(so a subset can be taken from a cached larger answer — and the C03/C14 harnesses may restrict a composed basis themselves) -/
theorem select_select (els r1 : Dict) (s1 s2 : List String) (h1 : selectElements els s1 = .ok r1)
    (hsub : ∀ z ∈ s2, z ∈ s1) (hne : s2 ≠ []) :
    selectElements r1 s2 = selectElements els s2 := by
  have hne1 : s1 ≠ [] := by
    intro h; subst h
    cases s2 with
    | nil => exact hne rfl
    | cons a as => exact absurd (hsub a (by simp)) (by simp)
  obtain ⟨hr, _, hmem, hall⟩ := select_is_restriction els r1 s1 hne1 h1
  have h0 : s2.isEmpty = false := by cases s2 <;> simp_all
  have hhas : ∀ z ∈ s2, Dict.has r1 z = true ∧ Dict.has els z = true := by
    intro z hz
    have hz1 := hsub z hz
    have he := hall z hz1
    refine ⟨?_, he⟩
    simp only [Dict.has, List.any_eq_true] at he ⊢
    obtain ⟨kv, hkv, hk⟩ := he
    have hk' : kv.1 = z := by simpa using hk
    exact ⟨kv, (hmem kv).2 ⟨hkv, hk' ▸ hz1⟩, hk⟩
  have ha1 : s2.any (fun z => !(Dict.has r1 z)) = false := by
    rw [List.any_eq_false]; intro z hz; simp [(hhas z hz).1]
  have ha2 : s2.any (fun z => !(Dict.has els z)) = false := by
    rw [List.any_eq_false]; intro z hz; simp [(hhas z hz).2]
  unfold selectElements
  simp only [h0, ha1, ha2, Bool.false_eq_true, if_false]
  subst hr
  rw [List.filter_filter]
  congr 1
  apply List.filter_congr
  intro kv _
  by_cases hk : s2.contains kv.1 = true
  · have : s1.contains kv.1 = true := by
      simp only [List.contains_iff_mem] at hk ⊢; exact hsub _ hk
    rw [hk, this]; rfl
  · have hk' : s2.contains kv.1 = false := by simpa using hk
    rw [hk']; rfl

/-- non-vacuity -/
def demoEls : Dict := [("8", .str "O"), ("1", .str "H"), ("6", .str "C")]
example : (selectElements demoEls ["1", "8", "1"]).toOption.map Dict.keys = some ["8", "1"]
    ∧ (selectElements demoEls ["1", "7"]).toOption = none := by decide +kernel
example : (resolveVersion "1" ["0", "1"] (.int 0)).toOption = some "0" := by decide +kernel
def demoBasis : Dict := [("name", .str "x"), ("description", .str "d"), ("elements", .obj demoEls), ("function_types", .arr [])]
example : ((applySelection demoBasis "X" (some ["1"])).toOption.bind (Dict.get? · "elements")).map (fun j => (j.asObj?.getD []).map (·.1)) = some ["1"]
    ∧ (applySelection demoBasis "X" (some ["7"])).toOption.isNone = true := by decide +kernel

end BSE.Props.C05
