import BSEModel.Own
import BSEGen.Own
import BSEGen.Writers
import BSEGen.Manip
/-! # C10 — library functions never modify the caller's data

Proved here: the `use_copy` discipline.  (1) in the ownership model, a pipeline whose first step
copies never writes to the caller's object and returns a private object, whatever the later steps
do; (2) every writer pipeline of the source has that shape; (3) every `use_copy` function of
manip.py / sort.py starts by copying (or by delegating to one that does).  The statements are over
call sites and guards regenerated from the source on every run; aliasing inside the printing loops
and inside Python's own containers is covered by the dynamic twin in the harness. -/
namespace BSE.Props.C10
open BSE BSE.Own

theorem run_fresh (steps : List PStep) : (run steps .fresh).2 = false := by
  induction steps with
  | nil => rfl
  | cons st rest ih =>
    unfold run step
    by_cases h : st.useCopy = true
    · simp [h, ih]
    · simp [h, ih]

theorem run_fresh_owner (steps : List PStep) : (run steps .fresh).1 = .fresh := by
  induction steps with
  | nil => rfl
  | cons st rest ih =>
    unfold run step
    by_cases h : st.useCopy = true
    · simp [h, ih]
    · simp [h, ih]

/-- **if the first step copies, the caller's object is never written to and the result is private** -/
theorem first_copy_protects (st : PStep) (rest : List PStep) (h : st.useCopy = true) :
    run (st :: rest) .caller = (.fresh, false) := by
  unfold run step
  simp only [h, if_true]
  have h1 := run_fresh rest
  have h2 := run_fresh_owner rest
  cases hr : run rest Owner.fresh with
  | mk o m =>
    rw [hr] at h1 h2
    simp only at h1 h2
    simp [h1, h2]

/-- conversely a pipeline that starts in place does write to the caller's object -/
theorem first_inplace_mutates (st : PStep) (rest : List PStep) (h : st.useCopy = false) :
    (run (st :: rest) .caller).2 = true := by
  unfold run step
  simp [h]

/-- **every writer of the source normalises a private copy**: for each of the formats its pipeline is
empty (the writer only reads) or never writes to the caller's basis -/
theorem writers_protect_caller :
    ∀ p ∈ BSE.Gen.Writers.pipelines, p.2 = [] ∨ run p.2 .caller = (.fresh, false) := by decide

/-- the formats whose writer does not normalise at all (they must only read: checked dynamically) -/
theorem read_only_writers :
    (BSE.Gen.Writers.pipelines.filter (fun p => p.2.isEmpty)).map (·.1) = ["orca", "bsedebug", "json"] := by decide

/-- **every `use_copy` function guards its argument first** (deep copy at entry, delegation to a
function that copies, or — merge_element_data — a shallow copy plus private copies of the lists it extends),
and `use_copy` defaults to True everywhere -/
theorem use_copy_functions_guarded :
    ∀ f ∈ BSE.Gen.Own.useCopyFns, (f.2.2.1 = "deepcopy" ∨ f.2.2.1 = "delegates" ∨ f.2.2.1 = "shallow_plus_lists") ∧ f.2.2.2 = "True" := by
  decide

/-- the in-place calls (`use_copy = False`) made by other public modules are the ones of `get_basis`
(on its private composed copy) and of `convert_formatted_basis_file` (on the dictionary it has just read) -/
theorem inplace_call_sites :
    ((BSE.Gen.Own.callSites.filter (fun c => c.2.2 == "False")).map (·.1)).eraseDups
      = ["convert.convert_formatted_basis_file", "api.get_basis"] := by decide

/-- inner calls of the manipulation functions act in place on the copy made at entry -/
theorem inner_calls_in_place :
    (BSE.Gen.Manip.makeGeneralCalls ++ BSE.Gen.Manip.optimizeGeneralCalls ++ BSE.Gen.Manip.uncontractGeneralCalls
      ++ BSE.Gen.Manip.removeFreeCalls).all (fun c => !c.useCopy) = true
      ∧ BSE.Gen.Manip.augmentCalls.all (·.useCopy) = true := by decide

example : run [⟨.uncontractGeneral, true⟩, ⟨.uncontractSpdf 1, false⟩, ⟨.sortBasis, false⟩] .caller = (.fresh, false)
    ∧ (run [⟨.optimizeGeneral, false⟩, ⟨.uncontractGeneral, false⟩] .caller).2 = true := by decide

end BSE.Props.C10
