import BSEModel.Own
import BSEGen.Own
import BSEGen.Writers
import BSEGen.Manip
import BSEGen.OwnSkel
import BSEProofs.Lemmas.HeapSound
/-! # C10 — library functions never modify the caller's data

Proved here: the `use_copy` discipline.  (1) in the ownership model, a pipeline whose first step
copies never writes to the caller's object and returns a private object, whatever the later steps
do; (2) every writer pipeline of the source has that shape; (3) every `use_copy` function of
manip.py / sort.py starts by copying (or by delegating to one that does).  The statements are over
call sites and guards regenerated from the source on every run; aliasing inside the printing loops
and inside Python's own containers is covered by the dynamic twin in the harness. -/
namespace BSE.Props.C10
open BSE BSE.Own

theorem run_fresh (steps : List PStep) : (run steps .fresh).2 = false := by
  induction steps with
  | nil => rfl
  | cons st rest ih =>
    unfold run step
    by_cases h : st.useCopy = true
    · simp [h, ih]
    · simp [h, ih]

theorem run_fresh_owner (steps : List PStep) : (run steps .fresh).1 = .fresh := by
  induction steps with
  | nil => rfl
  | cons st rest ih =>
    unfold run step
    by_cases h : st.useCopy = true
    · simp [h, ih]
    · simp [h, ih]

/-- **if the first step copies, the caller's object is never written to and the result is private** -/
theorem first_copy_protects (st : PStep) (rest : List PStep) (h : st.useCopy = true) :
    run (st :: rest) .caller = (.fresh, false) := by
  unfold run step
  simp only [h, if_true]
  have h1 := run_fresh rest
  have h2 := run_fresh_owner rest
  cases hr : run rest Owner.fresh with
  | mk o m =>
    rw [hr] at h1 h2
    simp only at h1 h2
    simp [h1, h2]

/-- conversely a pipeline that starts in place does write to the caller's object -/
theorem first_inplace_mutates (st : PStep) (rest : List PStep) (h : st.useCopy = false) :
    (run (st :: rest) .caller).2 = true := by
  unfold run step
  simp [h]

/-- **every writer of the source normalises a private copy**: for each of the formats its pipeline is
empty (the writer only reads) or never writes to the caller's basis -/
theorem writers_protect_caller :
    ∀ p ∈ BSE.Gen.Writers.pipelines, p.2 = [] ∨ run p.2 .caller = (.fresh, false) := by decide

/-- the formats whose writer does not normalise at all (they must only read: checked dynamically) -/
theorem read_only_writers :
    (BSE.Gen.Writers.pipelines.filter (fun p => p.2.isEmpty)).map (·.1) = ["orca", "bsedebug", "json"] := by decide

/-- **every `use_copy` function guards its argument first** (deep copy at entry, delegation to a
function that copies, or — merge_element_data — a shallow copy plus private copies of the lists it extends),
and `use_copy` defaults to True everywhere -/
theorem use_copy_functions_guarded :
    ∀ f ∈ BSE.Gen.Own.useCopyFns, (f.2.2.1 = "deepcopy" ∨ f.2.2.1 = "delegates" ∨ f.2.2.1 = "shallow_plus_lists") ∧ f.2.2.2 = "True" := by
  decide

/-- the in-place calls (`use_copy = False`) made by other public modules are the ones of `get_basis`
(on its private composed copy) and of `convert_formatted_basis_file` (on the dictionary it has just read) -/
theorem inplace_call_sites :
    ((BSE.Gen.Own.callSites.filter (fun c => c.2.2 == "False")).map (·.1)).eraseDups
      = ["convert.convert_formatted_basis_file", "api.get_basis"] := by decide

/-- inner calls of the manipulation functions act in place on the copy made at entry -/
theorem inner_calls_in_place :
    (BSE.Gen.Manip.makeGeneralCalls ++ BSE.Gen.Manip.optimizeGeneralCalls ++ BSE.Gen.Manip.uncontractGeneralCalls
      ++ BSE.Gen.Manip.removeFreeCalls).all (fun c => !c.useCopy) = true
      ∧ BSE.Gen.Manip.augmentCalls.all (·.useCopy) = true := by decide

example : run [⟨.uncontractGeneral, true⟩, ⟨.uncontractSpdf 1, false⟩, ⟨.sortBasis, false⟩] .caller = (.fresh, false)
    ∧ (run [⟨.optimizeGeneral, false⟩, ⟨.uncontractGeneral, false⟩] .caller).2 = true := by decide

end BSE.Props.C10

/-! ## Function bodies: the heap-level ownership check

`BSEGen/OwnSkel.lean` holds, regenerated from the source on every run, the effect skeleton of every
in-scope function (manip, sort, the writer of every format, curate.compare, curate.diff, the validator
and the reference converter; callees inlined, `use_copy` at its default).  `BSEModel/Heap.lean` gives
the skeleton language a heap semantics and an abstract ownership check; the theorems below say that an
accepted skeleton cannot write to a container of the caller nor return anything from which one can be
reached — along every execution — and that every skeleton of the current source is accepted. -/
namespace BSE.Props.C10
open BSE.Heap

/-- **an accepted body is safe along every execution**: whatever branches are taken, however often
the loops run and whichever members are picked, (1) every container that existed before the call has
exactly the members it had, (2) no such container was written to at all, (3) from no returned value
can such a container be reached (at the moment of the return). -/
theorem accepted_is_safe (k : Skel) (hk : k.accepted = true)
    (n0 : Node) (h0 : Node → List Node) (hown : ∀ n, n < n0 → ∀ m ∈ h0 n, m < n0)
    (st st' : St) (hi : Init n0 h0 k.params st) (hex : Exec st k.body st') :
    (∀ n, n < n0 → st'.heap n = h0 n) ∧ (∀ n ∈ st'.muts, n0 ≤ n) ∧
    (∀ p ∈ st'.rets, ∀ o, o < n0 → ¬ Reach p.2 p.1 o) := by
  unfold Skel.accepted at hk
  cases hc : check k.body (Abs.init k.params) with
  | none => simp [hc] at hk
  | some a' =>
    have := exec_sound hex _ _ hc (init_inv hown hi)
    exact ⟨this.owned_same, this.muts_ok, this.rets_ok⟩

/-- the check refuses a body that writes to its argument, and one that hands a member of it back -/
example : (Skel.mk "f" [0] (.store 0 [])).accepted = false
    ∧ (Skel.mk "g" [0] (.seq (.sub 1 0) (.ret 1))).accepted = false
    ∧ (Skel.mk "h" [0] (.seq (.deepcopy 0 0) (.seq (.sub 1 0) (.seq (.store 1 []) (.ret 0))))).accepted = true
    ∧ (Skel.mk "i" [0] (.seq (.derive 1 []) (.seq (.loop (.seq (.sub 2 0) (.store 1 [2]))) (.ret 1)))).accepted = false := by decide

/-- the hypotheses of `accepted_is_safe` are satisfiable: a caller heap with two nested containers -/
example : ∃ st : St, Init 2 (fun n => if n = 0 then [1] else []) [0] st :=
  ⟨{ heap := fun n => if n = 0 then [1] else [], next := 3, env := fun v => if v = 0 then 0 else 2, muts := [], rets := [] },
   ⟨rfl, fun n hn => rfl, by simp, by intro v hv; simp at hv; simp [hv], by intro v hv; simp at hv; simp [hv], rfl, rfl⟩⟩

/-- Bodies whose safety rests on a fact the two-bit abstraction cannot express.  `sort_basis_dict` builds its result from
the *members* of its argument and then replaces every member that is a dict or a list by a private copy; that "every
container-valued member is replaced" is a property of the values, not of the shape of the body.  It is covered by the dynamic
twin only (identity-disjointness of result and argument on every explored input). -/
def beyondTheAbstraction : List String := ["sort.sort_basis_dict"]

/-- **every in-scope function body of the current source passes the ownership check** (all but the one named above) -/
theorem all_skeletons_accepted :
    ∀ k ∈ BSE.Gen.OwnSkel.all, k.name ∉ beyondTheAbstraction → k.accepted = true := by decide +kernel

/-- the excluded body is really refused (so the exclusion is not hiding an accepted one), and it is in the list -/
theorem excluded_is_refused :
    (BSE.Gen.OwnSkel.all.filter (fun k => decide (k.name ∈ beyondTheAbstraction))).map (fun k => (k.name, k.accepted))
      = [("sort.sort_basis_dict", false)] := by decide +kernel

/-- the skeleton list is not empty and covers the writer of every format -/
theorem skeletons_cover_writers :
    BSE.Gen.Writers.pipelines.length ≤ (BSE.Gen.OwnSkel.all.filter (fun k => k.name.startsWith "writers.")).length := by decide +kernel

end BSE.Props.C10
