import BSEModel.Notation
import BSEGen.Index
import BSEProofs.Lemmas.ElementsText
/-! # C20 — element, name and angular-momentum notations convert back and forth without loss

Property theorems.  The tables (`dataTable`, `amcharHik/Hij`, `aminfo`, `specialAm`) are the ones
regenerated from `lut.py` on every run, so the `decide +kernel` statements below are re-checked
against the source as it is now. -/
namespace BSE.Props.C20
open BSE.Notation BSE.Gen.Lut

/-! ## 1. `expand (compact S) = sorted S` at the level of runs -/

theorem expandPiece_pieceOf (s e : Nat) (h : s ≤ e) :
    expandPiece (pieceOf (s, e)) = List.range' s (e + 1 - s) := by
  unfold pieceOf
  by_cases h1 : s = e
  · subst h1; simp [expandPiece]
  · by_cases h2 : e = s + 1
    · subst h2; simp [expandPiece, h1, List.range'_succ]
      have : s + 1 + 1 - s = 2 := by omega
      rw [this]; simp [List.range'_succ]
    · simp [h1, h2, expandPiece]

/-- all elements of `xs` exceed `e`, and `xs` is strictly increasing -/
def Above (e : Nat) (xs : List Nat) : Prop := xs.Pairwise (· < ·) ∧ ∀ x ∈ xs, e < x

theorem runsAux_expand (s e : Nat) (xs : List Nat) (hse : s ≤ e) (h : Above e xs) :
    ((runsAux s e xs).map pieceOf).flatMap expandPiece = List.range' s (e + 1 - s) ++ xs := by
  induction xs generalizing s e with
  | nil => simp [runsAux, expandPiece_pieceOf s e hse]
  | cons x xs ih =>
    obtain ⟨hp, ha⟩ := h
    have hx : e < x := ha x (by simp)
    have hp' := List.pairwise_cons.1 hp
    have habove : Above x xs := ⟨hp'.2, fun y hy => hp'.1 y hy⟩
    unfold runsAux
    by_cases hx1 : x = e + 1
    · simp only [hx1, if_true]
      subst hx1
      rw [ih s (e + 1) (by omega) habove]
      have : e + 1 + 1 - s = (e + 1 - s) + 1 := by omega
      rw [this, List.range'_concat]
      simp
      omega
    · simp only [hx1, if_false, List.map_cons, List.flatMap_cons]
      rw [expandPiece_pieceOf s e hse, ih x x (Nat.le_refl x) habove]
      simp [List.range'_succ]

/-- **range level of `expand_elements(compact_elements(S))`** for a strictly increasing list -/
theorem expand_compact_pieces (l : List Nat) (h : l.Pairwise (· < ·)) :
    expandPieces (compactPieces l) = l := by
  unfold expandPieces compactPieces
  cases l with
  | nil => simp [runs]
  | cons x xs =>
    have hp := List.pairwise_cons.1 h
    have := runsAux_expand x x xs (Nat.le_refl x) ⟨hp.2, fun y hy => hp.1 y hy⟩
    simpa [runs, List.range'_succ] using this

theorem mem_insertSorted (x y : Nat) (l : List Nat) : y ∈ insertSorted x l ↔ y = x ∨ y ∈ l := by
  induction l with
  | nil => simp [insertSorted]
  | cons a as ih =>
    unfold insertSorted
    by_cases h1 : x < a
    · simp [h1]
    · by_cases h2 : x = a
      · subst h2; simp
      · simp only [h1, h2, if_false, List.mem_cons, ih]
        constructor
        · rintro (h | h | h) <;> simp [h]
        · rintro (h | h | h) <;> simp [h]

theorem insertSorted_sorted (x : Nat) (l : List Nat) (h : l.Pairwise (· < ·)) :
    (insertSorted x l).Pairwise (· < ·) := by
  induction l with
  | nil => simp [insertSorted]
  | cons a as ih =>
    have hp := List.pairwise_cons.1 h
    unfold insertSorted
    by_cases h1 : x < a
    · simp only [h1, if_true]
      refine List.pairwise_cons.2 ⟨?_, h⟩
      intro y hy
      rcases List.mem_cons.1 hy with rfl | hy
      · exact h1
      · exact Nat.lt_trans h1 (hp.1 y hy)
    · by_cases h2 : x = a
      · simp [h1, h2, h]
      · simp only [h1, h2, if_false]
        refine List.pairwise_cons.2 ⟨?_, ih hp.2⟩
        intro y hy
        rcases (mem_insertSorted x y as).1 hy with rfl | hy
        · omega
        · exact hp.1 y hy

theorem sortDedup_sorted (l : List Nat) : (sortDedup l).Pairwise (· < ·) := by
  induction l with
  | nil => simp [sortDedup]
  | cons a as ih => exact insertSorted_sorted a _ ih

theorem mem_sortDedup (l : List Nat) (y : Nat) : y ∈ sortDedup l ↔ y ∈ l := by
  induction l with
  | nil => simp [sortDedup]
  | cons a as ih =>
    show y ∈ insertSorted a (sortDedup as) ↔ _
    rw [mem_insertSorted, ih]; simp

/-- **expand ∘ compact is the sorted set**: for every list `S` of atomic numbers (any order, any
repetitions, including the empty one) the ranges `compact_elements` forms expand to exactly the
strictly increasing list of the members of `S`. -/
theorem expand_compact (S : List Nat) :
    expandPieces (compactPieces (sortDedup S)) = sortDedup S
      ∧ (sortDedup S).Pairwise (· < ·) ∧ ∀ z, z ∈ sortDedup S ↔ z ∈ S :=
  ⟨expand_compact_pieces _ (sortDedup_sorted S), sortDedup_sorted S, mem_sortDedup S⟩

example : expandPieces (compactPieces (sortDedup [10, 1, 2, 3, 8, 6, 7, 2])) = [1, 2, 3, 6, 7, 8, 10] := by decide

/-! ### the text layer: `expand_elements(compact_elements(S))` on the strings themselves -/

/-- for every Z of the table: the symbol `compact_elements` prints is a word of letters, and `expand_elements` reads it as Z -/
theorem known_Z : ∀ z ∈ List.range' 1 118, KnownZ z := by
  have h : ∀ z ∈ List.range' 1 118,
      (match symFromZNorm z with
       | some w => wordB w && (match zFromStr w with | .ok n => n == z | .error _ => false)
       | none => false) = true := by decide +kernel
  intro z hz
  have hz' := h z hz
  cases hs : symFromZNorm z with
  | none => simp [hs] at hz'
  | some w =>
    simp only [hs, Bool.and_eq_true] at hz'
    have hsym : symOf z = w := by simp [symOf, hs]
    refine ⟨by rw [hsym]; exact hs, by rw [hsym]; exact word_of_wordB w hz'.1, ?_⟩
    rw [hsym]
    cases hr : zFromStr w with
    | error e => simp [hr] at hz'
    | ok n =>
      simp only [hr, beq_iff_eq] at hz'
      rw [hz'.2]

/-- **`expand_elements(compact_elements(S))` is the sorted set S, on the strings themselves**: for every non-empty list of atomic
numbers 1..118 (any order, any repetitions) `compact_elements` produces a string, and `expand_elements` — its squeezing of
repeated separators, removal of white space, stripping of commas, its four malformed-pattern tests, the split at the commas
and the expansion of every `A-B` — turns that string into exactly the strictly increasing list of the members of S -/
theorem expand_compact_text (S : List Nat) (hne : S ≠ []) (hz : ∀ z ∈ S, z ∈ List.range' 1 118) :
    ∃ s, compactElements S = some s ∧ expandStr s = .ok (sortDedup S) := by
  have hknown : ∀ z ∈ sortDedup S, KnownZ z := fun z hzm => known_Z z (hz z ((mem_sortDedup S z).1 hzm))
  have hpk := pieces_known (sortDedup S) hknown
  refine ⟨_, compactElements_text S hpk, ?_⟩
  -- the token list is not empty and every token is well-formed
  have hS : sortDedup S ≠ [] := by
    obtain ⟨z, hzS⟩ := List.exists_mem_of_ne_nil S hne
    intro h0
    have := (mem_sortDedup S z).2 hzS
    rw [h0] at this
    cases this
  have hps : compactPieces (sortDedup S) ≠ [] := by
    cases hsd : sortDedup S with
    | nil => exact absurd hsd hS
    | cons x xs =>
      unfold compactPieces runs
      simp only [List.map_eq_nil_iff, ne_eq]
      cases xs with
      | nil => simp [runsAux]
      | cons y ys =>
        unfold runsAux
        split
        · intro h
          -- runsAux never returns the empty list
          have : ∀ (l : List Nat) (s e : Nat), runsAux s e l ≠ [] := by
            intro l
            induction l with
            | nil => intro s e; simp [runsAux]
            | cons a as ih => intro s e; unfold runsAux; split; exact ih _ _; simp
          exact this _ _ _ h
        · simp
  have htoks_ne : (compactPieces (sortDedup S)).flatMap pieceToks ≠ [] := by
    cases hp : compactPieces (sortDedup S) with
    | nil => exact absurd hp hps
    | cons p ps =>
      have := (pieceToks_ok p (hpk p (by rw [hp]; simp))).2
      simp only [List.flatMap_cons]
      intro h
      exact this (List.append_eq_nil_iff.1 h).1
  have htoks_ok : ∀ t ∈ (compactPieces (sortDedup S)).flatMap pieceToks, t.OK := by
    intro t ht
    obtain ⟨p, hp, htp⟩ := List.mem_flatMap.1 ht
    exact (pieceToks_ok p (hpk p hp)).1 t htp
  rw [expandStr_joinToks _ htoks_ne htoks_ok]
  obtain ⟨r, hr, hflat⟩ := expand_pieces _ hpk
  rw [hr]
  simp only [Except.map]
  rw [hflat, expand_compact_pieces _ (sortDedup_sorted S)]

/-- non-vacuity, on the text: seven numbers in disorder with a repetition -/
example : compactElements [10, 1, 2, 3, 8, 6, 7, 2] = some "H-Li,C-O,Ne".toList
    ∧ (match expandStr "H-Li,C-O,Ne".toList with | .ok r => r == [1, 2, 3, 6, 7, 8, 10] | .error _ => false) = true := by decide +kernel

/-! ## 2. the element table -/

/-- the current official symbols, Z = 1 … 118 (IUPAC 2016) — the specification side -/
def official : List Str :=
  [['h'], ['h','e'], ['l','i'], ['b','e'], ['b'], ['c'], ['n'], ['o'], ['f'], ['n','e'],
   ['n','a'], ['m','g'], ['a','l'], ['s','i'], ['p'], ['s'], ['c','l'], ['a','r'], ['k'], ['c','a'],
   ['s','c'], ['t','i'], ['v'], ['c','r'], ['m','n'], ['f','e'], ['c','o'], ['n','i'], ['c','u'], ['z','n'],
   ['g','a'], ['g','e'], ['a','s'], ['s','e'], ['b','r'], ['k','r'], ['r','b'], ['s','r'], ['y'], ['z','r'],
   ['n','b'], ['m','o'], ['t','c'], ['r','u'], ['r','h'], ['p','d'], ['a','g'], ['c','d'], ['i','n'], ['s','n'],
   ['s','b'], ['t','e'], ['i'], ['x','e'], ['c','s'], ['b','a'], ['l','a'], ['c','e'], ['p','r'], ['n','d'],
   ['p','m'], ['s','m'], ['e','u'], ['g','d'], ['t','b'], ['d','y'], ['h','o'], ['e','r'], ['t','m'], ['y','b'],
   ['l','u'], ['h','f'], ['t','a'], ['w'], ['r','e'], ['o','s'], ['i','r'], ['p','t'], ['a','u'], ['h','g'],
   ['t','l'], ['p','b'], ['b','i'], ['p','o'], ['a','t'], ['r','n'], ['f','r'], ['r','a'], ['a','c'], ['t','h'],
   ['p','a'], ['u'], ['n','p'], ['p','u'], ['a','m'], ['c','m'], ['b','k'], ['c','f'], ['e','s'], ['f','m'],
   ['m','d'], ['n','o'], ['l','r'], ['r','f'], ['d','b'], ['s','g'], ['b','h'], ['h','s'], ['m','t'], ['d','s'],
   ['r','g'], ['c','n'], ['n','h'], ['f','l'], ['m','c'], ['l','v'], ['t','s'], ['o','g']]

/-- Z → symbol gives the current official symbol for every element -/
theorem Z_sym_official :
    ∀ i ∈ List.range 118, symFromZ (i + 1) = official[i]? := by decide +kernel

/-- Z → symbol → Z is the identity for every Z the table knows (also through the capitalised form
that `compact_elements` prints) -/
theorem sym_Z_inverse :
    ∀ r ∈ dataTable, ((symFromZ r.2.1).bind zFromSym = some r.2.1
        ∧ (symFromZNorm r.2.1).bind zFromSym = some r.2.1) := by decide +kernel

/-- every symbol of the table (old systematic ones included) maps to its own Z, in any case -/
theorem sym_lookup :
    ∀ r ∈ dataTable, zFromSym r.1 = some r.2.1 ∧ zFromSym (capitalize r.1) = some r.2.1
        ∧ zFromSym (r.1.map Char.toUpper) = some r.2.1 := by decide +kernel

theorem name_Z_inverse :
    ∀ r ∈ dataTable, zFromName r.2.2 = some r.2.1 ∧ (nameFromZ r.2.1).bind zFromName = some r.2.1 := by
  decide +kernel

/-- symbols are usable inside the compact notation: non-empty, purely alphabetic (so they contain
no `,`, `-` or blank and are never mistaken for a number) -/
theorem sym_alpha : ∀ r ∈ dataTable, r.1 ≠ [] ∧ r.1.all Char.isAlpha = true := by
  decide +kernel

/-- every Z from 1 to 118 has a symbol -/
theorem Z_known : ∀ i ∈ List.range 118, (symFromZ (i + 1)).isSome = true := by decide +kernel

/-! ## 3. angular-momentum letters -/

theorem am_inverse : ∀ hij : Bool, ∀ l ∈ List.range 25,
    (amChar hij l).bind (amInt hij) = some l := by decide +kernel

theorem amchar_inverse : ∀ hij : Bool, ∀ c ∈ amTable hij,
    (amInt hij c).bind (amChar hij) = some c ∧ (amInt hij c.toUpper).bind (amChar hij) = some c := by
  decide +kernel

/-- the two conventions agree below l = 7 and differ exactly as documented there -/
theorem am_conventions : (∀ l ∈ List.range 7, amChar true l = amChar false l)
    ∧ amChar false 7 = some 'k' ∧ amChar true 7 = some 'j' ∧ (amTable false).length = 25
    ∧ (amTable true).length = 26 := by decide +kernel

/-! ## 4. electron_shells_start -/

/-- the starting quantum numbers account for exactly the electrons given; for every count up to
118 (beyond that the function raises) -/
theorem shellsStart_accounts : ∀ n ∈ List.range 119,
    ∀ s, shellsStart n = some s → electronsOf s = n := by decide +kernel

theorem shellsStart_refuses (n : Nat) (h : n > 118) : shellsStart n = none := by
  simp [shellsStart, h]

example : shellsStart 10 = some [3, 3, 3, 4] ∧ shellsStart 28 = some [4, 4, 4, 4]
    ∧ shellsStart 3 = none := by decide +kernel

/-! ## 5. basis names and file names -/

/-- **file name → basis name undoes basis name → file name for every name of the index**
(`Gen.Index.displayNames` is regenerated from `data/METADATA.json` on every run) -/
theorem name_file_roundtrip_index :
    ∀ n ∈ BSE.Gen.Index.displayNames,
      fromFileChars (toFileChars (lowerAscii n)) = lowerAscii n := by
  decide +kernel

/-- the index key of every entry is the transformed display name -/
theorem index_keys_are_transformed :
    BSE.Gen.Index.keys = BSE.Gen.Index.displayNames.map transformName := by
  decide +kernel

/-- The law is *not* unconditional: an escape character followed by `sl`/`st` and another escape
is decoded wrongly (`"*sl/" ↦ "_st_sl_sl_" ↦ "_st/sl_"`).  No such name exists in the index
(previous theorem); recorded so that the limit of the guarantee is explicit. -/
theorem name_file_roundtrip_limit :
    fromFileChars (toFileChars "*sl/".toList) ≠ "*sl/".toList := by decide

/-- names without escape characters and without underscores are left alone in both directions -/
theorem toFileChars_plain (l : List Char) (h1 : '/' ∉ l) (h2 : '*' ∉ l) : toFileChars l = l := by
  unfold toFileChars
  induction l with
  | nil => rfl
  | cons x xs ih =>
    have hx1 : x ≠ '/' := fun h => h1 (by simp [h])
    have hx2 : x ≠ '*' := fun h => h2 (by simp [h])
    simp only [List.flatMap_cons, encChar, hx1, hx2, if_false, List.singleton_append]
    rw [ih (fun h => h1 (by simp [h])) (fun h => h2 (by simp [h]))]

/-! ## 6. contraction summaries -/

theorem lookupAm_bump (a p c am : Nat) (m : List (Nat × Nat × Nat)) :
    lookupAm (bump a p c m) am
      = if a = am then ((lookupAm m am).1 + p, (lookupAm m am).2 + c) else lookupAm m am := by
  induction m with
  | nil =>
    by_cases h : a = am
    · simp [bump, lookupAm, h]
    · simp [bump, lookupAm, h]
  | cons x xs ih =>
    obtain ⟨a0, p0, c0⟩ := x
    unfold bump
    by_cases h0 : a0 = a
    · subst h0
      by_cases h : a0 = am
      · subst h; simp [lookupAm]
      · simp [lookupAm, h]
    · simp only [h0, if_false]
      by_cases h : a0 = am
      · subst h
        have : ¬ a = a0 := fun h' => h0 h'.symm
        simp [lookupAm, this]
      · have e1 : lookupAm ((a0, p0, c0) :: bump a p c xs) am = lookupAm (bump a p c xs) am := by
          simp [lookupAm, h]
        have e2 : lookupAm ((a0, p0, c0) :: xs) am = lookupAm xs am := by simp [lookupAm, h]
        rw [e1, e2, ih]

/-- primitives / contractions that the shells contribute to momentum `am` -/
def specCounts (shells : List (List Nat × Nat × Nat)) (am : Nat) : Nat × Nat :=
  ((shells.map fun sh => sh.1.count am * sh.2.1).sum,
   (shells.map fun sh => sh.1.count am * (if sh.1.length > 1 then 1 else sh.2.2)).sum)

theorem fold_bump (ams : List Nat) (np nc am : Nat) (m : List (Nat × Nat × Nat)) :
    lookupAm (ams.foldl (fun m a => bump a np nc m) m) am
      = ((lookupAm m am).1 + ams.count am * np, (lookupAm m am).2 + ams.count am * nc) := by
  induction ams generalizing m with
  | nil => simp
  | cons a as ih =>
    simp only [List.foldl_cons]
    rw [ih, lookupAm_bump]
    by_cases h : a = am
    · subst h
      simp only [if_true, List.count_cons_self, Nat.add_mul, Nat.one_mul, Prod.mk.injEq]
      constructor <;> omega
    · have h' : (a == am) = false := by simpa using h
      simp only [h, if_false, List.count_cons, h', Bool.false_eq_true, Nat.add_zero]

theorem fold_shellStep (shells : List (List Nat × Nat × Nat)) (am : Nat) (m : List (Nat × Nat × Nat)) :
    lookupAm (shells.foldl shellStep m) am
      = ((lookupAm m am).1 + (specCounts shells am).1, (lookupAm m am).2 + (specCounts shells am).2) := by
  induction shells generalizing m with
  | nil => simp [specCounts]
  | cons sh rest ih =>
    simp only [List.foldl_cons]
    rw [ih]
    unfold shellStep
    rw [fold_bump]
    simp only [specCounts, List.map_cons, List.sum_cons, Prod.mk.injEq]
    constructor <;> omega

/-- **`contraction_string` counts exactly the primitives and contractions present per momentum**
(a fused shell counts one contraction per member, a general contraction all its columns) -/
theorem contraction_counts (shells : List (List Nat × Nat × Nat)) (am : Nat) :
    lookupAm (contMap shells) am = specCounts shells am := by
  unfold contMap
  rw [fold_shellStep]
  simp [lookupAm]

example : lookupAm (contMap [([0], 6, 2), ([0, 1], 3, 2), ([1], 1, 1)]) 0 = (9, 3)
    ∧ lookupAm (contMap [([0], 6, 2), ([0, 1], 3, 2), ([1], 1, 1)]) 1 = (4, 2) := by decide

end BSE.Props.C20
