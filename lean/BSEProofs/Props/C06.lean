import BSEModel.Memo
import BSEGen.Memo
import BSEGen.MemoShape
import BSEProofs.Lemmas.MemoHeapInv
/-! # C06 — caching is invisible

(1) `_make_key` binds exactly as Python binds, for every binding shape of every memoised signature
(regenerated from the source); (2) the memoiser returns what the uncached function returns along
every schedule of every number of threads, with the cache switched on and off at any point. -/
namespace BSE.Props.C06
open BSE.Memo

/-- the memoised signatures of the source, defaults replaced by distinct markers (their values do not
matter for binding) -/
def specs : List (Spec Nat) :=
  BSE.Gen.Memo.signatures.map fun s => ⟨s.2.1, (List.range s.2.2.length).map (· + 900)⟩

/-- **for every memoised function and every positional/keyword/default binding shape: if Python can
bind the call, the key is the bound argument vector; if it cannot, no key is made (the call is
passed through and raises)**.  Enumerated completely by the kernel. -/
theorem makeKey_valid_all_shapes : (specs.all fun s => (allCalls s).all (okCall s)) = true := by
  decide +kernel

/-- hence two bindable calls share a key exactly when they bind the same argument values -/
theorem key_iff_same_binding (s : Spec Nat) (c1 c2 : List Nat × List (String × Nat))
    (h1 : okCall s c1 = true) (h2 : okCall s c2 = true)
    (b1 b2 : List Nat) (hb1 : bound s c1.1 c1.2 = some b1) (hb2 : bound s c2.1 c2.2 = some b2) :
    makeKey s c1.1 c1.2 = makeKey s c2.1 c2.2 ↔ b1 = b2 := by
  unfold okCall at h1 h2
  rw [hb1] at h1; rw [hb2] at h2
  cases hk1 : makeKey s c1.1 c1.2 with
  | key k1 =>
    cases hk2 : makeKey s c2.1 c2.2 with
    | key k2 =>
      simp only [hk1, hk2] at h1 h2
      have e1 : k1 = b1 := by simpa using h1
      have e2 : k2 = b2 := by simpa using h2
      subst e1; subst e2
      constructor
      · intro h; cases h; rfl
      · intro h; rw [h]
    | none => simp [hk2] at h2
    | raise => simp [hk2] at h2
  | none => simp [hk1] at h1
  | raise => simp [hk1] at h1

/-! ## the state machine -/

section
variable {A K V : Type} [DecidableEq K]

/-- every cache entry, and every call in flight, is consistent with the pure function -/
def Inv (key : A → Option K) (F : A → V) (s : MState A K V) : Prop :=
  (∀ kv ∈ s.cache, ∀ a, key a = some kv.1 → kv.2 = F a)

theorem cacheGet_mem (c : List (K × V)) (k : K) (v : V) (h : cacheGet c k = some v) : (k, v) ∈ c := by
  unfold cacheGet at h
  cases hf : c.find? (·.1 == k) with
  | none => simp [hf] at h
  | some kv =>
    simp only [hf, Option.map_some, Option.some.injEq] at h
    have hm := List.mem_of_find?_eq_some hf
    have hk := List.find?_some hf
    have : kv.1 = k := by simpa using hk
    obtain ⟨k', v'⟩ := kv
    simp only at this h
    subst this; subst h
    exact hm

/-- the invariant is preserved by every step, and whatever a step returns is the pure value.
`hinj`: calls with the same key have the same pure result (C06 part 1 for the real keys, plus the
premise that the data directory is not modified meanwhile). -/
theorem step_correct (key : A → Option K) (F : A → V) (hinj : ∀ a a', key a = key a' → key a ≠ none → F a = F a')
    (s : MState A K V) (hI : Inv key F s) (hfl : ∀ t ∈ s.inflight, key t.2.1 = some t.2.2) (st : Step A) :
    Inv key F (step key F s st).1
      ∧ (∀ t ∈ (step key F s st).1.inflight, key t.2.1 = some t.2.2)
      ∧ ∀ o, (step key F s st).2 = some o → o.2 = F o.1 := by
  cases st with
  | toggle => exact ⟨hI, hfl, by intro o h; simp [step] at h⟩
  | begin t a =>
    by_cases he : s.enabled = true
    · cases hk : key a with
      | none =>
        have e : step key F s (.begin t a) = (s, some (a, F a)) := by simp [step, he, hk]
        rw [e]; exact ⟨hI, hfl, by intro o h; cases h; rfl⟩
      | some k =>
        cases hc : cacheGet s.cache k with
        | some v =>
          have e : step key F s (.begin t a) = (s, some (a, v)) := by simp [step, he, hk, hc]
          rw [e]
          refine ⟨hI, hfl, ?_⟩
          intro o h; cases h
          exact hI (k, v) (cacheGet_mem _ _ _ hc) a hk
        | none =>
          have e : step key F s (.begin t a) = ({ s with inflight := (t, a, k) :: s.inflight }, none) := by
            simp [step, he, hk, hc]
          rw [e]
          refine ⟨hI, ?_, by intro o h; cases h⟩
          intro t' ht'
          simp only [List.mem_cons] at ht'
          rcases ht' with rfl | ht'
          · exact hk
          · exact hfl t' ht'
    · have he' : s.enabled = false := by simpa using he
      have e : step key F s (.begin t a) = (s, some (a, F a)) := by simp [step, he']
      rw [e]; exact ⟨hI, hfl, by intro o h; cases h; rfl⟩
  | finish t =>
    cases hf : s.inflight.find? (·.1 == t) with
    | none =>
      have e : step key F s (.finish t) = (s, none) := by simp [step, hf]
      rw [e]
      exact ⟨hI, hfl, by intro o h; cases h⟩
    | some tak =>
      obtain ⟨t0, a, k⟩ := tak
      have e : step key F s (.finish t)
          = ({ s with cache := (k, F a) :: s.cache, inflight := s.inflight.filter (·.1 != t) }, some (a, F a)) := by
        simp [step, hf]
      rw [e]
      have hm := List.mem_of_find?_eq_some hf
      have hka : key a = some k := hfl _ hm
      refine ⟨?_, ?_, ?_⟩
      · intro kv hkv a' ha'
        simp only [List.mem_cons] at hkv
        rcases hkv with rfl | hkv
        · simp only at ha' ⊢
          exact hinj a a' (by rw [hka, ha']) (by rw [hka]; simp)
        · exact hI kv hkv a' ha'
      · intro t' ht'
        exact hfl t' (List.mem_filter.1 ht').1
      · intro o h; cases h; rfl

/-- **along every schedule — any number of threads, any interleaving of lookups, stores and cache
toggles — every value handed to a caller is the value the uncached function gives** -/
theorem memo_refines_pure (key : A → Option K) (F : A → V) (hinj : ∀ a a', key a = key a' → key a ≠ none → F a = F a')
    (sched : List (Step A)) (s : MState A K V) (hI : Inv key F s) (hfl : ∀ t ∈ s.inflight, key t.2.1 = some t.2.2) :
    ∀ o ∈ run key F s sched, o.2 = F o.1 := by
  induction sched generalizing s with
  | nil => intro o h; simp [run] at h
  | cons st rest ih =>
    intro o h
    obtain ⟨h1, h2, h3⟩ := step_correct key F hinj s hI hfl st
    simp only [run, List.mem_append] at h
    rcases h with h | h
    · cases ho : (step key F s st).2 with
      | none => simp [ho] at h
      | some o' =>
        simp only [ho, List.mem_singleton] at h
        rw [h]
        exact h3 o' ho
    · exact ih _ h1 h2 o h

/-- from the initial state (empty cache, nothing in flight) -/
theorem memo_refines_pure_init (key : A → Option K) (F : A → V) (hinj : ∀ a a', key a = key a' → key a ≠ none → F a = F a')
    (sched : List (Step A)) (en : Bool) :
    ∀ o ∈ run key F ⟨en, [], []⟩ sched, o.2 = F o.1 :=
  memo_refines_pure key F hinj sched _ (by intro kv h; cases h) (by intro t h; cases h)
end


/-! ### (3) results are objects the caller may overwrite

`BSEMemoize.__call__` as it stands in the source (regenerated on every run): after a miss it files `pickle.dumps(ret)`, on a hit it
returns `pickle.loads(...)`, a disabled memoiser and an unbindable call go straight to the function. -/

theorem call_shape_is_good : BSE.Gen.MemoShape.callShape = BSE.MemoHeap.good := by decide

/-- **previously returned objects mutated arbitrarily by the caller**: along every history of calls, overwrites of any object by
any content (`scribble`), and toggles of the switch, every call hands over an object whose content at that moment is the value of the
function — the cache holds serialised copies, never an object a caller can reach -/
theorem memo_isolated_from_caller_mutation {A K V : Type} [DecidableEq K] (key : A → Option K) (F : A → V)
    (hinj : ∀ a a', key a = key a' → key a ≠ none → F a = F a') (history : List (BSE.MemoHeap.Op A V)) :
    ∀ p ∈ BSE.MemoHeap.run BSE.Gen.MemoShape.callShape key F BSE.MemoHeap.init history, p.2 = some (F p.1) := by
  rw [call_shape_is_good]
  exact BSE.MemoHeap.run_good key F hinj history _ (BSE.MemoHeap.init_inv key F)

/-- the model can tell: a memoiser that files the object itself (`self.__memo[k] = ret`) hands a scribbled-over object to the next caller -/
theorem live_store_leaks :
    BSE.MemoHeap.run (A := Nat) (K := Nat) (V := Nat) ⟨.live, .unpickled, .computed, true, true⟩ (fun a => some a) (fun _ => 0)
      BSE.MemoHeap.init [.call 5, .scribble 0 7, .call 5] = [(5, some 0), (5, some 7)] := by decide

/-- non-vacuity of the theorem: the same history under the shape of the source -/
example : BSE.MemoHeap.run (A := Nat) (K := Nat) (V := Nat) BSE.Gen.MemoShape.callShape (fun a => some a) (fun _ => 0)
      BSE.MemoHeap.init [.call 5, .scribble 0 7, .call 5, .toggle, .call 5, .scribble 2 9, .toggle, .call 5]
        = [(5, some 0), (5, some 0), (5, some 0), (5, some 0)] := by decide

/-- non-vacuity: two threads interleaved with a toggle; the second call hits the cache -/
example : run (A := Nat) (K := Nat) (V := Nat) (fun a => some (a % 3)) (fun a => (a % 3) * 10) ⟨true, [], []⟩
    [.begin 1 4, .begin 2 7, .finish 1, .toggle, .begin 3 1, .toggle, .begin 3 10, .finish 2]
      = [(4, 10), (1, 10), (10, 10), (7, 10)] := by decide +kernel

example : (specs.map fun s => ((allCalls s).filter fun c => (bound s c.1 c.2).isSome).length) ≠ [] := by decide +kernel

end BSE.Props.C06
