import BSEModel.PruneFuncs
import BSEModel.ManipOps
import BSEModel.Validator
import BSEGen.Api
/-! # C08 — every basis handed out is well-formed

The closing `prune_basis` of the `get_basis` option pipeline establishes, for *any* shell list it is
given, the three rules that the other manipulations can break: pairwise distinct exponents in a
shell, no unused primitive, no duplicate shell.  The block list is regenerated from `api.py`. -/
namespace BSE.Props.C08
open BSE

variable {ν : Type}

theorem mapE_collapseG_fst (val : ν → Rat) (gs : List (ν × List (List ν))) (merged : List (ν × List ν))
    (h : mapE (collapseG val) gs = .ok merged) : merged.map (·.1) = gs.map (·.1) := by
  induction gs generalizing merged with
  | nil => simp [mapE] at h; subst h; rfl
  | cons g gs ih =>
    simp only [mapE] at h
    cases hc : collapseG val g with
    | error e => simp [hc] at h
    | ok p =>
      simp only [hc] at h
      cases hm : mapE (collapseG val) gs with
      | error e => simp [hm] at h
      | ok ps =>
        simp only [hm] at h
        cases h
        unfold collapseG at hc
        cases hcc : collapse val g.2 with
        | error e => simp [hcc] at hc
        | ok r =>
          simp only [hcc] at hc
          cases hc
          simp [ih ps hm]

/-- what `prune_shell` returns, in terms of the rows it kept -/
theorem pruneShell_rows (val : ν → Rat) (sh sh' : Shell ν) (h : pruneShell val sh = .ok sh') :
    ∃ kept : List (ν × List ν), sh'.exps = kept.map (·.1) ∧ sh'.coefs = zipStar (kept.map (·.2))
      ∧ (∀ p ∈ kept, notAllZero val p = true)
      ∧ (kept.map (·.1)).Pairwise (fun a b => val a ≠ val b) := by
  unfold pruneShell at h
  simp only at h
  split at h
  · cases h
  · cases hm : mapE (collapseG val) (groupRows val (sh.exps.zip (zipStar sh.coefs))) with
    | error e => simp [hm] at h
    | ok merged =>
      simp only [hm] at h
      cases h
      refine ⟨merged.filter (notAllZero val), rfl, rfl, fun p hp => (List.mem_filter.1 hp).2, ?_⟩
      have hd := groupRows_distinct val (sh.exps.zip (zipStar sh.coefs))
      have hf := mapE_collapseG_fst val _ merged hm
      have hall : (merged.map (·.1)).Pairwise (fun a b => val a ≠ val b) := by
        rw [hf]
        unfold DistinctReps at hd
        exact List.pairwise_map.2 hd
      have hsub : ((merged.filter (notAllZero val)).map (·.1)).Sublist (merged.map (·.1)) :=
        List.Sublist.map _ List.filter_sublist
      exact List.Pairwise.sublist hsub hall

/-- **after prune_shell the exponents of a shell are pairwise distinct in value**, whatever the
shell looked like before (this is what repairs the concatenations `make_general` produces) -/
theorem pruneShell_distinct_exponents (val : ν → Rat) (sh sh' : Shell ν) (h : pruneShell val sh = .ok sh') :
    sh'.exps.Pairwise (fun a b => val a ≠ val b) := by
  obtain ⟨kept, he, _, _, hp⟩ := pruneShell_rows val sh sh' h
  rw [he]; exact hp

/-- **after prune_shell no primitive is unused**: every kept row has a non-zero coefficient -/
theorem pruneShell_no_dead_primitive (val : ν → Rat) (sh sh' : Shell ν) (h : pruneShell val sh = .ok sh') :
    ∃ kept : List (ν × List ν), sh'.exps = kept.map (·.1) ∧ sh'.coefs = zipStar (kept.map (·.2))
      ∧ ∀ p ∈ kept, ∃ c ∈ p.2, val c ≠ 0 := by
  obtain ⟨kept, he, hc, hz, _⟩ := pruneShell_rows val sh sh' h
  refine ⟨kept, he, hc, ?_⟩
  intro p hp
  have := hz p hp
  simp only [notAllZero, Bool.not_eq_true', List.all_eq_false] at this
  obtain ⟨c, hc, hne⟩ := this
  exact ⟨c, hc, by simpa using hne⟩

theorem dedup_nodup_aux [DecidableEq ν] (acc l : List (Shell ν)) (h : acc.Nodup) : (dedup acc l).Nodup := by
  induction l generalizing acc with
  | nil => simpa [dedup] using h
  | cons a as ih =>
    unfold dedup
    split
    · exact ih acc h
    · rename_i hn
      apply ih
      rw [List.nodup_append]
      refine ⟨h, by simp, ?_⟩
      intro x hx y hy
      simp only [List.mem_singleton] at hy
      subst hy
      exact fun hxy => hn (hxy ▸ hx)

/-- **after prune_basis an element has no duplicate shell** -/
theorem pruneShells_nodup [DecidableEq ν] (val : ν → Rat) (shells out : List (Shell ν))
    (h : pruneShells val shells = .ok out) : out.Nodup := by
  unfold pruneShells at h
  cases hm : mapE (pruneShell val) shells with
  | error e => simp [hm] at h
  | ok ss =>
    simp only [hm] at h
    cases h
    exact dedup_nodup_aux [] ss (by simp)

/-- every shell `prune_basis` returns went through `prune_shell` -/
theorem pruneShells_members [DecidableEq ν] (val : ν → Rat) (shells out : List (Shell ν))
    (h : pruneShells val shells = .ok out) :
    ∀ s' ∈ out, ∃ s ∈ shells, pruneShell val s = .ok s' := by
  unfold pruneShells at h
  cases hm : mapE (pruneShell val) shells with
  | error e => simp [hm] at h
  | ok ss =>
    simp only [hm] at h
    cases h
    intro s' hs'
    have hs : s' ∈ ss := by simpa [mem_dedup] using hs'
    obtain ⟨hl, hi⟩ := mapE_ok hm
    obtain ⟨i, hi', rfl⟩ := List.mem_iff_getElem.1 hs
    exact ⟨shells[i]'(by omega), List.getElem_mem _, hi i (by omega) hi'⟩

/-- **the three repair properties hold for everything prune_basis hands out** -/
theorem pruneBasis_establishes [DecidableEq ν] (val : ν → Rat) (shells out : List (Shell ν))
    (h : pruneShells val shells = .ok out) :
    out.Nodup ∧ ∀ s' ∈ out, s'.exps.Pairwise (fun a b => val a ≠ val b) := by
  refine ⟨pruneShells_nodup val shells out h, ?_⟩
  intro s' hs'
  obtain ⟨s, _, hp⟩ := pruneShells_members val shells out h s' hs'
  exact pruneShell_distinct_exponents val s s' hp

/-- operations that can leave duplicate exponents, dead primitives or duplicate shells behind -/
def needsRepair : Op → Bool
  | .uncontractSegmented | .uncontractGeneral | .removeFree | .optimizeGeneral | .uncontractSpdf _ => true
  | _ => false

/-- every contraction option block of `get_basis` requests the final prune, the prune block comes
after all of them and before the augmentation blocks, and it runs `prune_basis` -/
theorem getBasis_always_prunes :
    (∀ b ∈ BSE.Gen.Api.optionBlocks.take (BSE.Gen.Api.optionBlocks.findIdx (fun b => b.cond == "needs_pruning")),
        b.setsPrune = true)
      ∧ ((BSE.Gen.Api.optionBlocks[BSE.Gen.Api.optionBlocks.findIdx (fun b => b.cond == "needs_pruning")]?).map
          (fun b => b.steps.map (·.op))) = some [.pruneBasis]
      ∧ (∀ b ∈ BSE.Gen.Api.optionBlocks.drop (BSE.Gen.Api.optionBlocks.findIdx (fun b => b.cond == "needs_pruning") + 1),
          b.setsPrune = false ∧ ∀ st ∈ b.steps, needsRepair st.op = false) := by
  decide

def demoShell : Shell String :=
  { am := [0], ftype := "gto", region := "", exps := ["1.0", "1.00", "2.0"],
    coefs := [["0.5", "0.0", "0.3"], ["0.0", "0.7", "0.0"]] }

example : (pruneShell numVal demoShell).toOption.map (·.exps) = some ["1.0", "2.0"] := by decide +kernel

end BSE.Props.C08
