import BSEModel.PruneFuncs
import BSEModel.ManipOps
import BSEModel.Validator
import BSEGen.Api
import BSEProofs.Lemmas.PruneValid
import BSEProofs.Lemmas.SegValid
import BSEProofs.Lemmas.Closure
/-! # C08 — every basis handed out is well-formed

The closing `prune_basis` of the `get_basis` option pipeline establishes, for *any* shell list it is
given, the three rules that the other manipulations can break: pairwise distinct exponents in a
shell, no unused primitive, no duplicate shell.  The block list is regenerated from `api.py`. -/
namespace BSE.Props.C08
open BSE

variable {ν : Type}

theorem mapE_collapseG_fst (val : ν → Rat) (gs : List (ν × List (List ν))) (merged : List (ν × List ν))
    (h : mapE (collapseG val) gs = .ok merged) : merged.map (·.1) = gs.map (·.1) := by
  induction gs generalizing merged with
  | nil => simp [mapE] at h; subst h; rfl
  | cons g gs ih =>
    simp only [mapE] at h
    cases hc : collapseG val g with
    | error e => simp [hc] at h
    | ok p =>
      simp only [hc] at h
      cases hm : mapE (collapseG val) gs with
      | error e => simp [hm] at h
      | ok ps =>
        simp only [hm] at h
        cases h
        unfold collapseG at hc
        cases hcc : collapse val g.2 with
        | error e => simp [hcc] at hc
        | ok r =>
          simp only [hcc] at hc
          cases hc
          simp [ih ps hm]

/-- what `prune_shell` returns, in terms of the rows it kept -/
theorem pruneShell_rows (val : ν → Rat) (sh sh' : Shell ν) (h : pruneShell val sh = .ok sh') :
    ∃ kept : List (ν × List ν), sh'.exps = kept.map (·.1) ∧ sh'.coefs = zipStar (kept.map (·.2))
      ∧ (∀ p ∈ kept, notAllZero val p = true)
      ∧ (kept.map (·.1)).Pairwise (fun a b => val a ≠ val b) := by
  unfold pruneShell at h
  simp only at h
  split at h
  · cases h
  · cases hm : mapE (collapseG val) (groupRows val (sh.exps.zip (zipStar sh.coefs))) with
    | error e => simp [hm] at h
    | ok merged =>
      simp only [hm] at h
      cases h
      refine ⟨merged.filter (notAllZero val), rfl, rfl, fun p hp => (List.mem_filter.1 hp).2, ?_⟩
      have hd := groupRows_distinct val (sh.exps.zip (zipStar sh.coefs))
      have hf := mapE_collapseG_fst val _ merged hm
      have hall : (merged.map (·.1)).Pairwise (fun a b => val a ≠ val b) := by
        rw [hf]
        unfold DistinctReps at hd
        exact List.pairwise_map.2 hd
      have hsub : ((merged.filter (notAllZero val)).map (·.1)).Sublist (merged.map (·.1)) :=
        List.Sublist.map _ List.filter_sublist
      exact List.Pairwise.sublist hsub hall

/-- **after prune_shell the exponents of a shell are pairwise distinct in value**, whatever the
shell looked like before (this is what repairs the concatenations `make_general` produces) -/
theorem pruneShell_distinct_exponents (val : ν → Rat) (sh sh' : Shell ν) (h : pruneShell val sh = .ok sh') :
    sh'.exps.Pairwise (fun a b => val a ≠ val b) := by
  obtain ⟨kept, he, _, _, hp⟩ := pruneShell_rows val sh sh' h
  rw [he]; exact hp

/-- **after prune_shell no primitive is unused**: every kept row has a non-zero coefficient -/
theorem pruneShell_no_dead_primitive (val : ν → Rat) (sh sh' : Shell ν) (h : pruneShell val sh = .ok sh') :
    ∃ kept : List (ν × List ν), sh'.exps = kept.map (·.1) ∧ sh'.coefs = zipStar (kept.map (·.2))
      ∧ ∀ p ∈ kept, ∃ c ∈ p.2, val c ≠ 0 := by
  obtain ⟨kept, he, hc, hz, _⟩ := pruneShell_rows val sh sh' h
  refine ⟨kept, he, hc, ?_⟩
  intro p hp
  have := hz p hp
  simp only [notAllZero, Bool.not_eq_true', List.all_eq_false] at this
  obtain ⟨c, hc, hne⟩ := this
  exact ⟨c, hc, by simpa using hne⟩

theorem dedup_nodup_aux [DecidableEq ν] (acc l : List (Shell ν)) (h : acc.Nodup) : (dedup acc l).Nodup := by
  induction l generalizing acc with
  | nil => simpa [dedup] using h
  | cons a as ih =>
    unfold dedup
    split
    · exact ih acc h
    · rename_i hn
      apply ih
      rw [List.nodup_append]
      refine ⟨h, by simp, ?_⟩
      intro x hx y hy
      simp only [List.mem_singleton] at hy
      subst hy
      exact fun hxy => hn (hxy ▸ hx)

/-- **after prune_basis an element has no duplicate shell** -/
theorem pruneShells_nodup [DecidableEq ν] (val : ν → Rat) (shells out : List (Shell ν))
    (h : pruneShells val shells = .ok out) : out.Nodup := by
  unfold pruneShells at h
  cases hm : mapE (pruneShell val) shells with
  | error e => simp [hm] at h
  | ok ss =>
    simp only [hm] at h
    cases h
    exact dedup_nodup_aux [] ss (by simp)

/-- every shell `prune_basis` returns went through `prune_shell` -/
theorem pruneShells_members [DecidableEq ν] (val : ν → Rat) (shells out : List (Shell ν))
    (h : pruneShells val shells = .ok out) :
    ∀ s' ∈ out, ∃ s ∈ shells, pruneShell val s = .ok s' := by
  unfold pruneShells at h
  cases hm : mapE (pruneShell val) shells with
  | error e => simp [hm] at h
  | ok ss =>
    simp only [hm] at h
    cases h
    intro s' hs'
    have hs : s' ∈ ss := by simpa [mem_dedup] using hs'
    obtain ⟨hl, hi⟩ := mapE_ok hm
    obtain ⟨i, hi', rfl⟩ := List.mem_iff_getElem.1 hs
    exact ⟨shells[i]'(by omega), List.getElem_mem _, hi i (by omega) hi'⟩

/-- **the three repair properties hold for everything prune_basis hands out** -/
theorem pruneBasis_establishes [DecidableEq ν] (val : ν → Rat) (shells out : List (Shell ν))
    (h : pruneShells val shells = .ok out) :
    out.Nodup ∧ ∀ s' ∈ out, s'.exps.Pairwise (fun a b => val a ≠ val b) := by
  refine ⟨pruneShells_nodup val shells out h, ?_⟩
  intro s' hs'
  obtain ⟨s, _, hp⟩ := pruneShells_members val shells out h s' hs'
  exact pruneShell_distinct_exponents val s s' hp

/-! ## validity of what is handed out

`ValidShell` is the declarative rule list that `Props/C18` proves equivalent to the validator model
(`validateShell_iff`).  The three statements below are about *all* rules at once. -/

open BSE.Props.C18

/-- **the output of `prune_shell` satisfies every validator rule** (for a semantically well-formed, correctly tagged
input with positive exponents); the one rule pruning cannot promise, "no duplicate contraction", is a hypothesis -/
theorem pruneShell_output_valid (val : ν → Rat) (sh sh' : Shell ν) (hw : SemWF val sh)
    (htagH : sh.am.foldl max 0 > 1 → (sh.ftype = "gto_spherical" ∨ sh.ftype = "gto_cartesian"))
    (htagL : ¬ sh.am.foldl max 0 > 1 → ¬ (strInfix "spherical" sh.ftype = true ∨ strInfix "cartesian" sh.ftype = true))
    (hpos : ∀ e ∈ sh.exps, val e > 0)
    (hfused : sh.am.length > 1 → sh.coefs.length = sh.am.length)
    (h : pruneShell val sh = .ok sh')
    (hdup : sh'.am.length = 1 → (sh'.coefs.map (·.map val)).Nodup) :
    validateShell val sh' = none :=
  (validateShell_iff val sh').2 (pruneShell_valid val sh sh' hw htagH htagL hpos hfused h hdup)

/-- **pruning a valid shell changes nothing**: the data of the store, which is validated, passes through the closing
`prune_basis` untouched, and pruning is idempotent on valid data -/
theorem pruneShell_identity_on_valid (val : ν → Rat) (sh : Shell ν) (hv : validateShell val sh = none) (hne : sh.coefs ≠ []) :
    pruneShell val sh = .ok sh :=
  pruneShell_id_of_valid val sh ((validateShell_iff val sh).1 hv) hne

theorem mapE_pruneShell_id (val : ν → Rat) (shells : List (Shell ν))
    (hv : ∀ sh ∈ shells, validateShell val sh = none ∧ sh.coefs ≠ []) : mapE (pruneShell val) shells = .ok shells := by
  induction shells with
  | nil => rfl
  | cons a as ih =>
    simp only [mapE, pruneShell_identity_on_valid val a (hv a (by simp)).1 (hv a (by simp)).2,
      ih (fun sh hs => hv sh (by simp [hs]))]

theorem dedup_id_of_nodup [DecidableEq ν] (acc l : List (Shell ν)) (h : (acc ++ l).Nodup) : dedup acc l = acc ++ l := by
  induction l generalizing acc with
  | nil => simp [dedup]
  | cons a as ih =>
    have hnot : a ∉ acc := by
      intro ha
      have := (List.nodup_append.1 h).2.2 a ha a (by simp)
      exact this rfl
    unfold dedup
    rw [if_neg hnot, ih (acc ++ [a]) (by simpa using h)]
    simp

/-- **`prune_basis` is the identity on a valid element** (valid, pairwise different shells) -/
theorem pruneShells_identity_on_valid [DecidableEq ν] (val : ν → Rat) (shells : List (Shell ν))
    (hv : ∀ sh ∈ shells, validateShell val sh = none ∧ sh.coefs ≠ []) (hn : shells.Nodup) :
    pruneShells val shells = .ok shells := by
  unfold pruneShells
  rw [mapE_pruneShell_id val shells hv]
  simp only
  rw [dedup_id_of_nodup [] shells (by simpa using hn)]
  simp

/-- **`uncontract_general` of a valid element is a valid element**: every shell satisfies every validator rule and
no shell occurs twice — whatever the element, for every valuation of the number strings -/
theorem uncontractGeneral_valid [DecidableEq ν] (val : ν → Rat) (shells out : List (Shell ν))
    (hv : ∀ sh ∈ shells, validateShell val sh = none ∧ sh.coefs ≠ [])
    (h : uncontractGeneral val shells = .ok out) :
    validateElement val (some out) none false = none := by
  rw [validateElement_iff]
  refine ⟨?_, by simp⟩
  intro ss hss
  cases hss
  unfold uncontractGeneral at h
  refine ⟨?_, pruneShells_nodup val _ out h⟩
  intro s' hs'
  obtain ⟨s, hs, hp⟩ := pruneShells_members val _ out h s' hs'
  exact uncontractGeneral_shell_valid val shells
    (fun sh hsh => ⟨(validateShell_iff val sh).1 (hv sh hsh).1, (hv sh hsh).2⟩) s s' hs hp

/-- **`uncontract_segmented` (followed by the prune `get_basis` runs at once) of a valid element is a valid element**:
one shell per primitive with a unit coefficient per momentum, duplicates removed -/
theorem uncontractSegmented_valid [DecidableEq ν] (val : ν → Rat) (one : ν) (h1 : val one = 1) (shells out : List (Shell ν))
    (hv : ∀ sh ∈ shells, validateShell val sh = none)
    (h : pruneShells val (uncontractSegmented one shells) = .ok out) :
    validateElement val (some out) none false = none := by
  rw [validateElement_iff]
  refine ⟨?_, by simp⟩
  intro ss hss
  cases hss
  refine ⟨?_, pruneShells_nodup val _ out h⟩
  intro s' hs'
  obtain ⟨s, hs, hp⟩ := pruneShells_members val _ out h s' hs'
  obtain ⟨sh, hsh, e, he, rfl⟩ := uncontractSegmented_members one shells s hs
  have v := uncontractSegmented_shell_valid val one h1 sh ((validateShell_iff val sh).1 (hv sh hsh)) e he
  have hk : 0 < sh.am.length := List.length_pos_iff.2 ((validateShell_iff val sh).1 (hv sh hsh)).am_nonempty
  have hne : (List.replicate sh.am.length [one]) ≠ [] := by
    intro h0
    have := congrArg List.length h0
    rw [List.length_replicate, List.length_nil] at this
    omega
  have hid := pruneShell_id_of_valid val _ v hne
  rw [hid] at hp
  cases hp
  exact v

/-! ## closure: the final prune turns every *prepared* shell list into a valid element

`Prepared` (Lemmas/Closure.lean) = rectangular non-zero columns, the right spherical/cartesian tag, positive exponents, one
column per member of a fused shell.  Valid shells are prepared; so are the shells `make_general` merges from them and the
parts `uncontract_spdf` splits them into.  Hence each of these options, followed by the prune that `get_basis` always runs
(`getBasis_always_prunes`), hands out a valid element.  The one rule no pruning can create, "no duplicate contraction in a
single-momentum shell", stays a hypothesis: it fails exactly when the input holds one contracted function twice (known
finding F10b shows the real code doing that). -/

/-- **the final `prune_basis` establishes validity** for every prepared shell list -/
theorem final_prune_establishes_validity [DecidableEq ν] (val : ν → Rat) (shells out : List (Shell ν))
    (hp : ∀ sh ∈ shells, Prepared val sh) (h : pruneShells val shells = .ok out)
    (hdup : ∀ s ∈ out, s.am.length = 1 → (s.coefs.map (·.map val)).Nodup) :
    validateElement val (some out) none false = none :=
  pruneShells_valid val shells out hp h hdup

/-- **`make_general`, fused shells left alone (`skip_spdf=True`, as `optimize_general` calls it)**: valid in, valid out -/
theorem makeGeneral_skip_valid [DecidableEq ν] (val : ν → Rat) (zero : ν) (hz : val zero = 0) (shells out : List (Shell ν))
    (hv : ∀ sh ∈ shells, validateShell val sh = none ∧ sh.coefs ≠ [])
    (h : makeGeneral val zero true shells = .ok out)
    (hdup : ∀ s ∈ out, s.am.length = 1 → (s.coefs.map (·.map val)).Nodup) :
    validateElement val (some out) none false = none :=
  makeGeneral_valid val zero hz shells out (fun sh hsh => ⟨(validateShell_iff val sh).1 (hv sh hsh).1, (hv sh hsh).2⟩) h hdup

/-- **`make_general` as `get_basis` calls it** (fused shells split first): valid in, valid out, for elements whose function types are
the schema's — fused shells of any composition (since fix 78fc7083 the split leaves no empty remainder behind; before it this theorem
needed the hypothesis that every fused shell has an s member, and the real code raised IndexError exactly where it failed) -/
theorem makeGeneral_full_valid [DecidableEq ν] (val : ν → Rat) (zero : ν) (hz : val zero = 0) (shells out : List (Shell ν))
    (hv : ∀ sh ∈ shells, validateShell val sh = none ∧ sh.coefs ≠ [] ∧ sh.ftype ∈ knownTypes)
    (h : makeGeneral val zero false shells = .ok out)
    (hdup : ∀ s ∈ out, s.am.length = 1 → (s.coefs.map (·.map val)).Nodup) :
    validateElement val (some out) none false = none :=
  makeGeneral_valid_split val zero hz shells out
    (fun sh hsh => ⟨(validateShell_iff val sh).1 (hv sh hsh).1, (hv sh hsh).2.1, (hv sh hsh).2.2⟩) h hdup

/-- **`uncontract_spdf` + the final prune**: valid in, valid out, for every `max_am` and fused shells of any composition -/
theorem uncontractSpdf_prune_valid [DecidableEq ν] (val : ν → Rat) (k : Nat) (shells out : List (Shell ν))
    (hv : ∀ sh ∈ shells, validateShell val sh = none ∧ sh.coefs ≠ [] ∧ sh.ftype ∈ knownTypes)
    (h : pruneShells val (uncontractSpdf k shells) = .ok out)
    (hdup : ∀ s ∈ out, s.am.length = 1 → (s.coefs.map (·.map val)).Nodup) :
    validateElement val (some out) none false = none :=
  uncontractSpdf_valid val k shells out
    (fun sh hsh => ⟨(validateShell_iff val sh).1 (hv sh hsh).1, (hv sh hsh).2.1, (hv sh hsh).2.2⟩) h hdup

/-- the hypotheses are met: an sp shell of the schema's type keeps its s member under `max_am = 0` -/
example : let sh : Shell String := { am := [0, 1], ftype := "gto", region := "", exps := ["2.0", "1.0"], coefs := [["0.5", "0.5"], ["0.3", "0.7"]] }
    validateShell numVal sh = none ∧ sh.ftype ∈ knownTypes ∧ (splitFused 0 sh).2.am ≠ [] := by
  refine ⟨by decide +kernel, by decide, by decide⟩

/-- operations that can leave duplicate exponents, dead primitives or duplicate shells behind -/
def needsRepair : Op → Bool
  | .uncontractSegmented | .uncontractGeneral | .removeFree | .optimizeGeneral | .uncontractSpdf _ => true
  | _ => false

/-- every contraction option block of `get_basis` requests the final prune, the prune block comes
after all of them and before the augmentation blocks, and it runs `prune_basis` -/
theorem getBasis_always_prunes :
    (∀ b ∈ BSE.Gen.Api.optionBlocks.take (BSE.Gen.Api.optionBlocks.findIdx (fun b => b.cond == "needs_pruning")),
        b.setsPrune = true)
      ∧ ((BSE.Gen.Api.optionBlocks[BSE.Gen.Api.optionBlocks.findIdx (fun b => b.cond == "needs_pruning")]?).map
          (fun b => b.steps.map (·.op))) = some [.pruneBasis]
      ∧ (∀ b ∈ BSE.Gen.Api.optionBlocks.drop (BSE.Gen.Api.optionBlocks.findIdx (fun b => b.cond == "needs_pruning") + 1),
          b.setsPrune = false ∧ ∀ st ∈ b.steps, needsRepair st.op = false) := by
  decide

def demoShell : Shell String :=
  { am := [0], ftype := "gto", region := "", exps := ["1.0", "1.00", "2.0"],
    coefs := [["0.5", "0.0", "0.3"], ["0.0", "0.7", "0.0"]] }

example : (pruneShell numVal demoShell).toOption.map (·.exps) = some ["1.0", "2.0"] := by decide +kernel

/-- the hypotheses of the validity theorems are met by a concrete general-contraction shell -/
example : validateShell numVal BSE.Props.C18.good = none ∧ BSE.Props.C18.good.coefs ≠ [] := by
  constructor
  · decide +kernel
  · simp [BSE.Props.C18.good]

end BSE.Props.C08
