import BSEModel.Bundle
/-! # C15 — a bundle is exactly the API output for everything the format supports -/
namespace BSE.Props.C15
open BSE.Bundle

/-- **basis sets the format cannot express are absent**: no member comes from a gated-out entry -/
theorem gated_out_absent (fmt reffmt ext refext readme : String) (entries : List Entry)
    (data : String → String → Option (String × String)) (fam : List (String × String)) (m : String × String)
    (hm : m ∈ bundleMembers fmt reffmt ext refext readme entries data fam) :
    m = ("basis_set_bundle-" ++ fmt ++ "-" ++ reffmt ++ "/README.txt", readme)
      ∨ (∃ e ∈ entries, gate fmt e.ftypes = true ∧ m ∈ entryMembers ("basis_set_bundle-" ++ fmt ++ "-" ++ reffmt) ext refext e data)
      ∨ (∃ f ∈ fam, f.2.isEmpty = false ∧ m = ("basis_set_bundle-" ++ fmt ++ "-" ++ reffmt ++ "/" ++ f.1 ++ ".family_notes", f.2)) := by
  unfold bundleMembers at hm
  simp only [List.mem_append, List.mem_singleton, List.mem_flatMap, List.mem_filter, List.mem_map] at hm
  rcases hm with (h | ⟨e, ⟨he, hg⟩, hme⟩) | ⟨f, ⟨hf, hne⟩, rfl⟩
  · exact Or.inl h
  · exact Or.inr (Or.inl ⟨e, he, hg, hme⟩)
  · exact Or.inr (Or.inr ⟨f, hf, by simpa using hne, rfl⟩)

/-- **what one basis contributes**: for every version that `get_basis` / `get_references` can express
exactly one basis file and one reference file, carrying exactly those two texts and named after the
basis' own file-name form; a notes file iff it has notes; nothing else -/
theorem entryMembers_spec (sub ext refext : String) (e : Entry) (data : String → String → Option (String × String))
    (m : String × String) :
    m ∈ entryMembers sub ext refext e data ↔
      (∃ v ∈ e.versions, ∃ bs ref, data e.key v = some (bs, ref) ∧
          (m = (sub ++ "/" ++ e.key ++ "." ++ v ++ ext, bs) ∨ m = (sub ++ "/" ++ e.key ++ "." ++ v ++ ".ref" ++ refext, ref)))
      ∨ (e.notes.isEmpty = false ∧ m = (sub ++ "/" ++ e.key ++ ".notes", e.notes)) := by
  unfold entryMembers
  simp only [List.mem_append, List.mem_flatMap]
  constructor
  · rintro (⟨v, hv, hm⟩ | hn)
    · left
      cases hd : data e.key v with
      | none => simp [hd, versionMembers] at hm
      | some p =>
        obtain ⟨bs, ref⟩ := p
        simp only [hd, versionMembers, List.mem_cons, List.not_mem_nil, or_false] at hm
        exact ⟨v, hv, bs, ref, hd, hm⟩
    · right
      by_cases hne : e.notes.isEmpty = true
      · simp [hne] at hn
      · simp only [hne, Bool.false_eq_true, if_false, List.mem_singleton] at hn
        exact ⟨by simpa using hne, hn⟩
  · rintro (⟨v, hv, bs, ref, hd, hm⟩ | ⟨hne, rfl⟩)
    · left
      refine ⟨v, hv, ?_⟩
      simp only [hd, versionMembers, List.mem_cons, List.not_mem_nil, or_false]
      exact hm
    · right; simp [hne]

/-- the notes of a basis are filed under that basis' own name — also when none of its versions can be
expressed in the format (the defect repaired by fix 20a78227 put them under the previous basis' name) -/
theorem notes_named_after_own_basis (sub ext refext : String) (e : Entry) (data : String → String → Option (String × String))
    (hne : e.notes.isEmpty = false) (hnone : ∀ v, data e.key v = none) :
    entryMembers sub ext refext e data = [(sub ++ "/" ++ e.key ++ ".notes", e.notes)] := by
  unfold entryMembers
  have : (e.versions.flatMap fun v => versionMembers sub ext refext e.key v (data e.key v)) = [] := by
    apply List.flatMap_eq_nil_iff.2
    intro v _
    simp [hnone v, versionMembers]
  rw [this]
  simp [hne]

/-- **exactly**: a pair is an archive member iff it is the README, a member of a basis the format can express, or the
notes of a family that has notes — the converse of `gated_out_absent` included -/
theorem bundleMembers_iff (fmt reffmt ext refext readme : String) (entries : List Entry)
    (data : String → String → Option (String × String)) (fam : List (String × String)) (m : String × String) :
    m ∈ bundleMembers fmt reffmt ext refext readme entries data fam ↔
      m = ("basis_set_bundle-" ++ fmt ++ "-" ++ reffmt ++ "/README.txt", readme)
      ∨ (∃ e ∈ entries, gate fmt e.ftypes = true ∧ m ∈ entryMembers ("basis_set_bundle-" ++ fmt ++ "-" ++ reffmt) ext refext e data)
      ∨ (∃ f ∈ fam, f.2.isEmpty = false ∧ m = ("basis_set_bundle-" ++ fmt ++ "-" ++ reffmt ++ "/" ++ f.1 ++ ".family_notes", f.2)) := by
  constructor
  · exact gated_out_absent fmt reffmt ext refext readme entries data fam m
  · intro h
    unfold bundleMembers
    simp only [List.mem_append, List.mem_singleton, List.mem_flatMap, List.mem_filter, List.mem_map]
    rcases h with rfl | ⟨e, he, hg, hm⟩ | ⟨f, hf, hne, rfl⟩
    · exact Or.inl (Or.inl rfl)
    · exact Or.inl (Or.inr ⟨e, ⟨he, hg⟩, hm⟩)
    · exact Or.inr ⟨f, ⟨hf, by simp [hne]⟩, rfl⟩

/-- **every family that has notes gets its notes file, whatever the format can express**: the family-notes members do
not depend on the entries or on the gate (a family all of whose basis sets are gated out keeps its notes) -/
theorem family_notes_always_present (fmt reffmt ext refext readme : String) (entries : List Entry)
    (data : String → String → Option (String × String)) (fam : List (String × String)) (f : String × String)
    (hf : f ∈ fam) (hne : f.2.isEmpty = false) :
    ("basis_set_bundle-" ++ fmt ++ "-" ++ reffmt ++ "/" ++ f.1 ++ ".family_notes", f.2)
      ∈ bundleMembers fmt reffmt ext refext readme entries data fam :=
  (bundleMembers_iff fmt reffmt ext refext readme entries data fam _).2 (Or.inr (Or.inr ⟨f, hf, hne, rfl⟩))

/-- **every expressible version is present with both files** -/
theorem version_files_present (fmt reffmt ext refext readme : String) (entries : List Entry)
    (data : String → String → Option (String × String)) (fam : List (String × String))
    (e : Entry) (he : e ∈ entries) (hg : gate fmt e.ftypes = true) (v : String) (hv : v ∈ e.versions)
    (bs ref : String) (hd : data e.key v = some (bs, ref)) :
    ("basis_set_bundle-" ++ fmt ++ "-" ++ reffmt ++ "/" ++ e.key ++ "." ++ v ++ ext, bs)
        ∈ bundleMembers fmt reffmt ext refext readme entries data fam
    ∧ ("basis_set_bundle-" ++ fmt ++ "-" ++ reffmt ++ "/" ++ e.key ++ "." ++ v ++ ".ref" ++ refext, ref)
        ∈ bundleMembers fmt reffmt ext refext readme entries data fam := by
  constructor
  · exact (bundleMembers_iff ..).2 (Or.inr (Or.inl ⟨e, he, hg,
      (entryMembers_spec _ ext refext e data _).2 (Or.inl ⟨v, hv, bs, ref, hd, Or.inl rfl⟩)⟩))
  · exact (bundleMembers_iff ..).2 (Or.inr (Or.inl ⟨e, he, hg,
      (entryMembers_spec _ ext refext e data _).2 (Or.inl ⟨v, hv, bs, ref, hd, Or.inr rfl⟩)⟩))


/-! ### file names map back to basis names -/

theorem split_last_dot : ∀ (K K' v v' : List Char), '.' ∉ v → '.' ∉ v' → K ++ '.' :: v = K' ++ '.' :: v' → K = K' ∧ v = v' := by
  intro K
  induction K with
  | nil =>
    intro K' v v' hv hv' h
    cases K' with
    | nil => simp at h; exact ⟨rfl, h⟩
    | cons c Ks =>
      simp only [List.nil_append, List.cons_append, List.cons.injEq] at h
      exact absurd (h.2 ▸ (by simp : '.' ∈ Ks ++ '.' :: v')) hv
  | cons c Ks ih =>
    intro K' v v' hv hv' h
    cases K' with
    | nil =>
      simp only [List.nil_append, List.cons_append, List.cons.injEq] at h
      exact absurd (h.2 ▸ (by simp : '.' ∈ Ks ++ '.' :: v)) hv'
    | cons c' Ks' =>
      simp only [List.cons_append, List.cons.injEq] at h
      obtain ⟨h1, h2⟩ := ih Ks' v v' hv hv' h.2
      exact ⟨by rw [h.1, h1], h2⟩

theorem name_injective (pre suf k k' v v' : String) (hv : '.' ∉ v.toList) (hv' : '.' ∉ v'.toList)
    (h : pre ++ k ++ "." ++ v ++ suf = pre ++ k' ++ "." ++ v' ++ suf) : k = k' ∧ v = v' := by
  have h1 := congrArg String.toList h
  simp only [String.toList_append] at h1
  have hd : (".":String).toList = ['.'] := rfl
  rw [hd] at h1
  have h2 : (pre.toList ++ (k.toList ++ '.' :: v.toList)) ++ suf.toList = (pre.toList ++ (k'.toList ++ '.' :: v'.toList)) ++ suf.toList := by
    simpa [List.append_assoc] using h1
  have h3 := List.append_cancel_left (List.append_cancel_right h2)
  obtain ⟨a, b⟩ := split_last_dot _ _ _ _ hv hv' h3
  exact ⟨String.toList_inj.1 a, String.toList_inj.1 b⟩

/-- **file names map back to basis names**: the name of a basis file (and of a reference file) determines the basis — in the
index' file-name form, which `get_basis` accepts — and the version, whatever characters the name contains (dots included: the
version is the last dot-separated piece in front of the extension, and versions are digit strings); the name of a notes file
determines the basis.  Two different (basis, version) pairs therefore never share a member name, so "exactly one basis file
and one reference file" cannot be met by overwriting -/
theorem file_names_map_back (sub ext refext : String) (k k' v v' : String) (hv : '.' ∉ v.toList) (hv' : '.' ∉ v'.toList) :
    (sub ++ "/" ++ k ++ "." ++ v ++ ext = sub ++ "/" ++ k' ++ "." ++ v' ++ ext → k = k' ∧ v = v')
    ∧ (sub ++ "/" ++ k ++ "." ++ v ++ ".ref" ++ refext = sub ++ "/" ++ k' ++ "." ++ v' ++ ".ref" ++ refext → k = k' ∧ v = v')
    ∧ (sub ++ "/" ++ k ++ ".notes" = sub ++ "/" ++ k' ++ ".notes" → k = k') := by
  refine ⟨fun h => name_injective (sub ++ "/") ext k k' v v' hv hv' h, fun h => ?_, fun h => ?_⟩
  · have h' : sub ++ "/" ++ k ++ "." ++ v ++ (".ref" ++ refext) = sub ++ "/" ++ k' ++ "." ++ v' ++ (".ref" ++ refext) := by
      simpa [String.append_assoc] using h
    exact name_injective (sub ++ "/") (".ref" ++ refext) k k' v v' hv hv' h'
  · have h1 := congrArg String.toList h
    simp only [String.toList_append] at h1
    have h2 := List.append_cancel_left (List.append_cancel_right h1)
    exact String.toList_inj.1 h2

/-- the members of two different versions of one basis, and of one version of two different bases, have different names -/
theorem version_members_disjoint (sub ext refext k k' v v' : String) (hv : '.' ∉ v.toList) (hv' : '.' ∉ v'.toList)
    (d d' : String × String) (hne : (k, v) ≠ (k', v')) :
    ((versionMembers sub ext refext k v (some d)).map (·.1))[0]? ≠ ((versionMembers sub ext refext k' v' (some d')).map (·.1))[0]?
    ∧ ((versionMembers sub ext refext k v (some d)).map (·.1))[1]? ≠ ((versionMembers sub ext refext k' v' (some d')).map (·.1))[1]? := by
  obtain ⟨bs, rf⟩ := d
  obtain ⟨bs', rf'⟩ := d'
  obtain ⟨h1, h2, _⟩ := file_names_map_back sub ext refext k k' v v' hv hv'
  constructor
  · intro h
    simp only [versionMembers, List.map_cons, List.map_nil, List.getElem?_cons_zero, Option.some.injEq] at h
    obtain ⟨a, b⟩ := h1 h
    exact hne (by rw [a, b])
  · intro h
    simp only [versionMembers, List.map_cons, List.map_nil, List.getElem?_cons_succ, List.getElem?_cons_zero, Option.some.injEq] at h
    obtain ⟨a, b⟩ := h2 h
    exact hne (by rw [a, b])

example : gate "veloxchem" ["gto", "scalar_ecp"] = false ∧ gate "nwchem" ["gto", "scalar_ecp"] = true ∧ gate "json" ["anything"] = true := by
  decide

end BSE.Props.C15
