import BSEModel.Bundle
/-! # C15 — a bundle is exactly the API output for everything the format supports -/
namespace BSE.Props.C15
open BSE.Bundle

/-- **basis sets the format cannot express are absent**: no member comes from a gated-out entry -/
theorem gated_out_absent (fmt reffmt ext refext readme : String) (entries : List Entry)
    (data : String → String → Option (String × String)) (fam : List (String × String)) (m : String × String)
    (hm : m ∈ bundleMembers fmt reffmt ext refext readme entries data fam) :
    m = ("basis_set_bundle-" ++ fmt ++ "-" ++ reffmt ++ "/README.txt", readme)
      ∨ (∃ e ∈ entries, gate fmt e.ftypes = true ∧ m ∈ entryMembers ("basis_set_bundle-" ++ fmt ++ "-" ++ reffmt) ext refext e data)
      ∨ (∃ f ∈ fam, f.2.isEmpty = false ∧ m = ("basis_set_bundle-" ++ fmt ++ "-" ++ reffmt ++ "/" ++ f.1 ++ ".family_notes", f.2)) := by
  unfold bundleMembers at hm
  simp only [List.mem_append, List.mem_singleton, List.mem_flatMap, List.mem_filter, List.mem_map] at hm
  rcases hm with (h | ⟨e, ⟨he, hg⟩, hme⟩) | ⟨f, ⟨hf, hne⟩, rfl⟩
  · exact Or.inl h
  · exact Or.inr (Or.inl ⟨e, he, hg, hme⟩)
  · exact Or.inr (Or.inr ⟨f, hf, by simpa using hne, rfl⟩)

/-- **what one basis contributes**: for every version that `get_basis` / `get_references` can express
exactly one basis file and one reference file, carrying exactly those two texts and named after the
basis' own file-name form; a notes file iff it has notes; nothing else -/
theorem entryMembers_spec (sub ext refext : String) (e : Entry) (data : String → String → Option (String × String))
    (m : String × String) :
    m ∈ entryMembers sub ext refext e data ↔
      (∃ v ∈ e.versions, ∃ bs ref, data e.key v = some (bs, ref) ∧
          (m = (sub ++ "/" ++ e.key ++ "." ++ v ++ ext, bs) ∨ m = (sub ++ "/" ++ e.key ++ "." ++ v ++ ".ref" ++ refext, ref)))
      ∨ (e.notes.isEmpty = false ∧ m = (sub ++ "/" ++ e.key ++ ".notes", e.notes)) := by
  unfold entryMembers
  simp only [List.mem_append, List.mem_flatMap]
  constructor
  · rintro (⟨v, hv, hm⟩ | hn)
    · left
      cases hd : data e.key v with
      | none => simp [hd, versionMembers] at hm
      | some p =>
        obtain ⟨bs, ref⟩ := p
        simp only [hd, versionMembers, List.mem_cons, List.not_mem_nil, or_false] at hm
        exact ⟨v, hv, bs, ref, hd, hm⟩
    · right
      by_cases hne : e.notes.isEmpty = true
      · simp [hne] at hn
      · simp only [hne, Bool.false_eq_true, if_false, List.mem_singleton] at hn
        exact ⟨by simpa using hne, hn⟩
  · rintro (⟨v, hv, bs, ref, hd, hm⟩ | ⟨hne, rfl⟩)
    · left
      refine ⟨v, hv, ?_⟩
      simp only [hd, versionMembers, List.mem_cons, List.not_mem_nil, or_false]
      exact hm
    · right; simp [hne]

/-- the notes of a basis are filed under that basis' own name — also when none of its versions can be
expressed in the format (the defect repaired by fix 20a78227 put them under the previous basis' name) -/
theorem notes_named_after_own_basis (sub ext refext : String) (e : Entry) (data : String → String → Option (String × String))
    (hne : e.notes.isEmpty = false) (hnone : ∀ v, data e.key v = none) :
    entryMembers sub ext refext e data = [(sub ++ "/" ++ e.key ++ ".notes", e.notes)] := by
  unfold entryMembers
  have : (e.versions.flatMap fun v => versionMembers sub ext refext e.key v (data e.key v)) = [] := by
    apply List.flatMap_eq_nil_iff.2
    intro v _
    simp [hnone v, versionMembers]
  rw [this]
  simp [hne]

/-- **exactly**: a pair is an archive member iff it is the README, a member of a basis the format can express, or the
notes of a family that has notes — the converse of `gated_out_absent` included -/
theorem bundleMembers_iff (fmt reffmt ext refext readme : String) (entries : List Entry)
    (data : String → String → Option (String × String)) (fam : List (String × String)) (m : String × String) :
    m ∈ bundleMembers fmt reffmt ext refext readme entries data fam ↔
      m = ("basis_set_bundle-" ++ fmt ++ "-" ++ reffmt ++ "/README.txt", readme)
      ∨ (∃ e ∈ entries, gate fmt e.ftypes = true ∧ m ∈ entryMembers ("basis_set_bundle-" ++ fmt ++ "-" ++ reffmt) ext refext e data)
      ∨ (∃ f ∈ fam, f.2.isEmpty = false ∧ m = ("basis_set_bundle-" ++ fmt ++ "-" ++ reffmt ++ "/" ++ f.1 ++ ".family_notes", f.2)) := by
  constructor
  · exact gated_out_absent fmt reffmt ext refext readme entries data fam m
  · intro h
    unfold bundleMembers
    simp only [List.mem_append, List.mem_singleton, List.mem_flatMap, List.mem_filter, List.mem_map]
    rcases h with rfl | ⟨e, he, hg, hm⟩ | ⟨f, hf, hne, rfl⟩
    · exact Or.inl (Or.inl rfl)
    · exact Or.inl (Or.inr ⟨e, ⟨he, hg⟩, hm⟩)
    · exact Or.inr ⟨f, ⟨hf, by simp [hne]⟩, rfl⟩

/-- **every family that has notes gets its notes file, whatever the format can express**: the family-notes members do
not depend on the entries or on the gate (a family all of whose basis sets are gated out keeps its notes) -/
theorem family_notes_always_present (fmt reffmt ext refext readme : String) (entries : List Entry)
    (data : String → String → Option (String × String)) (fam : List (String × String)) (f : String × String)
    (hf : f ∈ fam) (hne : f.2.isEmpty = false) :
    ("basis_set_bundle-" ++ fmt ++ "-" ++ reffmt ++ "/" ++ f.1 ++ ".family_notes", f.2)
      ∈ bundleMembers fmt reffmt ext refext readme entries data fam :=
  (bundleMembers_iff fmt reffmt ext refext readme entries data fam _).2 (Or.inr (Or.inr ⟨f, hf, hne, rfl⟩))

/-- **every expressible version is present with both files** -/
theorem version_files_present (fmt reffmt ext refext readme : String) (entries : List Entry)
    (data : String → String → Option (String × String)) (fam : List (String × String))
    (e : Entry) (he : e ∈ entries) (hg : gate fmt e.ftypes = true) (v : String) (hv : v ∈ e.versions)
    (bs ref : String) (hd : data e.key v = some (bs, ref)) :
    ("basis_set_bundle-" ++ fmt ++ "-" ++ reffmt ++ "/" ++ e.key ++ "." ++ v ++ ext, bs)
        ∈ bundleMembers fmt reffmt ext refext readme entries data fam
    ∧ ("basis_set_bundle-" ++ fmt ++ "-" ++ reffmt ++ "/" ++ e.key ++ "." ++ v ++ ".ref" ++ refext, ref)
        ∈ bundleMembers fmt reffmt ext refext readme entries data fam := by
  constructor
  · exact (bundleMembers_iff ..).2 (Or.inr (Or.inl ⟨e, he, hg,
      (entryMembers_spec _ ext refext e data _).2 (Or.inl ⟨v, hv, bs, ref, hd, Or.inl rfl⟩)⟩))
  · exact (bundleMembers_iff ..).2 (Or.inr (Or.inl ⟨e, he, hg,
      (entryMembers_spec _ ext refext e data _).2 (Or.inl ⟨v, hv, bs, ref, hd, Or.inr rfl⟩)⟩))

example : gate "veloxchem" ["gto", "scalar_ecp"] = false ∧ gate "nwchem" ["gto", "scalar_ecp"] = true ∧ gate "json" ["anything"] = true := by
  decide

end BSE.Props.C15
