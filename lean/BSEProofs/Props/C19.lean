import BSEModel.Compare
import Batteries.Data.List.Perm
import Mathlib.Data.List.Nodup
/-! # C19 — comparison and difference tools agree with exact equality of the data -/
namespace BSE.Props.C19
open BSE BSE.Cmp

variable {ν : Type}

theorem absR_eq_zero (x : Rat) : absR x = 0 ↔ x = 0 := by
  unfold absR; split <;> grind

theorem absR_pos (x : Rat) (h : x ≠ 0) : absR x > 0 := by
  unfold absR; split <;> grind

theorem minR_pos (x y : Rat) (hx : x > 0) (hy : y > 0) : minR x y > 0 := by
  unfold minR; split <;> assumption

theorem reldiff_pos (a b : Rat) (hab : a ≠ b) : reldiff a b = none ∨ ∃ r, reldiff a b = some r ∧ r > 0 := by
  unfold reldiff
  by_cases h0 : a = 0 ∧ b = 0
  · exact absurd (by rw [h0.1, h0.2]) hab
  · simp only [h0, if_false]
    by_cases h1 : a = 0 ∨ b = 0
    · left; simp [h1]
    · right
      simp only [h1, if_false]
      have ha : a ≠ 0 := fun e => h1 (Or.inl e)
      have hb : b ≠ 0 := fun e => h1 (Or.inr e)
      have hd : absR (a - b) > 0 := absR_pos _ (by grind)
      have hm : minR (absR a) (absR b) > 0 := minR_pos _ _ (absR_pos a ha) (absR_pos b hb)
      exact ⟨_, rfl, by rw [Rat.div_def]; exact Rat.mul_pos hd (Rat.inv_pos.2 hm)⟩

/-- **at zero tolerance two numbers compare equal exactly when they are equal — signs included** -/
theorem entryOk_zero (a b : Rat) : entryOk 0 a b = true ↔ a = b := by
  unfold entryOk
  by_cases h : absR (a - b) = 0
  · simp only [h, if_true, true_iff]
    have := (absR_eq_zero (a - b)).1 h
    grind
  · simp only [h, if_false]
    have hab : a ≠ b := by
      intro e; apply h; rw [e]; exact (absR_eq_zero _).2 (by grind)
    constructor
    · intro hh
      exfalso
      rcases reldiff_pos a b hab with hn | ⟨r, hr, hpos⟩
      · rw [hn] at hh; cases hh
      · rw [hr] at hh
        simp only [Bool.not_eq_true', decide_eq_false_iff_not] at hh
        exact hh hpos
    · intro e; exact absurd e hab

/-- vectors: equal length and entrywise equal values -/
theorem vecEq_zero (val : ν → Rat) (a b : List ν) : vecEq val 0 a b = true ↔ a.map val = b.map val := by
  unfold vecEq
  induction a generalizing b with
  | nil => cases b <;> simp
  | cons x xs ih =>
    cases b with
    | nil => simp
    | cons y ys =>
      have := ih ys
      simp only [List.length_cons, List.zip_cons_cons, List.all_cons, List.map_cons, List.cons.injEq,
        Bool.and_eq_true, beq_iff_eq, Nat.add_right_cancel_iff] at this ⊢
      rw [entryOk_zero]
      constructor
      · rintro ⟨hl, he, hall⟩; exact ⟨he, this.1 ⟨hl, hall⟩⟩
      · rintro ⟨he, hm⟩; have := this.2 hm; exact ⟨this.1, he, this.2⟩

theorem matEq_zero (val : ν → Rat) (a b : List (List ν)) :
    matEq val 0 a b = true ↔ a.map (·.map val) = b.map (·.map val) := by
  unfold matEq
  induction a generalizing b with
  | nil => cases b <;> simp
  | cons x xs ih =>
    cases b with
    | nil => simp
    | cons y ys =>
      have := ih ys
      simp only [List.length_cons, List.zip_cons_cons, List.all_cons, List.map_cons, List.cons.injEq,
        Bool.and_eq_true, beq_iff_eq, Nat.add_right_cancel_iff] at this ⊢
      rw [vecEq_zero]
      constructor
      · rintro ⟨hl, he, hall⟩; exact ⟨he, this.1 ⟨hl, hall⟩⟩
      · rintro ⟨he, hm⟩; have := this.2 hm; exact ⟨this.1, he, this.2⟩

/-- **zero tolerance: two (sorted) shells compare equal exactly when they have the same angular
momentum and the same table of exponent and *signed* coefficient values, whatever the number notation** -/
theorem compareSorted_zero (val : ν → Rat) (s1 s2 : Shell ν) :
    compareSorted val 0 false s1 s2 = true
      ↔ s1.am = s2.am ∧ (shellRows s1).map (·.map val) = (shellRows s2).map (·.map val) := by
  simp [compareSorted, matEq_zero]

/-! ### lists of shells: length + mutual subset -/

theorem subsetBy_iff {α} (R : α → α → Bool) (l1 l2 : List α) :
    subsetBy R l1 l2 = true ↔ ∀ a ∈ l1, ∃ b ∈ l2, R a b = true := by
  simp [subsetBy, List.all_eq_true, List.any_eq_true]

/-- for an equivalence relation and lists without internal duplicates, "equal" means that every
shell of either list has **exactly one** partner in the other list -/
theorem equalBy_unique_partner {α} (R : α → α → Bool)
    (symm : ∀ a b, R a b = true → R b a = true) (trans : ∀ a b c, R a b = true → R b c = true → R a c = true)
    (l1 l2 : List α) (hd2 : l2.Pairwise (fun a b => R a b = false))
    (h : equalBy R l1 l2 = true) :
    ∀ a ∈ l1, ∃ b ∈ l2, R a b = true ∧ ∀ b' ∈ l2, R a b' = true → b' = b := by
  simp only [equalBy, Bool.and_eq_true] at h
  intro a ha
  obtain ⟨b, hb, hab⟩ := (subsetBy_iff R l1 l2).1 h.1.2 a ha
  refine ⟨b, hb, hab, ?_⟩
  intro b' hb' hab'
  -- b and b' are related; in a pairwise-unrelated list that forces b' = b (same position)
  have hbb' : R b b' = true := trans b a b' (symm a b hab) hab'
  have hb'b : R b' b = true := symm _ _ hbb'
  -- walk the list
  clear h ha
  induction l2 with
  | nil => cases hb
  | cons x xs ih =>
    have hp := List.pairwise_cons.1 hd2
    rcases List.mem_cons.1 hb with rfl | hbx
    · rcases List.mem_cons.1 hb' with rfl | hb'x
      · rfl
      · have := hp.1 b' hb'x; rw [hbb'] at this; cases this
    · rcases List.mem_cons.1 hb' with rfl | hb'x
      · have := hp.1 b hbx; rw [hb'b] at this; cases this
      · exact ih hp.2 hbx hb'x

/-- **diff: the result is precisely the left shells that no right shell matches, in order** -/
theorem subtractBy_spec {α} (R : α → α → Bool) (l1 l2 : List α) :
    (∀ a, a ∈ subtractBy R l1 l2 ↔ a ∈ l1 ∧ ∀ b ∈ l2, R a b = false)
      ∧ (subtractBy R l1 l2).Sublist l1 := by
  refine ⟨?_, List.filter_sublist⟩
  intro a
  simp [subtractBy, List.mem_filter]

/-- subtracting several right operands one after the other = subtracting their union -/
theorem subtractBy_append {α} (R : α → α → Bool) (l r1 r2 : List α) :
    subtractBy R (subtractBy R l r1) r2 = subtractBy R l (r1 ++ r2) := by
  simp only [subtractBy, List.filter_filter, List.any_append]
  apply List.filter_congr
  intro a _
  cases l1 : r1.any (R a) <;> cases l2 : r2.any (R a) <;> simp

/-! ### with a tolerance the comparison is no longer transitive: mutual subset is not a pairing -/

/-- three shells per side (single primitive, exponents as below), tolerance 0.011: every shell of
either side is within tolerance of some shell of the other side, the lengths agree, so the code
answers "equal" — yet `2.01` and `2.02`/`2.00` … cannot be paired one-to-one with `1.00, 1.02` vs `1.01` -/
def insertAll {α} (x : α) : List α → List (List α)
  | [] => [[x]]
  | y :: ys => (x :: y :: ys) :: (insertAll x ys).map (y :: ·)

/-- all orderings of a list -/
def perms {α} : List α → List (List α)
  | [] => [[]]
  | x :: xs => (perms xs).flatMap (insertAll x)

def tolR : Rat → Rat → Bool := fun a b => entryOk (11 / 1000) a b
def tolL1 : List Rat := [100 / 100, 102 / 100, 201 / 100]
def tolL2 : List Rat := [101 / 100, 200 / 100, 202 / 100]

theorem tolerance_subset_is_not_pairing :
    equalBy tolR tolL1 tolL2 = true
      ∧ (perms tolL2).all (fun σ => !((tolL1.zip σ).all (fun p => tolR p.1 p.2))) = true := by
  decide +kernel

/-- **with a tolerance: "equal" is a perfect matching whenever partners are unique.**  If no shell of either list is within
tolerance of two shells of the other list (`Separated`; the counter-example above is exactly a violation of it) and neither list
repeats a shell, then the code's answer — equal length and mutual subset — yields a one-to-one pairing: a function `f` with
every shell `a` of the first list within tolerance of `f a`, and the images forming a permutation of the second list. -/
theorem equalBy_is_matching {α} [Inhabited α] (R : α → α → Bool) (l1 l2 : List α)
    (hn1 : l1.Nodup) (hn2 : l2.Nodup)
    (hsep : ∀ b ∈ l2, ∀ a ∈ l1, ∀ a' ∈ l1, R a b = true → R a' b = true → a = a')
    (h : equalBy R l1 l2 = true) :
    ∃ f : α → α, (∀ a ∈ l1, R a (f a) = true) ∧ (l1.map f).Perm l2 := by
  simp only [equalBy, Bool.and_eq_true, beq_iff_eq] at h
  obtain ⟨⟨hlen, hsub⟩, _⟩ := h
  have hex := (subsetBy_iff R l1 l2).1 hsub
  let f : α → α := fun a => (l2.find? (R a)).getD default
  have hf : ∀ a ∈ l1, f a ∈ l2 ∧ R a (f a) = true := by
    intro a ha
    obtain ⟨b, hb, hab⟩ := hex a ha
    cases hfd : l2.find? (R a) with
    | none =>
      have := List.find?_eq_none.1 hfd b hb
      rw [hab] at this
      exact absurd rfl this
    | some c =>
      have hc := List.mem_of_find?_eq_some hfd
      have hrc := List.find?_some hfd
      simp only [f, hfd, Option.getD_some]
      exact ⟨hc, hrc⟩
  refine ⟨f, fun a ha => (hf a ha).2, ?_⟩
  -- the images are pairwise different (a shell of the second list has at most one partner), lie in l2, and are as many as l2
  have hnd : (l1.map f).Nodup := by
    rw [List.nodup_map_iff_inj_on hn1]
    intro a ha a' ha' heq
    have heq : f a = f a' := heq
    exact hsep (f a) (hf a ha).1 a ha a' ha' (hf a ha).2 (heq ▸ (hf a' ha').2)
  have hsubset : l1.map f ⊆ l2 := by
    intro x hx
    obtain ⟨a, ha, rfl⟩ := List.mem_map.1 hx
    exact (hf a ha).1
  exact (List.subperm_of_subset hnd hsubset).perm_of_length_le (by simp [hlen])

/-- non-vacuity / sign clause on concrete strings -/
example : vecEq numVal 0 ["1.0", "-0.5"] ["1.00E+00", "-5.0e-1"] = true
    ∧ vecEq numVal 0 ["1.0", "-0.5"] ["1.0", "0.5"] = false := by decide +kernel

end BSE.Props.C19
